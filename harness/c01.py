"""C01 — one consistent tree after any edit history. Correspondence of the real pointer fields and iterators
with the Lean heap model after every step of generated edit histories, plus the direct oracle (pre-order of the
children lists) on the real objects."""
import json
from harness.common import Hang, arm as common_arm, disarm as common_disarm
from collections import Counter

from .common import Ctx, Driver
from . import heapsim

MANIFEST = dict(
    text=("Lean: the tree-editing procedures of element.py are mirrored statement by statement on a pointer heap "
          "(Model/Heap.lean); the invariant WF (nested-set witness: children tile the parent's interval, every link field "
          "characterised by positions) is shown to be preserved by the two primitives every editing call is built from "
          "(extract, _insert's linking) and hence by every call and every finite history, and WF implies that all six link "
          "fields and the seven iterators are the pre-order of the children lists (see evidence 'theorems' for what is "
          "proved on this run). Tie: after EVERY step of generated histories (parsed and API-built starts, 15 call kinds (incl. clear(decompose=True) and the deprecated spellings replaceWith / replace_with_children / replaceWithChildren), "
          "arguments fresh / plain str / from anywhere in the forest incl. same parent, other trees, whole BeautifulSoup "
          "objects), every pointer and iterator of every live element is compared with the model, and the property statement "
          "is evaluated directly on the real objects. Copies (copy-histories stream): copy.copy / copy.deepcopy / __copy__ of elements anywhere in "
          "the forest are steps of the histories (Model/HeapCopy.lean), later steps use the nodes of the copy; right after every copy the "
          "copy clause is evaluated directly: the copy has no parent, no siblings, consists of new objects only, has no link out of itself, "
          "is isomorphic to its source, and no pointer of any other element has changed."),
    design="7/C01",
    note=("Parse-time linkage (object_was_parsed/_linkage_fixer) is covered by C03's model; here parsed starts are rebuilt in the "
          "model by appends and compared pointer by pointer. The BeautifulSoup root's freedom to stand outside the element "
          "chain is canonicalised away exactly as the property allows. Calls that would put an element beneath itself are "
          "outside the quantifier (model outcome 'excluded')."),
    technique="Lean 4 invariant proof over a code-mirror heap model + per-step differential correspondence + direct oracle",
)


def op_labels(op: str):
    """the node labels an op names (target and arguments)"""
    return [a for fld in op.split(":")[1:] for a in fld.split(",")]


def run_history(ctx: Ctx, rng, idx: int, steps: int, iters: bool, stream: str, copies: float = 0.0):
    """copies > 0: that share of the steps copies an element (`cp`); non-trivial is then: a node of a copy was the target or an
    argument of a later step"""
    parsed = rng.random() < 0.5
    w, kinds, prefix = heapsim.make_world(rng, parsed)
    stats = Counter()
    ops = list(prefix)
    real_dumps = []          # (status, dump) per op after the prefix; prefix steps are compared too
    soups = {f"t{i}" for i, k in enumerate(kinds) if k == "r"}
    # the parsed start, as the model sees it after its appends
    for _ in prefix:
        real_dumps.append(None)
    if prefix:
        real_dumps[-1] = ("ok", w.dump(iters))
        msg = heapsim.oracle_c01(w)
        if msg:
            ctx.violation("parsed tree is not one consistent tree: " + msg, case={"kinds": kinds, "ops": ops, "parsed": True}, stream=stream)
    nontrivial = False
    copy_used = False
    try:
        for s in range(steps):
            common_arm(60)
            op = heapsim.gen_op(rng, w, stats, copies=copies)
            if op is None:
                break
            ops.append(op)
            if copies and any(a in w.copy_labels for a in op_labels(op)):
                copy_used = True
                ctx.count("cp:later-step-uses-a-node-of-a-copy")
            st = w.apply(op)
            ctx.count("op:" + op.split(":")[0])
            ctx.count("outcome:" + st)
            if op.startswith("cp:") and st == "ok" and w.copy_oracle_msg:
                real_dumps.append(("ok", w.dump(iters)))
                ctx.violation("a copy is not a self-contained new tree beside an untouched forest: " + w.copy_oracle_msg,
                              case={"kinds": kinds, "ops": ops, "parsed": parsed, "twin": getattr(w, "twin_choices", None)},
                              observed=w.copy_oracle_msg, stream=stream)
                break
            if st != "ok":
                real_dumps.append((st, None))
                # a call that raises is still a call: it must not leave the forest half-edited
                msg = heapsim.oracle_c01(w)
                if msg:
                    ctx.violation(f"after a call that raised ({st}) the views no longer describe one tree: " + msg,
                                  case={"kinds": kinds, "ops": ops, "parsed": parsed, "twin": getattr(w, "twin_choices", None)}, observed=msg, stream=stream)
                break
            real_dumps.append(("ok", w.dump(iters)))
            msg = heapsim.oracle_c01(w)
            if msg:
                ctx.violation("after this history the views no longer describe one tree: " + msg,
                              case={"kinds": kinds, "ops": ops, "parsed": parsed, "twin": getattr(w, "twin_choices", None)}, observed=msg, stream=stream)
                break
    except Hang:
        ctx.violation(f"{ops[-1] if ops else '?'}: the call, or a traversal of the forest it left, did not return within 60 s (a link chain that loops)",
                      case={"kinds": kinds, "ops": ops, "parsed": parsed, "twin": getattr(w, "twin_choices", None)}, observed="no return", stream=stream)
    finally:
        common_disarm()
    for k, v in stats.items():
        ctx.count(k, v)
        if k in ("arg:same-parent", "arg:elsewhere", "arg:soup", "arg:repeat") and v:
            nontrivial = True
    if copies:
        nontrivial = copy_used
        for k, v in w.call_forms.items():
            if k.startswith("cp"):
                ctx.count("cp:form-" + ["copy.copy", "copy.deepcopy", "__copy__"][int(k[2:])], v)
    line = f"c01 run {kinds} {';'.join(ops) if ops else '-'} {'all' if iters else 'ptr'}"
    # (the copies of BeautifulSoup objects are BeautifulSoup objects: the same freedom; labels are never reused, so the final set serves every step)
    return line, real_dumps, {"kinds": kinds, "ops": ops, "parsed": parsed, "twin": getattr(w, "twin_choices", None)}, soups | w.soup_labels, nontrivial


def compare(ctx: Ctx, reply: str, real_dumps, case, soups, iters, stream):
    parts = reply.split(" | ")
    names = ["parent", "previous_sibling", "next_sibling", "previous_element", "next_element", "contents",
             "descendants", "next_elements", "previous_elements", "next_siblings", "previous_siblings", "parents"]
    for i, rd in enumerate(real_dumps):
        if rd is None:
            continue
        st, dump = rd
        m = parts[i] if i < len(parts) else "<missing>"
        if st != "ok":
            if m != st:
                ctx.corr_disagreements += 1
                ctx.violation(f"model and implementation disagree on the outcome of step {i}: impl {st}, model {m[:40]}",
                              case=case | {"step": i}, observed=st, model=m[:200], stream=stream, no_failing_input=True)
            return
        if not m.startswith("ok "):
            ctx.corr_disagreements += 1
            ctx.violation(f"model and implementation disagree on the outcome of step {i}: impl ok, model {m[:40]}",
                          case=case | {"step": i}, observed="ok", model=m[:200], stream=stream, no_failing_input=True)
            return
        md = heapsim.canon(heapsim.parse_model_dump(m[3:], iters), soups)
        rdc = heapsim.canon(dump, soups)
        for l, row in rdc.items():
            mrow = md.get(l)
            if mrow is None:
                ctx.corr_disagreements += 1
                ctx.violation(f"step {i}: element {l} unknown to the model", case=case | {"step": i}, stream=stream, no_failing_input=True)
                return
            if mrow != row:
                j = next(k for k in range(len(row)) if k >= len(mrow) or mrow[k] != row[k])
                ctx.corr_disagreements += 1
                # the oracle ran on every step already: if it was silent, this is a model/impl difference only
                ctx.violation(f"step {i}: {l}.{names[j]} differs: impl {row[j]}, model {mrow[j] if j < len(mrow) else '?'}",
                              case=case | {"step": i}, observed=row[j], model=mrow[j] if j < len(mrow) else None,
                              stream=stream, no_failing_input=True)
                return


def run(ctx: Ctx):
    ctx.rule = ("edit histories: start = html.parser parse of a random tree or fresh API objects (1-2 BeautifulSoup roots, 3-9 tags, "
                "2-6 strings, 0-2 comments); 15 call kinds (incl. clear(decompose=True) and the deprecated spellings replaceWith / replace_with_children / replaceWithChildren), 40% multi-argument, arguments: plain str / repeated / same-parent / "
                "elsewhere in the forest / roots and fresh / whole BeautifulSoup; after every step all pointers and iterators of "
                "all live elements vs the Lean model, and the direct oracle. non-trivial = a history in which an argument came "
                "from the same parent, from elsewhere in the forest, was a BeautifulSoup object or was repeated. "
                "copy-histories stream: the same histories with 13% of the steps a copy (copy.copy / copy.deepcopy / __copy__, subtrees of <= 12 "
                "nodes) of any live element incl. BeautifulSoup objects, nodes of extracted fragments and of earlier copies; same per-step comparison "
                "plus the direct copy oracle (detached, new objects only, no link out of the copy, isomorphic, everything else untouched); "
                "non-trivial there = a node of a copy was the target or an argument of a later step")
    ctx.assumptions = ["calls that would put an element beneath itself are never generated (outside the quantifier)",
                       "positions are any Python integers: negative ones count from the end as in list.insert (Model/Heap.lean normPos)"]
    parsed_documents(ctx)
    destroy_stream(ctx)
    history_stream(ctx, "histories", "hist", "H", ctx.n(300, 4000), ctx.n(25, 40), 3)
    copy_stream(ctx)


def history_stream(ctx: Ctx, stream: str, rng_name: str, key: str, n_hist: int, steps: int, n_samples: int, copies: float = 0.0):
    lines, reals, cases, soupss, = [], [], [], []
    drv = Driver()
    batch = 100
    for i in range(n_hist):
        rng = ctx.rng(rng_name, i)
        iters = True
        line, rd, case, soups, nt = run_history(ctx, rng, i, steps, iters, stream, copies=copies)
        case["seed_index"] = i
        ctx.case((key, i) if nt else None, sample=case if i < n_samples else None)
        lines.append(line); reals.append(rd); cases.append(case); soupss.append(soups)
        if len(lines) == batch or i == n_hist - 1:
            replies = drv.ask(lines)
            for rep, rd2, c, sp in zip(replies, reals, cases, soupss):
                compare(ctx, rep, rd2, c, sp, True, stream)
            lines, reals, cases, soupss = [], [], [], []
        if len([v for v in ctx.violations if not v.get("no_failing_input_found")]) >= 5:
            break
    if lines:
        for rep, rd2, c, sp in zip(drv.ask(lines), reals, cases, soupss):
            compare(ctx, rep, rd2, c, sp, True, stream)


def copy_stream(ctx: Ctx):
    """copy-histories: the same histories with about 13 % of the steps a copy (copy.copy / copy.deepcopy / __copy__) of a random live
    element - tag, string, comment, BeautifulSoup object, attached or a root, inside an extracted fragment, a node of an earlier copy;
    the clone's nodes are targets and arguments of later steps like every other element (moves between an original and its copy
    included). After every step: all pointers and iterators vs the model (Model/HeapCopy.lean for `cp`), the direct oracle, and right
    after a copy the copy clause (heapsim.copy_oracle)."""
    history_stream(ctx, "copy-histories", "copyhist", "CP", ctx.n(150, 2000), ctx.n(25, 40), 1, copies=0.13)


def destroy_stream(ctx: Ctx):
    """decompose() / clear(decompose=True) of subtrees that hold EMPTY strings (falsy, yet elements like any other) and equal twins, in
    every position: afterwards every element that was beneath is destroyed and linked to nothing, and nothing that survives names a
    parent that does not list it. Built from fresh objects by appends, so the case replays like any history."""
    for i in range(ctx.n(250, 5000)):
        r = ctx.rng("destroy", i)
        nt, ns = r.randint(2, 6), r.randint(2, 6)
        kinds = "r" + "t" * nt + "s" * ns + "c" * r.randint(0, 1)
        choices = ["-" if k == "r" else r.choice(["x", "y"]) if k == "t" else r.choice(["", "", "a.", "b."]) if k == "s" else "c." for k in kinds]
        w = heapsim.World(kinds, twin_choices=choices)
        ops = []
        tags = ["t0"]
        order = [f"t{j}" if kinds[j] == "t" else f"s{j}" for j in range(1, len(kinds))]
        r.shuffle(order)
        for l in order:
            ops.append(f"ap:{r.choice(tags)}:{l}")
            if l.startswith("t"):
                tags.append(l)
        ops.append(f"{r.choice(['de', 'cd', 'de'])}:{r.choice(tags[1:] if len(tags) > 1 else tags)}")
        if r.random() < 0.5 and len(tags) > 2:
            ops.append(f"de:{r.choice(tags[1:])}")
        case = {"kinds": kinds, "ops": ops, "parsed": False, "twin": choices}
        ctx.case(("destroy", i) if any(c == "" for c in choices) else None)
        for j, op in enumerate(ops):
            if op.split(":")[1] not in w.objs:          # already destroyed by the previous call
                case["ops"] = ops[:j]
                break
            st = w.apply(op)
            msg = heapsim.oracle_c01(w) if st == "ok" else f"{op} raised ({st})"
            if msg:
                ctx.violation("after this history the views no longer describe one tree: " + msg, case=dict(case, ops=ops[:j + 1]),
                              observed=msg, stream="destroy")
                break
        ctx.count("destroy:histories")


PARSE_TOKENS = ["<pre>", "</pre>", "<textarea>", "</textarea>", "<!---->", "<![CDATA[]]>", "<?>", "<!>", "<!-- -->", "<!--c-->", "x", " ", "\n",
                "<a>", "</a>", "<b id=1>", "</b>", "<p>", "</p>", "<br>", "<br/>", "<script>", "</script>", "<i class='k'>", "</i>", "y z",
                "&amp;", "<!DOCTYPE html>", "<rt>", "</rt>", "<a href=u>", "</z>"]


def strainers():
    """parse_only filters: elements the filter refuses are never to leave a trace in the links of the kept ones"""
    import re
    from bs4 import SoupStrainer
    return [("none", None), ("name=a", lambda: SoupStrainer("a")), ("name=b", lambda: SoupStrainer("b")), ("name=[p,pre]", lambda: SoupStrainer(["p", "pre"])),
            ("id=True", lambda: SoupStrainer(id=True)), ("class=k", lambda: SoupStrainer(class_="k")), ("href=re", lambda: SoupStrainer(href=re.compile("u"))),
            ("string=True", lambda: SoupStrainer(string=True)), ("string=x", lambda: SoupStrainer(string="x")), ("name=nosuch", lambda: SoupStrainer("nosuch")),
            ("a+id", lambda: SoupStrainer("b", id="1"))]


def parse_doc(text, strainer_name):
    import warnings
    from bs4 import BeautifulSoup
    mk = dict(strainers())[strainer_name]
    with warnings.catch_warnings():
        warnings.simplefilter("ignore")
        return BeautifulSoup(text, "html.parser", **({"parse_only": mk()} if mk else {}))


def parsed_documents(ctx: Ctx):
    """'after parsing any document': the direct oracle on the objects html.parser + the tree constructor produce, with and without a
    parse_only filter, on written documents, token soup, and soup rich in the nodes the parser can leave EMPTY (<!---->, <![CDATA[]]>,
    <?>, <!> inside <pre>/<textarea>)"""
    from . import c03, c04
    names = [n for n, _ in strainers()]
    for i in range(ctx.n(2500, 40000)):
        r = ctx.rng("parsed-doc", i)
        k = r.random()
        if k < 0.3:
            text = c04.write(r, c04.gen_tree(r), [], [0])
        elif k < 0.5:
            text = c04.gen_soup(r)
        else:
            text = "".join(r.choice(PARSE_TOKENS) for _ in range(r.randint(1, 16)))
        sn = r.choice(names) if r.random() < 0.6 else "none"
        case = {"text": text, "parse_only": sn}
        try:
            soup = parse_doc(text, sn)
        except Exception as e:
            from bs4.exceptions import ParserRejectedMarkup
            if isinstance(e, ParserRejectedMarkup):
                ctx.count("parsed-doc:rejected")
                continue
            ctx.violation(f"parsing raised {type(e).__name__}: {e}", case=case, stream="parsed-documents")
            continue
        w = c03.SoupWorld(soup)
        msg = heapsim.oracle_c01(w)
        nontrivial = len(w.objs) >= 4
        ctx.case(("P", text, sn) if nontrivial else None)
        ctx.count("parsed-doc:" + ("filtered" if sn != "none" else "unfiltered"))
        if any(str(o) == "" and not hasattr(o, "contents") for o in w.objs.values()):
            ctx.count("parsed-doc:with-empty-string-node")
        if msg:
            ctx.violation("the parsed document is not one consistent tree: " + msg, case=case, observed=msg, stream="parsed-documents")
        # the iterators walk exactly the tree: a link to an object outside the children lists would show up here
        inside = {id(o) for o in w.objs.values()}
        for o in list(w.objs.values()):
            for attr in ("next_element", "previous_element", "next_sibling", "previous_sibling", "parent"):
                x = getattr(o, attr)
                if x is not None and id(x) not in inside:
                    ctx.violation(f"{w.label(o)}.{attr} points at an object that is in nobody's children list ({type(x).__name__} {str(x)[:30]!r})",
                                  case=case, stream="parsed-documents")
                    break
            else:
                continue
            break


def replay(path):
    v = json.load(open(path))
    c = v["case"]
    if "text" in c and "parse_only" in c:
        from . import c03
        soup = parse_doc(c["text"], c["parse_only"])
        w = c03.SoupWorld(soup)
        msg = heapsim.oracle_c01(w)
        inside = {id(o) for o in w.objs.values()}
        if not msg:
            for o in w.objs.values():
                for attr in ("next_element", "previous_element", "next_sibling", "previous_sibling", "parent"):
                    x = getattr(o, attr)
                    if x is not None and id(x) not in inside:
                        msg = f"{w.label(o)}.{attr} points at an object that is in nobody's children list"
        print("document:", repr(c["text"]), "parse_only:", c["parse_only"]); print("C01 on the parsed objects:", msg or "holds")
        return 1 if msg else 0
    if "kinds" not in c:
        print(json.dumps(v, indent=1)[:3000])
        return 1
    import random
    from bs4 import BeautifulSoup
    # rebuild the start: API objects, then the recorded ops (a parsed start is rebuilt by its appends)
    w = heapsim.World(c["kinds"], twin_choices=c.get("twin"))
    for i, op in enumerate(c["ops"]):
        st = w.apply(op)
        msg = heapsim.oracle_c01(w) if st == "ok" else None
        if st == "ok" and op.startswith("cp:") and w.copy_oracle_msg:
            msg = "a copy is not a self-contained new tree beside an untouched forest: " + w.copy_oracle_msg
        print(i, op, st, msg or "")
        if msg:
            print("property C01 violated:", msg)
            return 1
        if st != "ok":
            break
    print("no violation of C01 on replay (if the case came from a parsed start, the appends rebuilt it through the API)")
    return 0
