"""C02 — each editing call has exactly its documented effect. The same edit histories as C01; observable = the
nesting of `.contents` by identity after every call, compared with (a) the independent list-of-lists spec of
the documented effect (harness/heapsim.Spec) and (b) the Lean heap model."""
import itertools, json
from harness.common import Hang, arm as common_arm, disarm as common_disarm
from collections import Counter

from .common import Ctx, Driver
from . import heapsim

MANIFEST = dict(
    text=("Lean: the editing calls are mirrored on the pointer heap (Model/Heap.lean) and their effect on the forest "
          "(children lists / parent) is proved against the list-of-lists specification: extract removes exactly the element from "
          "its parent's list and detaches it with its subtree intact, _insert places the element at the clamped slot (with the "
          "same-parent index correction), nothing else moves, no element is duplicated or lost; the further calls are derived from the two "
          "(append/extend/insert_before/insert_after/replace_with/wrap/unwrap/clear/.string=), smooth() is proved to turn every maximal run "
          "of adjacent plain strings among the children of every tag of the subtree into one new string, the concatenation, leaving every "
          "other child the same object in the same place (squash/squashId) and never to fail, decompose() / clear(decompose=True) to destroy "
          "exactly the subtree (see evidence 'theorems'). "
          "Tie: after every call of generated histories and of the exhaustive small-scope enumeration (thorough), the real "
          ".contents nesting is compared by identity with an independent Python list-of-lists model of the documented effect and "
          "with the Lean model; for smooth() the children of every tag of the subtree, by identity and text, are compared with the Lean "
          "specification function squashId on trees with runs of strings (empty strings, NavigableString subclasses, Comment/CData between them). "
          "Copies (copy-histories stream): copy.copy / copy.deepcopy / __copy__ of elements anywhere in the forest are calls of the histories "
          "(Model/HeapCopy.lean); documented effect = a new tree nested like the source beneath nothing, nothing else moves; checked against the "
          "spec, the Lean model and directly (new objects only, isomorphic, no pointer of any other element changed)."),
    design="7/C02",
    note=("Positions are any Python integers (negative ones read as list.insert does, Model/Heap.lean normPos). Calls that would put an "
          "element beneath itself are outside the quantifier. Repeated arguments inside one multi-argument call are carried by the "
          "differential check against the independent Python spec only."),
    technique="Lean 4 refinement proof (pointer procedures vs list-of-lists forest) + per-call differential correspondence with an independent spec",
)


def shape_of_world(w):
    from bs4.element import Tag
    return {l: (w.labels(o.contents) if isinstance(o, Tag) else "-") for l, o in w.objs.items()}


def classify(op, w_before_shape):
    return None


def cycle_attempt(op, before):
    """does the call name, as an argument, an ancestor of the element it is to be placed next to / into? (putting an element beneath
    itself is outside the property's quantifier: the library detects it late, if at all)"""
    f = op.split(":")
    if f[0] not in ("ib", "ia", "rw", "in", "ap", "el", "et", "wr"):
        return False
    parent = {}
    for l, kids in before.items():
        if kids and kids != "-":
            for k in heapsim.split_labels(kids):
                parent[k] = l
    target = f[1]
    anc = set()
    x = target if f[0] in ("in", "ap", "el", "et") else parent.get(target)
    while x is not None and x not in anc:
        anc.add(x)
        x = parent.get(x)
    args = f[-1].split(",") if f[-1] != "-" else []
    return any(a in anc for a in args)


def doomed_by(w, op):
    """the elements `decompose()` / `clear(decompose=True)` is documented to destroy: the subtree of the element / of each child"""
    if op[:3] not in ("de:", "cd:") or op.split(":")[1] not in w.objs:
        return None
    tgt = w.objs[op.split(":")[1]]
    return heapsim.subtree(tgt) if op[:3] == "de:" else [x for c in getattr(tgt, "contents", []) for x in heapsim.subtree(c)]


def destroyed_wrong(w, doomed, dead_ids):
    """after the call: exactly the doomed elements (and those destroyed earlier) report `.decomposed`; a destroyed Tag has no children"""
    from bs4.element import Tag
    dead_ids.update(id(x) for x in doomed)
    wrong = next((o for o in w.keep if bool(o.decomposed) != (id(o) in dead_ids)), None)
    if wrong is None:
        wrong = next((o for o in doomed if isinstance(o, Tag) and o.contents), None)
    if wrong is None:
        return None
    return ("was destroyed although it is not beneath the element" if wrong.decomposed and id(wrong) not in dead_ids else
            "is beneath the element but was not destroyed" if not wrong.decomposed else "was destroyed but still has children")


def run_history(ctx, rng, steps, stream, ops_fixed=None, kinds_fixed=None, parsed=None, copies=0.0):
    """copies > 0: that share of the steps copies an element (`cp`); non-trivial is then: a node of a copy was the target or an
    argument of a later call"""
    if kinds_fixed is None:
        parsed = rng.random() < 0.4
        w, kinds, prefix = heapsim.make_world(rng, parsed)
    else:
        w, kinds, prefix = heapsim.World(kinds_fixed), kinds_fixed, []
    spec = heapsim.Spec(kinds)
    for op in prefix:
        spec.apply(op)
    stats = Counter()
    dead_ids = set()
    ops = list(prefix)
    outcomes = [None] * len(prefix)
    shapes = [None] * len(prefix)
    if prefix:
        outcomes[-1] = "ok"
        shapes[-1] = shape_of_world(w)
    nontrivial = False
    copy_used = False
    it = iter(ops_fixed) if ops_fixed is not None else None
    try:
        for s in range(steps):
            common_arm(60)
            op = next(it, None) if it is not None else heapsim.gen_op(rng, w, stats, copies=copies)
            if op is None:
                break
            ops.append(op)
            before = shape_of_world(w)
            if copies and any(a in w.copy_labels for fld in op.split(":")[1:] for a in fld.split(",")):
                copy_used = True
                ctx.count("cp:later-call-uses-a-node-of-a-copy")
            # decompose() / clear(decompose=True): exactly the elements of the subtree (of the element / of each child) are destroyed - the
            # documented observable is `.decomposed` - and a destroyed Tag has no children (Props/C02 decompose_effect, clear_decompose_effect)
            doomed = doomed_by(w, op)
            st = w.apply(op)
            if doomed is not None and st == "ok":
                ctx.count("decompose:destroyed-elements", len(doomed))
                what = destroyed_wrong(w, doomed, dead_ids)
                if what:
                    ctx.violation(f"{op}: an element {what} (destroyed {len(doomed)} expected)",
                                  case={"kinds": kinds, "ops": ops, "parsed": bool(parsed), "before": before, "twin": getattr(w, "twin_choices", None)},
                                  expected=f"{len(doomed)} destroyed", observed=what, stream=stream)
                    break
            ctx.count("op:" + op.split(":")[0])
            ctx.count("outcome:" + st)
            if op.startswith("cp:") and st == "ok" and w.copy_oracle_msg:
                # the copy clause evaluated directly (heapsim.copy_oracle): a new tree nested like the source, nothing else moved
                ctx.violation(f"{op}: the copy is not a new tree beside an untouched forest: " + w.copy_oracle_msg,
                              case={"kinds": kinds, "ops": ops, "parsed": bool(parsed), "before": before, "twin": getattr(w, "twin_choices", None)},
                              observed=w.copy_oracle_msg, stream=stream)
                outcomes.append(None)
                shapes.append(None)
                break
            outcomes.append(st)
            if st != "ok":
                shapes.append(None)
                if st == "err:ValueError" and not cycle_attempt(op, before):
                    # a refused call ("can't insert an element before itself", "cannot replace an element that is not part of a tree", ...)
                    # changes the forest in no way: not even the arguments that stood before the offending one have moved
                    after = shape_of_world(w)
                    diff = next((l for l in set(before) | set(after) if before.get(l) != after.get(l)), None)
                    ctx.count("refused-calls-checked")
                    if diff is not None:
                        ctx.violation(f"{op}: the call raised ValueError but changed the forest: children of {diff} were {before.get(diff)}, are {after.get(diff)}",
                                      case={"kinds": kinds, "ops": ops, "parsed": bool(parsed), "before": before, "twin": getattr(w, "twin_choices", None)},
                                      expected=before.get(diff), observed=after.get(diff), stream=stream)
                break
            spec.apply(op)
            got = shape_of_world(w)
            shapes.append(got)
            want = spec.shape()
            # compare on the live elements (destroyed ones are gone on both sides)
            bad = None
            for l, k in got.items():
                if want.get(l) != k:
                    bad = (l, k, want.get(l))
                    break
            if bad is None:
                for l in want:
                    if l not in got and want[l] != "-":
                        bad = (l, None, want[l])
                        break
            if bad:
                ctx.violation(f"{op}: children of {bad[0]} are {bad[1]}, documented effect gives {bad[2]}",
                              case={"kinds": kinds, "ops": ops, "parsed": bool(parsed), "before": before, "twin": getattr(w, "twin_choices", None)},
                              expected=bad[2], observed=bad[1], stream=stream)
                break
    except Hang:
        ctx.violation(f"{ops[-1] if ops else '?'}: the call, or a walk over the forest it left, did not return within 60 s (a link chain that loops)",
                      case={"kinds": kinds, "ops": ops, "parsed": bool(parsed), "twin": getattr(w, "twin_choices", None)}, observed="no return", stream=stream)
    finally:
        common_disarm()
    for k, v in stats.items():
        ctx.count(k, v)
        if k in ("arg:same-parent", "arg:elsewhere", "arg:soup", "arg:repeat") and v:
            nontrivial = True
    if copies:
        nontrivial = copy_used
        for k, v in w.call_forms.items():
            if k.startswith("cp"):
                ctx.count("cp:form-" + ["copy.copy", "copy.deepcopy", "__copy__"][int(k[2:])], v)
    line = f"c01 run {kinds} {';'.join(ops) if ops else '-'} ptr"
    return line, outcomes, shapes, {"kinds": kinds, "ops": ops, "parsed": bool(parsed), "twin": getattr(w, "twin_choices", None)}, nontrivial


def compare_model(ctx, reply, outcomes, shapes, case, stream):
    parts = reply.split(" | ")
    for i, st in enumerate(outcomes):
        if st is None:
            continue
        m = parts[i] if i < len(parts) else "<missing>"
        if st != "ok":
            if m != st:
                ctx.corr_disagreements += 1
                ctx.violation(f"model and implementation disagree on the outcome of step {i}: impl {st}, model {m[:40]}",
                              case=case | {"step": i}, observed=st, model=m[:200], stream=stream, no_failing_input=True)
            return
        if not m.startswith("ok "):
            ctx.corr_disagreements += 1
            ctx.violation(f"model and implementation disagree on the outcome of step {i}: impl ok, model {m[:40]}",
                          case=case | {"step": i}, observed="ok", model=m[:200], stream=stream, no_failing_input=True)
            return
        md = heapsim.parse_model_dump(m[3:], False)
        for l, k in shapes[i].items():
            mk = md.get(l, [None] * 6)[5]
            if mk != k:
                ctx.corr_disagreements += 1
                ctx.violation(f"step {i}: contents of {l}: impl {k}, model {mk}", case=case | {"step": i}, observed=k, model=mk,
                              stream=stream, no_failing_input=True)
                return


# --------------------------------------------------------------------------------------------
# smooth(): the real children after the call vs the documented effect (`squash` / `squashId` of Model/HeapSmooth.lean)
# --------------------------------------------------------------------------------------------
_SMOOTH_TEXTS = ["", "", "a", "b", "ab", " ", "\n", "x y", "\u00e9", "\U0001f600", "<", "&amp;", "0"]


class _UserString(__import__("bs4").element.NavigableString):
    """a user-defined NavigableString subclass that is not Preformatted: merged like any plain string"""


def _smooth_case(rng):
    """A random forest of real objects with runs of strings. Returns (nodes, kinds, vals, edges, target id, other, stats, classes);
    nodes[i] = the object with model id i (creation order); edges in the order of the `append` calls."""
    from bs4 import BeautifulSoup
    from bs4.element import (NavigableString, Comment, CData, ProcessingInstruction, Declaration, Doctype, TemplateString, Script,
                             Stylesheet, RubyTextString, RubyParenthesisString)
    base = BeautifulSoup("", "html.parser")
    nodes, kinds, vals, edges, classes = [], [], [], [], []
    stats = Counter()

    def add(kind, obj, text=None, cls=None):
        nodes.append(obj)
        kinds.append(kind)
        classes.append(cls or type(obj).__name__)
        vals.append("-" if not text else ".".join(str(ord(c)) for c in text))
        return len(nodes) - 1

    plain_sub = [TemplateString, Script, Stylesheet, RubyTextString, RubyParenthesisString, _UserString]
    pre_cls = [Comment, CData, ProcessingInstruction, Declaration, Doctype]

    def new_leaf():
        r = rng.random()
        text = rng.choice(_SMOOTH_TEXTS) if rng.random() < 0.8 else "".join(rng.choice("abc \u00e9") for _ in range(rng.randint(0, 5)))
        if r < 0.62:
            if rng.random() < 0.15:
                stats["leaf:from-str-subclass"] += 1
                return add("s", NavigableString(heapsim._StrSub(text)), text, "NavigableString/_StrSub")
            return add("s", NavigableString(text), text)
        if r < 0.78:
            stats["leaf:plain-subclass"] += 1
            return add("s", rng.choice(plain_sub)(text), text)
        stats["leaf:preformatted"] += 1
        return add("c", rng.choice(pre_cls)(text), text)

    if rng.random() < 0.2:
        root = add("r", BeautifulSoup("", "html.parser"))
        stats["root:soup"] += 1
    else:
        root = add("t", base.new_tag("t0"))
    tags = [root]
    budget = rng.randint(1, 5)
    todo = [root]
    while todo:
        t = todo.pop(0)
        nkids = rng.choice([0, 1, 2, 3, 4, 5, 6, 8])
        for _ in range(nkids):
            if budget > 0 and rng.random() < 0.18:
                budget -= 1
                c = add("t", base.new_tag(f"t{len(nodes)}"))
                tags.append(c)
                todo.append(c)
            else:
                c = new_leaf()
            nodes[t].append(nodes[c])
            edges.append(f"{t}>{c}")
    # a second, untouched tree: the frame ("nothing else moves") is observed on it
    other = add("t", base.new_tag("other"))
    for _ in range(rng.randint(0, 3)):
        c = add("s", NavigableString("z"), "z")
        nodes[other].append(nodes[c])
        edges.append(f"{other}>{c}")
    target = root if rng.random() < 0.6 else rng.choice(tags)
    return nodes, kinds, vals, edges, target, other, stats, classes


def _is_plain(o):
    from bs4.element import NavigableString, PreformattedString
    return isinstance(o, NavigableString) and not isinstance(o, PreformattedString)


def _cps(o):
    return ".".join(str(ord(c)) for c in str(o))


def _smooth_observe(nodes, target, count=lambda k: None):
    """Call `nodes[target].smooth()` and evaluate the documented effect directly on the real objects.
    Returns (outcome, want, got, bad, nontrivial): want / got map the id of every tag of the subtree to its children after the call
    as items `o<id>` (not a plain string), `s<id>:<text>` (a plain string that existed before: same object), `n:<text>` (new)."""
    from bs4.element import NavigableString, Tag
    ident = {id(o): k for k, o in enumerate(nodes)}
    sub = [nodes[target]] + [d for d in nodes[target].descendants if isinstance(d, Tag)]
    before = {ident[id(q)]: list(q.contents) for q in sub}
    outside = {k: list(o.contents) for k, o in enumerate(nodes) if isinstance(o, Tag) and k not in before}
    # direct oracle: every maximal run of >= 2 adjacent plain strings becomes one NEW plain string, the concatenation; every other
    # child stays the same object, in order
    want, merged_away, nontrivial = {}, [], False
    for q, kids in before.items():
        out, run = [], []

        def flush():
            nonlocal nontrivial
            if len(run) >= 2:
                out.append("n:" + ".".join(_cps(r) for r in run if str(r)))
                merged_away.extend(run)
                nontrivial = True
                count("smooth:runs")
                if len(run) >= 3:
                    count("smooth:run>=3")
                if any(str(r) == "" for r in run):
                    count("smooth:run-with-empty-string")
                if any(type(r) is not NavigableString for r in run):
                    count("smooth:run-with-subclass")
            else:
                out.extend(f"s{ident[id(r)]}:{_cps(r)}" for r in run)
            run.clear()
        for c in kids:
            if _is_plain(c):
                run.append(c)
            else:
                if run and not isinstance(c, Tag):
                    count("smooth:preformatted-next-to-string")
                flush()
                out.append(f"o{ident[id(c)]}")
        flush()
        want[q] = ",".join(out) if out else "-"
    if len(before) > 1:
        count("smooth:nested-tags")
    try:
        nodes[target].smooth()
        outcome = "ok"
    except Exception as e:          # noqa: BLE001 - any exception is an outcome the model must share
        outcome = "err:" + type(e).__name__
    got = {}
    if outcome == "ok":
        for q in before:
            items = []
            for c in nodes[q].contents:
                k = ident.get(id(c))
                if k is None:
                    cls = "" if type(c) is NavigableString else "!" + type(c).__name__
                    items.append(f"n{cls}:{_cps(c)}")
                elif _is_plain(c):
                    items.append(f"s{k}:{_cps(c)}")
                else:
                    items.append(f"o{k}")
            got[q] = ",".join(items) if items else "-"
    bad = None
    if outcome != "ok":
        bad = f"smooth() raised {outcome[4:]}"
    else:
        for q in before:
            if got[q] != want[q]:
                bad = f"children of node {q} after smooth() are {got[q]}; the documented effect gives {want[q]}"
                break
        if bad is None:
            for k, kids in outside.items():
                if not heapsim.same(nodes[k].contents, kids):
                    bad = f"smooth() on node {target} changed the children of node {k}, which is not beneath it"
                    break
        if bad is None:
            for r in merged_away:
                if r.parent is not None:
                    bad = f"the merged string {ident[id(r)]} still names a parent"
                    break
        if bad is None:
            snap = {q: list(nodes[q].contents) for q in before}
            nodes[target].smooth()
            for q in before:
                if not heapsim.same(nodes[q].contents, snap[q]):
                    bad = f"a second smooth() changed the children of node {q} again"
                    break
    return outcome, want, got, bad, nontrivial


def _smooth_rebuild(case):
    """the real objects of a recorded smooth case (replay)"""
    import bs4.element as E
    from bs4 import BeautifulSoup
    base = BeautifulSoup("", "html.parser")
    nodes = []
    vals = case["vals"].split(";")
    for i, (k, cls) in enumerate(zip(case["kinds"], case["classes"])):
        text = "" if vals[i] == "-" else "".join(chr(int(v)) for v in vals[i].split("."))
        if k == "r":
            nodes.append(BeautifulSoup("", "html.parser"))
        elif k == "t":
            nodes.append(base.new_tag(f"t{i}"))
        elif cls == "_UserString":
            nodes.append(_UserString(text))
        elif cls == "NavigableString/_StrSub":
            nodes.append(E.NavigableString(heapsim._StrSub(text)))
        else:
            nodes.append(getattr(E, cls)(text))
    for e in (case["edges"].split(";") if case["edges"] else []):
        p, c = e.split(">")
        nodes[int(p)].append(nodes[int(c)])
    return nodes


def smooth_stream(ctx, drv):
    n = ctx.n(400, 6000)
    lines, cases = [], []
    for i in range(n):
        rng = ctx.rng("smooth", i)
        nodes, kinds, vals, edges, target, other, stats, classes = _smooth_case(rng)
        line = f"c01 smooth {''.join(kinds)} {';'.join(vals)} {';'.join(edges) if edges else '-'} {target}"
        for k, v in stats.items():
            ctx.count("smooth:" + k, v)
        case = {"kinds": "".join(kinds), "vals": ";".join(vals), "edges": ";".join(edges), "target": target, "classes": classes,
                "line": line}
        outcome, want, got, bad, nontrivial = _smooth_observe(nodes, target, ctx.count)
        ctx.case(("SM", i) if nontrivial else None, sample=case if i < 2 else None)
        if bad:
            ctx.violation("smooth: " + bad, case=case, expected=want, observed=got if outcome == "ok" else outcome, stream="smooth-squash")
        lines.append(line)
        cases.append((case, outcome, " ".join(f"{q}={v}" for q, v in got.items()), bool(bad)))
        if len([v for v in ctx.violations if not v.get("no_failing_input_found")]) >= 8:
            break
    replies = drv.ask(lines)
    for rep, (case, outcome, got, bad) in zip(replies, cases):
        if bad:
            continue
        if outcome != "ok":
            ok = rep == outcome
            spec = impl = again = rep
        else:
            parts = rep[3:].split(" # ") if rep.startswith("ok ") else []
            spec, impl, again = (parts + ["<missing>"] * 3)[:3]
            ok = spec == got and impl == got and again == "1"
        if not ok:
            ctx.corr_disagreements += 1
            ctx.violation(f"smooth: model and implementation disagree: impl {got or outcome}, model spec (squashId) {spec}, model code mirror {impl}, second call no-op {again}",
                          case=case, observed=got or outcome, model=rep[:400], stream="smooth-squash", no_failing_input=True)
    ctx.count("smooth:requests", len(lines))


def small_scope(ctx):
    """Every single call of every form on every tree of <= 4 attached nodes (+2 fresh), all argument patterns of
    length <= 2 (thorough: <= 3 for insert/replace_with/insert_after)."""
    # trees under a root tag t0 with nodes t1,t2,s3,s4 attached in a few shapes, fresh t5, s6, soup t7 with child t8
    kinds = "ttttssts" + "r" + "t"          # 0..3 tags, 4..5 strings, 6 tag(fresh), 7 str(fresh), 8 soup, 9 tag (child of soup)
    shapes = [
        ["ap:t0:t1", "ap:t0:t2", "ap:t0:t3", "ap:t0:s4", "ap:t8:t9"],
        ["ap:t0:t1", "ap:t1:t2", "ap:t0:s4", "ap:t0:t3", "ap:t8:t9", "ap:t8:s5"],
        ["ap:t0:s4", "ap:t0:t1", "ap:t0:s5", "ap:t1:t2", "ap:t2:t3", "ap:t8:t9"],
    ]
    nodes = ["t1", "t2", "t3", "s4", "s5", "t6", "s7", "t8", "t9", "p2000"]
    targets_parent = ["t0", "t1"]
    count = 0
    cases = []
    maxargs = 3 if ctx.thorough else 2
    for shp in shapes:
        for k in ("in", "rw", "ia", "ib", "el"):
            for n in range(1, maxargs + 1):
                for args in itertools.product(nodes, repeat=n):
                    if len([a for a in args if a.startswith("p")]) > 1:
                        continue
                    if k in ("in", "el"):
                        for p in targets_parent:
                            if p in args:
                                continue
                            for pos in ((0, 1, 2, 3, -1, -2, -4, -5) if k == "in" else (0,)):
                                cases.append((shp, f"in:{p}:{pos}:{','.join(args)}" if k == "in" else f"el:{p}:{','.join(args)}"))
                    else:
                        for x in ("t1", "t2", "s4"):
                            cases.append((shp, f"{k}:{x}:{','.join(args)}"))
    return kinds, cases


def run(ctx: Ctx):
    ctx.rule = ("edit histories as in C01 (parsed and API starts, 15 call kinds (incl. clear(decompose=True) and the deprecated spellings replaceWith / replace_with_children / replaceWithChildren), multi-argument 40%, arguments from anywhere in the "
                "forest) + exhaustive single calls over small trees (all argument tuples of length <= 2, thorough <= 3); after every "
                "call the .contents nesting by identity vs the independent list-of-lists spec and vs the Lean model. non-trivial = "
                "an argument came from the same parent / elsewhere in the forest / was a BeautifulSoup object / was repeated. "
                "smooth-squash stream: random trees with runs of strings (empty strings, NavigableString subclasses, Comment/CData/... between "
                "them, nested tags, BeautifulSoup roots); the children of every tag of the subtree after smooth(), by identity and text, vs the "
                "direct oracle (runs of >= 2 plain strings become one new string) and vs the Lean model's squashId (spec) and smooth (code mirror); "
                "non-trivial = at least one run was merged. After every decompose() / clear(decompose=True) of the histories: exactly the elements of "
                "the subtree report .decomposed, and a destroyed Tag has no children. "
                "copy-histories stream: the same histories with 13% of the calls a copy (copy.copy / copy.deepcopy / __copy__, subtrees of <= 12 nodes) of "
                "any live element incl. BeautifulSoup objects, nodes of extracted fragments and of earlier copies; documented effect = a new tree "
                "nested like the source, beneath nothing, nothing else moves (spec + Lean model + direct oracle: new objects only, isomorphic, "
                "no pointer of any other element changed); non-trivial there = a node of a copy was the target or an argument of a later call")
    ctx.assumptions = ["calls that would put an element beneath itself are never generated (outside the quantifier)",
                       "positions are any Python integers: negative ones count from the end as in list.insert (Model/Heap.lean normPos)"]
    drv = Driver()
    n_hist = ctx.n(400, 6000)
    steps = ctx.n(25, 40)
    buf = []

    def flush():
        if not buf:
            return
        replies = drv.ask([b[0] for b in buf])
        for rep, b in zip(replies, buf):
            compare_model(ctx, rep, b[1], b[2], b[3], b[4])
        buf.clear()

    for i in range(n_hist):
        rng = ctx.rng("hist", i)
        line, outcomes, shapes, case, nt = run_history(ctx, rng, steps, "histories")
        case["seed_index"] = i
        ctx.case(("H", i) if nt else None, sample=case if i < 2 else None)
        buf.append((line, outcomes, shapes, case, "histories"))
        if len(buf) >= 200:
            flush()
        if len([v for v in ctx.violations if not v.get("no_failing_input_found")]) >= 8:
            break
    flush()
    # smooth(): real children vs the documented effect (Lean `squashId`) on trees with runs of strings
    smooth_stream(ctx, drv)
    # exhaustive small scope
    kinds, cases = small_scope(ctx)
    if not ctx.thorough:
        r = ctx.rng("small")
        cases = r.sample(cases, min(len(cases), 4000))
    else:
        ctx.exhaustive_parts.append(f"single calls: {len(cases)} (tree shape x call form x argument tuple)")
    for shp, op in cases:
        # skip calls outside the quantifier: an argument that is an ancestor-or-self of the target parent
        line, outcomes, shapes, case, nt = run_history(ctx, None, 1 + len(shp), "small-scope", ops_fixed=list(shp) + [op], kinds_fixed=kinds)
        ctx.case(("S", tuple(shp), op))
        buf.append((line, outcomes, shapes, case, "small-scope"))
        if len(buf) >= 500:
            flush()
        if len([v for v in ctx.violations if not v.get("no_failing_input_found")]) >= 8:
            break
    flush()
    copy_stream(ctx, buf, flush)


def copy_stream(ctx, buf, flush):
    """copy-histories: the same histories with about 13 % of the calls a copy (copy.copy / copy.deepcopy / __copy__) of a random live
    element; the clone's nodes are targets and arguments of later calls like every other element. After every call the .contents nesting
    vs the spec (a copy = new elements nested like the source, beneath nothing; nothing else changes) and vs the Lean model
    (Model/HeapCopy.lean), and right after a copy the direct oracle heapsim.copy_oracle."""
    steps = ctx.n(25, 40)
    for i in range(ctx.n(150, 2000)):
        rng = ctx.rng("copyhist", i)
        line, outcomes, shapes, case, nt = run_history(ctx, rng, steps, "copy-histories", copies=0.13)
        case["seed_index"] = i
        ctx.case(("CP", i) if nt else None, sample=case if i < 1 else None)
        buf.append((line, outcomes, shapes, case, "copy-histories"))
        if len(buf) >= 200:
            flush()
        if len([v for v in ctx.violations if not v.get("no_failing_input_found")]) >= 8:
            break
    flush()


def replay(path):
    v = json.load(open(path))
    c = v["case"]
    if "edges" in c and "classes" in c:
        nodes = _smooth_rebuild(c)
        outcome, want, got, bad, _ = _smooth_observe(nodes, c["target"])
        print("smooth() on node", c["target"], "->", outcome)
        print(" documented effect:", want)
        print(" observed         :", got)
        if bad:
            print(f"property C02 violated: {bad}")
            return 1
        print("no violation of C02 on replay")
        return 0
    if "kinds" not in c:
        print(json.dumps(v, indent=1)[:3000])
        return 1
    w = heapsim.World(c["kinds"], twin_choices=c.get("twin"))
    spec = heapsim.Spec(c["kinds"])
    dead_ids = set()
    for i, op in enumerate(c["ops"]):
        doomed = doomed_by(w, op)
        st = w.apply(op)
        if st != "ok":
            print(i, op, st)
            break
        if doomed is not None:
            what = destroyed_wrong(w, doomed, dead_ids)
            if what:
                print(i, op, st)
                print(f"property C02 violated: after {op} an element {what}")
                return 1
        if op.startswith("cp:") and w.copy_oracle_msg:
            print(i, op, st)
            print(f"property C02 violated: after {op} the copy is not a new tree beside an untouched forest: {w.copy_oracle_msg}")
            return 1
        spec.apply(op)
        got, want = shape_of_world(w), spec.shape()
        bad = [(l, k, want.get(l)) for l, k in got.items() if want.get(l) != k]
        print(i, op, st, bad[:1] or "")
        if bad:
            print(f"property C02 violated: after {op} the children of {bad[0][0]} are {bad[0][1]}; the documented effect gives {bad[0][2]}")
            return 1
    print("no violation of C02 on replay")
    return 0
