"""C03 — tree-builder event interface. A harness TreeBuilder (no repo change) replays chosen event lists into a
real BeautifulSoup object; the resulting tree is compared with the Lean code-mirror (`build`), the Lean documented
fold (`buildSpec`), an independent Python evaluator of the documented rules, and C01's pointer oracle."""
import itertools, json, warnings

from .common import Ctx, Driver, cps

MANIFEST = dict(
    text=("Lean: the construction state machine of BeautifulSoup (reset/pushTag/popTag/_popToTag with its open_tag_counter guard, "
          "endData with the whitespace rule and string_container, handle_starttag/endtag/data, _feed's closing loop) is mirrored in "
          "Model/Builder.lean next to the documented fold (open elements + pending text only). Theorems for ALL event sequences and "
          "configurations: counter invariant, context-stack invariants, _popToTag = 'close up to and including the most recent open "
          "element of that name (and prefix)', refinement build = buildSpec, text rule (class and whitespace collapse), everything "
          "closed at end of input, data chunking irrelevant, net effect of a balanced block (see evidence 'theorems'). Tie: exhaustive "
          "event lists up to length 4 (thorough 5) over a 17-symbol alphabet + random lists to length 40 under HTML-, XML-flavoured "
          "and customised configurations, replayed into the real BeautifulSoup through a harness builder."),
    design="7/C03",
    note=("element_classes substitution and parse_only are not part of this machine (parse_only is C16). The structural '==' popTag uses on "
          "the context stacks is modelled as identity (a tag is never structurally equal to a proper ancestor); pointer linkage of the result "
          "is checked by C01's oracle on every case and modelled in Model/ParseLink.lean."),
    technique="Lean 4 refinement proof (stack machine with counter = documented fold) + exhaustive small-scope correspondence through a harness builder",
)

CLS = ["NavigableString", "Comment", "CData", "ProcessingInstruction", "Declaration", "Doctype", "Script", "Stylesheet",
       "TemplateString", "RubyTextString", "RubyParenthesisString", "XMLProcessingInstruction"]


def cls_id(o):
    return CLS.index(type(o).__name__)


def cls_obj(i):
    import bs4.element as E
    return getattr(E, CLS[i])


CONFIGS = {
    "html": dict(pre=["pre", "textarea"], cont={"script": 6, "style": 7, "template": 8, "rt": 9, "rp": 10}),
    "xml": dict(pre=[], cont={}),
    "custom": dict(pre=["a"], cont={"b": 1, "pre": 6}),
    # one name in BOTH sets (the stock HTML sets are disjoint): both context stacks must be popped when it closes
    "both": dict(pre=["pre", "script"], cont={"pre": 6, "script": 6, "a": 9}),
}

# the event alphabet: symbol -> list of protocol events
ALPHABET = {
    "<a>": ["s:a:-"], "<b>": ["s:b:-"], "<pre>": ["s:pre:-"], "<script>": ["s:script:-"], "<rt>": ["s:rt:-"],
    "<p:a>": ["s:a:p"],
    "</a>": ["e:a:-"], "</b>": ["e:b:-"], "</pre>": ["e:pre:-"], "</script>": ["e:script:-"], "</p:a>": ["e:a:p"],
    "</z>": ["e:z:-"],
    "x": ["d:120"], "sp": ["d:32"], "nl": ["d:9,10,32"], "empty": ["d:-"],
    "comment": ["x:-", "d:99", "x:1"],
}
EXTRA = {"</rt>": ["e:rt:-"], "<q:a>": ["s:a:q"], "</q:a>": ["e:a:q"], "</doc>": ["e:[document]:-"], "enddata": ["x:-"],
         "wscomment": ["x:-", "d:32,32", "x:1"], "cdata": ["x:-", "d:100", "x:2"], "y": ["d:121,32"], "ff": ["d:12"], "nbsp": ["d:160"],
         # nodes the parser can leave EMPTY (<!---->, <![CDATA[]]> inside <pre>): falsy objects in the links
         "emptycomment": ["x:-", "d:-", "x:1"], "emptycdata": ["x:-", "d:-", "x:2"], "emptyflush": ["d:-", "x:-"],
         # characters that are whitespace to str.isspace() / string.whitespace but NOT in BeautifulSoup.ASCII_SPACES: never collapsed
         "vt": ["d:11"], "vtsp": ["d:11,32"], "fs": ["d:28,10"], "nel": ["d:133"], "lsep": ["d:8232,32"], "emsp": ["d:8195"],
         # multi-character prefixes (one-character strings are interned by CPython, longer computed ones are not), same local name nested
         "<ns:a>": ["s:a:ns"], "</ns:a>": ["e:a:ns"], "<ns2:a>": ["s:a:ns2"], "</ns2:a>": ["e:a:ns2"],
         # end of data naming the ORDINARY string class explicitly (new_string(s, NavigableString) during a parse): inside a container
         # the text still takes the container's class
         "data+plain": ["x:-", "d:122", "x:0"], "ws+plain": ["x:-", "d:32,32", "x:0"],
         # names are compared exactly as the builder sends them (a builder that does not case-fold may send `Pre`, `SCRIPT`):
         # they are NOT the configured `pre` / `script`
         "<Pre>": ["s:Pre:-"], "</Pre>": ["e:Pre:-"], "<SCRIPT>": ["s:SCRIPT:-"], "</SCRIPT>": ["e:SCRIPT:-"], "<A>": ["s:A:-"], "</A>": ["e:A:-"]}


def make_builder(cfg, events, attempts=()):
    """`attempts`: event lists of earlier parsing strategies, each sent and then rejected with ParserRejectedMarkup (what the
    lxml builders do per candidate encoding); `events` is the strategy that succeeds"""
    from bs4.builder import TreeBuilder
    from bs4.exceptions import ParserRejectedMarkup
    void = cfg.get("void", "*")

    class ReplayBuilder(TreeBuilder):
        NAME = "verif-replay"
        features = ["verif-replay"]
        is_xml = False
        picklable = False
        DEFAULT_PRESERVE_WHITESPACE_TAGS = set(cfg["pre"])
        DEFAULT_STRING_CONTAINERS = {k: cls_obj(v) for k, v in cfg["cont"].items()}
        DEFAULT_CDATA_LIST_ATTRIBUTES = {}
        DEFAULT_EMPTY_ELEMENT_TAGS = None if void == "*" else set(void)

        def prepare_markup(self, markup, user_specified_encoding=None, document_declared_encoding=None, exclude_encodings=None):
            if markup == "REPLAY":
                for i in range(len(self.verif_attempts)):
                    yield f"REPLAY:{i}", None, None, False
            yield markup, None, None, False

        def feed(self, markup):
            if not markup.startswith("REPLAY"):          # copy_self() re-feeds "" through the same builder
                return
            soup = self.soup
            rejected = markup != "REPLAY"
            for ev in (self.verif_attempts[int(markup[7:])] if rejected else self.verif_events):
                f = ev.split(":")
                # prefixes (and names) are handed over as strings computed per event, as a SAX-style builder does (`qname.split(":")`):
                # equal to the open element's, never the same object
                if f[0] == "s":
                    soup.handle_starttag("".join(list(f[1])), None, None if f[2] == "-" else "".join(list(f[2])), {})
                elif f[0] == "e":
                    soup.handle_endtag("".join(list(f[1])), None if f[2] == "-" else "".join(list(f[2])))
                elif f[0] == "d":
                    soup.handle_data("" if f[1] == "-" else "".join(chr(int(c)) for c in f[1].split(",")))
                elif f[0] == "x":
                    soup.endData(None if f[1] == "-" else cls_obj(int(f[1])))
            if rejected:
                raise ParserRejectedMarkup("verif: strategy rejected after sending events")

    b = ReplayBuilder()
    b.verif_events, b.verif_attempts = events, attempts       # per document: one builder object may build several (see reuse_stream)
    return b


def reuse_stream(ctx):
    """One builder OBJECT building document after document while its configuration is changed in between (reassigned, or edited in
    place): `empty_element_tags` and `preserve_whitespace_tags` are read when an element is created / text is gathered, so every
    document follows the configuration in force while IT is built - nothing remembered from an earlier document, or from an earlier
    question about the same tag name."""
    from bs4 import BeautifulSoup
    names = [s for s in ALPHABET]
    for i in range(ctx.n(400, 8000)):
        r = ctx.rng("reuse", i)
        cfgname = r.choice(list(CONFIGS))
        void = r.choice(VOIDS)
        cfg = dict(CONFIGS[cfgname], void=void)
        b = make_builder(cfg, [], ())
        hist = []
        for d in range(r.randint(2, 4)):
            events = [e for _ in range(r.randint(1, 14)) for e in ALPHABET[r.choice(names)]]
            if d > 0:
                how = r.choice(["void-reassign", "void-in-place", "pre-reassign", "pre-in-place", "none"])
                used = sorted({e.split(":")[1] for h in hist for e in h["events"] if e.startswith("s:")}) or ["a"]
                nm = r.choice(used)
                if how == "void-reassign":
                    void = r.choice(VOIDS + [[nm], [n for n in used if n != nm]])
                    b.empty_element_tags = None if void == "*" else set(void)
                elif how == "void-in-place" and void != "*":
                    void = sorted(set(void) ^ {nm})
                    (b.empty_element_tags.add if nm in void else b.empty_element_tags.discard)(nm)
                elif how == "pre-reassign":
                    cfg = dict(cfg, pre=sorted(set(cfg["pre"]) ^ {nm}))
                    b.preserve_whitespace_tags = set(cfg["pre"])
                elif how == "pre-in-place":
                    cfg = dict(cfg, pre=sorted(set(cfg["pre"]) ^ {nm}))
                    (b.preserve_whitespace_tags.add if nm in cfg["pre"] else b.preserve_whitespace_tags.discard)(nm)
                else:
                    how = "none"
                ctx.count("builder-reuse:" + how)
            cfg = dict(cfg, void=void)
            b.verif_events = events
            hist.append({"events": events, "void": void, "pre": list(cfg["pre"]), "how": how if d > 0 else "start"})
            case = {"op": "reuse", "cfg": cfgname, "history": [dict(h) for h in hist]}
            try:
                with warnings.catch_warnings():
                    warnings.simplefilter("ignore")
                    soup = BeautifulSoup("REPLAY", builder=b)
            except Exception as e:
                ctx.violation(f"document {d} on a reused builder object raised {type(e).__name__}: {e}", case=case, stream="builder-reuse")
                break
            got, want = shape(soup), oracle(cfg, events)
            msg = void_check(soup, void)
            ctx.case(("reuse", cfgname, i, d) if d > 0 else None)
            if got != want or msg:
                ctx.violation(f"document {d} built by a reused builder object does not follow the configuration in force while it is built"
                              + (": " + msg if msg else ": tree differs from the documented construction rules"),
                              case=case, expected=want, observed=got if got != want else msg, stream="builder-reuse")
                break


def replay_reuse(c):
    from bs4 import BeautifulSoup
    cfg0 = CONFIGS[c["cfg"]]
    h0 = c["history"][0]
    b = make_builder(dict(cfg0, void=h0["void"], pre=h0["pre"]), [], ())
    bad = 0
    for d, h in enumerate(c["history"]):
        cfg = dict(cfg0, void=h["void"], pre=h["pre"])
        if h.get("how") == "void-in-place" and b.empty_element_tags is not None:
            b.empty_element_tags.clear(); b.empty_element_tags.update(h["void"])           # the same set object, edited
        elif h.get("how") == "pre-in-place":
            b.preserve_whitespace_tags.clear(); b.preserve_whitespace_tags.update(h["pre"])
        else:
            b.empty_element_tags = None if h["void"] == "*" else set(h["void"])
            b.preserve_whitespace_tags = set(h["pre"])
        b.verif_events = h["events"]
        with warnings.catch_warnings():
            warnings.simplefilter("ignore")
            soup = BeautifulSoup("REPLAY", builder=b)
        got, want, msg = shape(soup), oracle(cfg, h["events"]), void_check(soup, h["void"])
        print(f"document {d}: empty-element rule {h['void']!r}, whitespace-preserving {h['pre']!r}\n  implementation: {got}\n  documented:     {want}\n  empty-element rule: {msg or 'ok'}")
        bad += got != want or bool(msg)
    return 1 if bad else 0


def shape(el):
    from bs4.element import Tag
    out = []
    for c in el.contents:
        if isinstance(c, Tag):
            out.append(f"<{c.name}|{c.prefix or '-'}>[{shape(c)}]")
        else:
            out.append(f"\"{cls_id(c)}:{cps(str(c)) or '-'}\"")
    return "".join(out)


def real_build(cfg, events, attempts=(), kwargs=None):
    from bs4 import BeautifulSoup
    with warnings.catch_warnings():
        warnings.simplefilter("ignore")
        soup = BeautifulSoup("REPLAY", builder=make_builder(cfg, events, attempts), **(kwargs or {}))
    return soup


def void_check(soup, void):
    """empty-element rule: `None` = any element may be void, a set (the empty one included) = exactly its members; a void element
    without children is written <x/>, every other element <x></x>"""
    from bs4.element import Tag
    for t in soup.find_all(True):
        want = True if void == "*" else (t.name in void)
        if bool(t.can_be_empty_element) != want:
            return f"<{t.name}>.can_be_empty_element is {t.can_be_empty_element}, the empty-element rule {void!r} says {want}"
        if not t.contents:
            nm = (t.prefix + ":" if t.prefix else "") + t.name
            w = f"<{nm}/>" if want else f"<{nm}></{nm}>"
            if t.decode() != w:
                return f"childless <{t.name}> is written {t.decode()!r}, expected {w!r} under the empty-element rule {void!r}"
    return None


ASCII_SPACES = "\x20\x0a\x09\x0c\x0d"


def oracle(cfg, events):
    """The documented construction rules, evaluated independently (open elements + pending text)."""
    root = {"name": "[document]", "pfx": None, "kids": []}
    stack = [root]
    buf = []

    def flush(cls=None):
        if not buf:
            return
        s = "".join(buf)
        buf.clear()
        if not any(f["name"] in cfg["pre"] for f in stack) and all(c in ASCII_SPACES for c in s):
            s = "\n" if "\n" in s else " "
        c = cls or 0
        if c == 0:
            for f in reversed(stack):
                if f["name"] in cfg["cont"]:
                    c = cfg["cont"][f["name"]]
                    break
        stack[-1]["kids"].append((c, s))

    for ev in events:
        f = ev.split(":")
        if f[0] == "d":
            buf.append("" if f[1] == "-" else "".join(chr(int(c)) for c in f[1].split(",")))
        elif f[0] == "x":
            flush(None if f[1] == "-" else int(f[1]))
        elif f[0] == "s":
            flush()
            el = {"name": f[1], "pfx": None if f[2] == "-" else f[2], "kids": []}
            stack[-1]["kids"].append(el)
            stack.append(el)
        elif f[0] == "e":
            flush()
            name, pfx = f[1], (None if f[2] == "-" else f[2])
            if name == "[document]":
                continue
            opened = stack[1:]
            idx = None
            for i in range(len(opened) - 1, -1, -1):     # most recent open element with that name and prefix
                if opened[i]["name"] == name and opened[i]["pfx"] == pfx:
                    idx = i
                    break
            if idx is None:                                 # open only under other prefixes: the outermost of that name
                for i in range(len(opened)):
                    if opened[i]["name"] == name:
                        idx = i
                        break
            if idx is not None:
                del stack[1 + idx:]
    flush()

    def show(el):
        out = []
        for k in el["kids"]:
            if isinstance(k, tuple):
                out.append(f"\"{k[0]}:{cps(k[1]) or '-'}\"")
            else:
                out.append(f"<{k['name']}|{k['pfx'] or '-'}>[{show(k)}]")
        return "".join(out)
    return show(root)


class SoupWorld:
    """adapter so that heapsim.oracle_c01 can inspect a parsed document"""

    def __init__(self, soup):
        from bs4.element import Tag
        self.soup = soup
        self.objs = {}
        self.names = {}
        stack = [soup]
        i = 0
        while stack:
            o = stack.pop()
            self.objs[f"n{i}"] = o
            self.names[id(o)] = f"n{i}"
            i += 1
            if isinstance(o, Tag):
                stack.extend(o.contents)

    def label(self, o):
        return "-" if o is None else self.names.get(id(o), "?")

    def labels(self, it):
        return ".".join(self.label(x) for x in it) or "-"

    def is_soup(self, o):
        return o is self.soup


def link_dump(soup):
    """pointer dump of the real parsed document, ids = creation order (= pre-order), in the model's format"""
    from bs4.element import Tag
    order, stack = [], [soup]
    while stack:
        o = stack.pop()
        order.append(o)
        if isinstance(o, Tag):
            stack.extend(reversed(o.contents))
    ids = {id(o): i for i, o in enumerate(order)}
    f = lambda o: "-" if o is None else str(ids.get(id(o), "?"))
    rows = []
    for i, o in enumerate(order):
        kids = ".".join(f(c) for c in o.contents) if isinstance(o, Tag) and o.contents else "-"
        rows.append(f"{i} {f(o.parent)} {f(o.previous_sibling)} {f(o.next_sibling)} {f(o.previous_element)} {f(o.next_element)} {kids}")
    return ",".join(rows)


def fmt_cfg(cfg):
    pre = "pre=" + (".".join(cfg["pre"]) if cfg["pre"] else "-")
    cont = "cont=" + (".".join(f"{k}:{v}" for k, v in cfg["cont"].items()) if cfg["cont"] else "-")
    return f"{pre} {cont}"


VOIDS = ["*", [], ["b"], ["a", "pre", "z"]]


def check_case(ctx, cfgname, events, stream, lines, impls, cases, link_lines=None, link_impls=None, attempts=(), void=None):
    from . import heapsim
    cfg = CONFIGS[cfgname]
    case = {"cfg": cfgname, "events": events}
    kwargs = None
    if void is not None:
        case["void"] = void
        cfg = dict(cfg, void=void)
    if attempts:
        case["attempts"] = [list(a) for a in attempts]
    try:
        soup = real_build(cfg, events, attempts, kwargs)
    except Exception as e:
        ctx.violation(f"replaying the events raised {type(e).__name__}: {e}", case=case, stream=stream)
        return
    if void is not None:
        msg = void_check(soup, void)
        ctx.count("void-rule:" + ("*" if void == "*" else str(len(void))))
        if msg:
            ctx.violation("empty-element rule of the builder configuration not honoured: " + msg, case=case, observed=msg, stream=stream)
    got = shape(soup)
    want = oracle(cfg, events)
    nontrivial = any(e.startswith("e:") for e in events) and any(e.startswith("s:") for e in events)
    ctx.case((cfgname, tuple(events)) if nontrivial else None,
             sample={"cfg": cfgname, "events": events, "tree": got} if nontrivial and len(ctx.samples) < 5 else None)
    if got != want:
        ctx.violation("tree differs from the documented construction rules", case=case,
                      expected=want, observed=got, stream=stream)
    msg = heapsim.oracle_c01(SoupWorld(soup))
    if msg:
        ctx.violation("the built tree is not well linked: " + msg, case=case, observed=msg, stream=stream)
    # everything closed at end of input
    if soup.currentTag is not soup or len(soup.tagStack) != 1:
        ctx.violation("open elements remain after end of input", case=case, stream=stream)
    if attempts:
        # the strategy loop of BeautifulSoup.__init__ as modelled (Model/Builder.lean parseLoop): rejected attempts, then the events
        lines.append(f"c03 retry {fmt_cfg(cfg)} {'|'.join((';'.join(a) if a else '-') for a in list(attempts) + [events])}")
    else:
        lines.append(f"c03 build {fmt_cfg(cfg)} {';'.join(events) if events else '-'}")
    impls.append(got)
    cases.append(case)
    if void is not None:
        from bs4.element import Tag
        rule = "*" if void == "*" else (".".join(void) if void else "-")
        for nm in sorted({t.name for t in soup.find_all(True)}):
            t = soup.find(nm)
            lines.append(f"c03 void {rule} {nm}")
            impls.append("1" if t.can_be_empty_element else "0")
            cases.append(case | {"tag": nm})
    if link_lines is not None:
        link_lines.append(f"c03 link {fmt_cfg(cfg)} {';'.join(events) if events else '-'}")
        link_impls.append(link_dump(soup))


def run(ctx: Ctx):
    ctx.rule = ("event lists over a 17-symbol alphabet (start a/b/pre/script/rt/p:a, their end tags, an unknown end tag, data x / space / "
                "whitespace with newline / empty chunk, a comment) exhaustively to length L (quick 3 for all configs + 4 for html; thorough 5 html, "
                "4 others) + random lists to length 40 over the alphabet extended with 10 more symbols (other prefixes, </[document]>, "
                "explicit endData, whitespace-only comment, CDATA, form feed, nbsp); configs: html / xml / custom (preserve={a}, "
                "containers={b:Comment, pre:Script}) / both (pre and script are whitespace-preserving AND string containers). non-trivial = at least one start and one end tag")
    ctx.assumptions = ["events arrive through a harness TreeBuilder calling handle_starttag/handle_endtag/handle_data/endData, as html.parser's adapter does"]
    syms = list(ALPHABET)
    lines, impls, cases = [], [], []
    link_lines, link_impls = [], []
    plan = []
    if ctx.thorough:
        plan = [("html", 5), ("xml", 4), ("custom", 4), ("both", 4)]
    else:
        plan = [("html", 4), ("xml", 3), ("custom", 3), ("both", 3)]
    for cfgname, L in plan:
        n = 0
        for k in range(L + 1):
            for combo in itertools.product(syms, repeat=k):
                events = [e for s in combo for e in ALPHABET[s]]
                check_case(ctx, cfgname, events, "exhaustive", lines, impls, cases, link_lines, link_impls)
                n += 1
        ctx.exhaustive_parts.append(f"{cfgname}: all {n} event lists of length <= {L} over {len(syms)} symbols")
        ctx.count(f"exhaustive:{cfgname}", n)
        if len([v for v in ctx.violations]) > 20:
            break
    allsyms = {**ALPHABET, **EXTRA}
    names = list(allsyms)
    for i in range(ctx.n(3000, 60000)):
        r = ctx.rng("rand", i)
        cfgname = r.choice(list(CONFIGS))
        k = r.randint(5, 40)
        events = [e for _ in range(k) for e in allsyms[r.choice(names)]]
        check_case(ctx, cfgname, events, "random", lines, impls, cases, link_lines, link_impls)
    ctx.count("random", ctx.n(3000, 60000))
    # empty-element rules (None / empty set / sets) and strategies rejected after sending events (the tree is the one of the events of
    # the feed that succeeded: a rejected attempt leaves nothing behind)
    for i in range(ctx.n(1500, 30000)):
        r = ctx.rng("cfgx", i)
        cfgname = r.choice(list(CONFIGS))
        events = [e for _ in range(r.randint(1, 25)) for e in allsyms[r.choice(names)]]
        attempts = []
        if r.random() < 0.6:
            for _ in range(r.randint(1, 3)):
                attempts.append([e for _ in range(r.randint(0, 8)) for e in allsyms[r.choice(names)]])
        void = r.choice(VOIDS) if r.random() < 0.7 else None
        check_case(ctx, cfgname, events, "retry+void", lines, impls, cases, link_lines, link_impls, attempts=attempts, void=void)
        if attempts:
            ctx.count("retry:documents")
            ctx.count("retry:rejected-attempts-with-events", sum(1 for a in attempts if a))
    reuse_stream(ctx)
    # model: code-mirror and documented fold
    drv = Driver()
    compare_links(ctx, drv, link_lines, link_impls, cases)
    B = 50000
    for off in range(0, len(lines), B):
        ls = lines[off:off + B]
        rep = drv.ask(ls)
        rep2 = drv.ask([l.replace("c03 build", "c03 spec", 1) for l in ls])
        for l, a, b, b2, c in zip(ls, impls[off:off + B], rep, rep2, cases[off:off + B]):
            if a != b or a != b2:
                ctx.corr_disagreements += 1
                want = oracle(CONFIGS[c["cfg"]], c["events"])
                ctx.violation("model and implementation disagree on the built tree", case=c | {"line": l}, observed=a,
                              model={"build": b, "buildSpec": b2}, expected=want, stream="correspondence",
                              no_failing_input=(a == want))


def compare_links(ctx, drv, link_lines, link_impls, cases):
    """every pointer field of every object of the parsed document vs the parse-time linkage model (Model/ParseLink.lean)"""
    B = 50000
    for off in range(0, len(link_lines), B):
        rep = drv.ask(link_lines[off:off + B])
        for l, a, b, c in zip(link_lines[off:off + B], link_impls[off:off + B], rep, cases[off:off + B]):
            if a != b:
                ctx.corr_disagreements += 1
                ra, rb = a.split(","), b.split(",")
                j = next((k for k in range(min(len(ra), len(rb))) if ra[k] != rb[k]), min(len(ra), len(rb)))
                ctx.violation(f"parse-time linkage: model and implementation disagree at node {j}: impl '{ra[j] if j < len(ra) else None}', model '{rb[j] if j < len(rb) else None}' (id parent ps ns pe ne kids)",
                              case=c | {"line": l[:1500]}, observed=a[:1500], model=b[:1500], stream="parse-linkage", no_failing_input=True)
    ctx.count("parse-linkage:documents", len(link_lines))


def replay(path):
    v = json.load(open(path))
    c = v["case"]
    if c.get("op") == "reuse":
        return replay_reuse(c)
    if "events" not in c:
        print(json.dumps(v, indent=1)[:3000]); return 1
    cfg = CONFIGS[c["cfg"]]
    if "void" in c:
        cfg = dict(cfg, void=c["void"])
    soup = real_build(cfg, c["events"], c.get("attempts", ()))
    got, want = shape(soup), oracle(cfg, c["events"])
    from . import heapsim
    msg = heapsim.oracle_c01(SoupWorld(soup))
    vmsg = void_check(soup, c["void"]) if "void" in c else None
    print("events:", c["events"]); print("rejected attempts before them:", c.get("attempts", []))
    print("implementation:", got); print("documented rules:", want); print("linkage:", msg or "ok"); print("empty-element rule:", vmsg or "ok")
    return 0 if got == want and not msg and not vmsg else 1
