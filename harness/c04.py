"""C04 — html.parser documents become the tree the markup describes.

Streams:
 * written documents: a random tree model is written out by an independent writer (random void spelling, quoting,
   entity spelling, in-tag whitespace, name case); oracle = the documented fold of the INTENDED events;
 * malformed input: token soup and mutations; the standard-library callback stream is recorded with a plain
   HTMLParser subclass (no bs4) and the real tree is compared with (a) the Lean adapter model fed with that stream and
   (b) an independent Python evaluator of adapter + fold."""
import html.entities, json, warnings
from html.parser import HTMLParser

from .common import Ctx, Driver, cps
from . import c03

MANIFEST = dict(
    text=("Lean: BeautifulSoupHTMLParser is modelled as a function from the standard-library parser's callback stream to builder "
          "events (Model/Adapter.lean: void-element auto-close and the already_closed_empty_element list, duplicate-attribute policy, "
          "None->'' attribute values, handle_charref incl. the Windows-1252 detour and chr range, handle_entityref, the string classes "
          "of comment/doctype/CDATA/declaration/PI) composed with C03's machine. Theorems for ALL callback streams: void elements are "
          "childless in any mixture of <br>, <br/>, <br></br>; a redundant end tag of a void element is ignored; numeric and named "
          "references denote their characters; the duplicate-attribute policy; special strings keep content and class (see evidence "
          "'theorems'). Tie: the callback stream of every text is recorded by a plain HTMLParser subclass and (i) for documents written by an "
          "independent writer the real tree must equal the fold of the intended events, (ii) for malformed text the real tree must equal "
          "the model's fold of the recorded stream, (iii) the Lean code-mirror of CPython's tokenizer (Model/Tokenizer.lean, theorems in "
          "Props/TK.lean) must produce exactly the recorded stream on every text of every stream (tokenizer-model). Whole documents: emit_build - for every "
          "document, every assignment of the writer's per-occurrence choices (void spelling <br> / <br/> / <br></br>, chunking of text, "
          "literal / decimal / hexadecimal / named spelling of every character with any leading zeros and case, keyword case, start-tag "
          "positions) and every configuration, adapter + C03 machine applied to the callback stream of the written markup (Model/Writer.lean: "
          "emit) yield the tree the document describes (normalise) - with corollaries void_spelling_irrelevant, "
          "reference_spelling_irrelevant, nesting_preserved, attributes_preserved, special_strings_preserved; stream 'writer' ties both ends: "
          "recorded tokenizer callbacks of the written text = emit for the choices the writer took, real parse = normalise, and the "
          "excluded points (void element with a child, numeric reference to 128-159, over-long decimal digit string, unknown name) are run "
          "on the real code, where the conclusion must fail. From the TEXT: parse_of_written_document - for every Writable document "
          "(Model/WriterText.lean: writeText gives the markup; names [a-z][-.:_a-z0-9]*, no script/style, literal characters not & or <, "
          "hazard-free comments/CDATA/doctype/declarations/PIs) the Lean tokenizer run on writeText makes exactly emit's callbacks up to data "
          "chunking (callbacks_of_written_document), every start tag at the line/column of its '<' (derivedPos), hence adapter + machine "
          "yield normalise; html.unescape and str.lower are the only parameters (ParamsOK). Stream written-text: Lean writeText = the Python "
          "writer's plain-mode text, Writable holds, derivedPos = the writer's offsets, recorder = Lean tokenizer = emit on those texts, "
          "ParamsOK sampled against the real functions. script/style: parse_of_written_document_raw / raw_text_element_tokens - WritableRaw "
          "admits a script/style element with ONE text written verbatim whose every '</' (also one at its end) is followed by neither "
          "whitespace nor the first letter of the name in either case (rawTextOK): the tokenizer's CDATA mode gives starttag, ONE data, endtag, "
          "the tree has one Script/Stylesheet string. Stream written-raw: Lean rawTextOK/WritableRaw/writeText = the Python side, and where "
          "WritableRaw holds recorder = emit, real parse = normalise = intended fold, one string of the container's class; where not, counted."),
    design="7/C04",
    note=("CPython's tokenizer is outside the repository: it is modelled in Lean and tied to the real one by exact equality of the callback "
          "streams on every text of the run (html.unescape, str.lower and the HTML5 entity table are parameters answered by the real "
          "functions), not verified. Multi-valued attribute "
          "splitting is C17's: C04 runs with multi_valued_attributes=None except in the option-grid stream where values are compared joined."),
    technique="Lean 4 proof (adapter + C03 machine, whole-document writer theorem, tokenizer code-mirror) + differential correspondence with the real parser + independent writer oracle",
)

VOID = ["br", "hr", "img", "input", "meta", "link", "wbr"]
ORD = ["a", "b", "div", "p", "span", "i", "li", "ul", "td", "x-y"]
PRES = ["pre", "textarea"]
CONT = {"script": 6, "style": 7, "template": 8, "rt": 9, "rp": 10}
TEXT_ATOMS = ["a", "b", " ", "  ", "\n", "\t", "x y", "&", "<", ">", "\"", "'", ";", "#", "é", "☃", "≦̸", " ",
              "&amp", "&lt;", "&#65;", "&nosuch;", "1", "=", "/", "\x0c", "\r", "--", "]]", "?",
              # whitespace to str.isspace() but not in ASCII_SPACES: kept verbatim, alone or mixed with real whitespace
              "\x0b", "\x0b ", "\x1c", "\x85", "\u2028", "\u2003"]
NAME2CP = {k.rstrip(";"): v for k, v in html.entities.html5.items() if k.endswith(";")}
ENTITY_DENOTES = {(k[:-1] if k.endswith(";") else k): v for k, v in html.entities.html5.items()}
CP2NAME = {}
for _k, _v in sorted(html.entities.html5.items()):
    if _k.endswith(";") and len(_v) == 1:
        CP2NAME.setdefault(_v, _k[:-1])


# ------------------------------------------------------------------------------------------------
# recording the standard-library callback stream
# ------------------------------------------------------------------------------------------------
class Recorder(HTMLParser):
    def __init__(self):
        super().__init__(convert_charrefs=False)
        self.ev = []

    def error(self, message):
        raise AssertionError(message)

    def _attrs(self, attrs):
        if not attrs:
            return "-"
        return "&".join(f"{cps(k) or '-'}={'~' if v is None else (cps(v) or '-')}" for k, v in attrs)

    def handle_starttag(self, tag, attrs):
        l, c = self.getpos()
        self.ev.append(f"ST|{cps(tag) or '-'}|{l}|{c}|{self._attrs(attrs)}")

    def handle_startendtag(self, tag, attrs):
        l, c = self.getpos()
        self.ev.append(f"SE|{cps(tag) or '-'}|{l}|{c}|{self._attrs(attrs)}")

    def handle_endtag(self, tag):
        self.ev.append(f"ET|{cps(tag) or '-'}")

    def handle_data(self, data):
        self.ev.append(f"D|{cps(data) or '-'}")

    def handle_charref(self, name):
        self.ev.append(f"CR|{cps(name) or '-'}")

    def handle_entityref(self, name):
        # what the name denotes: the standard library's HTML5 table (NOT bs4's copy of it, which is code under test)
        r = ENTITY_DENOTES.get(name)
        self.ev.append(f"ER|{cps(name) or '-'}|{'~' if r is None else (cps(r) or '-')}")

    def handle_comment(self, data):
        self.ev.append(f"CM|{cps(data) or '-'}")

    def handle_decl(self, data):
        self.ev.append(f"DL|{cps(data) or '-'}")

    def unknown_decl(self, data):
        self.ev.append(f"UD|{cps(data) or '-'}")

    def handle_pi(self, data):
        self.ev.append(f"PI|{cps(data) or '-'}")


def record(text):
    r = Recorder()
    try:
        r.feed(text)
        r.close()
    except AssertionError:
        return None
    return r.ev


def uncps(s):
    return "" if s in ("-", "~") else "".join(chr(int(x)) for x in s.split(","))


# ------------------------------------------------------------------------------------------------
# real parse -> canonical shape
# ------------------------------------------------------------------------------------------------
def aval(v):
    if isinstance(v, list):
        return "+".join(aval(x) for x in v)
    if not isinstance(v, str):
        return f"!{type(v).__name__}"        # not a string: never equal to anything the documented fold produces
    return cps(v) or "-"


def shape(el, with_pos=True):
    from bs4.element import Tag
    out = []
    for c in el.contents:
        if isinstance(c, Tag):
            pos = f"{c.sourceline}.{c.sourcepos}" if c.sourceline is not None else "~"
            if not with_pos:
                pos = "~"
            attrs = "&".join(f"{cps(k) or '-'}={aval(v)}" for k, v in c.attrs.items()) or "-"
            out.append(f"<{cps(c.name) or '-'}|{pos}|{attrs}>[{shape(c, with_pos)}]")
        else:
            out.append(f"\"{c03.cls_id(c)}:{cps(str(c)) or '-'}\"")
    return "".join(out)


def accumulate(attrs, key, value):
    if not isinstance(attrs[key], list):
        attrs[key] = [attrs[key]]
    attrs[key].append(value)


def real_parse(text, opts):
    from bs4 import BeautifulSoup
    kw = dict(multi_valued_attributes=None)
    if opts.get("dup") == "ignore":
        kw["on_duplicate_attribute"] = "ignore"
    elif opts.get("dup") == "replace":
        kw["on_duplicate_attribute"] = "replace"
    elif opts.get("dup") == "acc":
        kw["on_duplicate_attribute"] = accumulate
    if "void" in opts:
        kw["empty_element_tags"] = None if opts["void"] == "*" else set(opts["void"])
    if "pre" in opts:
        kw["preserve_whitespace_tags"] = set(opts["pre"])
    if "cont" in opts:
        kw["string_containers"] = {k: c03.cls_obj(v) for k, v in opts["cont"].items()}
    if opts.get("lines") == 0:
        kw["store_line_numbers"] = False
    with warnings.catch_warnings():
        warnings.simplefilter("ignore")
        if opts.get("enc"):
            soup = BeautifulSoup(text.encode(opts["enc"]), "html.parser", from_encoding=opts["enc"], **kw)
            if (soup.original_encoding or "").lower() != opts["enc"].lower():
                raise AssertionError(f"harness: from_encoding={opts['enc']} was not used ({soup.original_encoding})")
            return soup
        return BeautifulSoup(text, "html.parser", **kw)


def orig_table(enc):
    """bytearray([n]).decode(enc) for the n < 256 that windows-1252 cannot decode (the only ones where it matters)"""
    out = {}
    if not enc:
        return out
    for n in range(256):
        try:
            bytes([n]).decode("windows-1252")
            continue
        except UnicodeDecodeError:
            pass
        try:
            d = bytes([n]).decode(enc)
        except UnicodeError:
            continue
        out[n] = d
    return out


def cfg_tokens(opts):
    void = opts.get("void", VOID_DEFAULT())
    v = "void=*" if void == "*" else ("void=" + (".".join(void) if void else "-"))
    d = "dup=" + opts.get("dup", "replace")
    l = f"lines={opts.get('lines', 1)}"
    pre = opts.get("pre", PRES)
    cont = opts.get("cont", CONT)
    p = "pre=" + (".".join(pre) if pre else "-")
    c = "cont=" + (".".join(f"{k}:{v2}" for k, v2 in cont.items()) if cont else "-")
    base = f"{v} {d} {l} {p} {c}"
    if opts.get("enc"):
        t = orig_table(opts["enc"])
        base += " orig=" + (".".join(f"{n}:{cps(x) or '-'}" for n, x in sorted(t.items())) if t else "-")
    return base


_vd = None


def VOID_DEFAULT():
    global _vd
    if _vd is None:
        from bs4.builder import HTMLTreeBuilder
        _vd = sorted(HTMLTreeBuilder.DEFAULT_EMPTY_ELEMENT_TAGS)
    return _vd


# ------------------------------------------------------------------------------------------------
# independent evaluator: adapter (repaired semantics) + documented fold, over recorded callbacks
# ------------------------------------------------------------------------------------------------
def py_adapter_fold(evs, opts):
    void = opts.get("void", VOID_DEFAULT())
    is_void = (lambda n: True) if void == "*" else (lambda n: n in void)
    cfg = {"pre": opts.get("pre", PRES), "cont": opts.get("cont", CONT)}
    dup = opts.get("dup", "replace")
    lines = opts.get("lines", 1)
    closed = []
    out = []       # c03-style events
    infos = []

    def info(f):
        d = {}
        if f[4] != "-":
            for kv in f[4].split("&"):
                k, v = kv.split("=")
                k, v = uncps(k), uncps(v)
                if k in d:
                    if dup == "ignore":
                        continue
                    if dup == "acc":
                        if not isinstance(d[k], list):
                            d[k] = [d[k]]
                        d[k].append(v)
                        continue
                d[k] = v
        pos = f"{f[2]}.{f[3]}" if lines else "~"
        attrs = "&".join(f"{cps(k) or '-'}={aval(v)}" for k, v in d.items()) or "-"
        return f"{pos}|{attrs}"

    for e in evs:
        f = e.split("|")
        k = f[0]
        if k in ("ST", "SE"):
            name = uncps(f[1])
            out.append(("s", name))
            infos.append(info(f))
            if k == "SE" or is_void(name):
                out.append(("e", name))
                if k == "ST":
                    closed.append(name)
        elif k == "ET":
            name = uncps(f[1])
            if name in closed:
                closed.remove(name)
            else:
                out.append(("e", name))
        elif k == "D":
            out.append(("d", uncps(f[1])))
        elif k == "CR":
            name = uncps(f[1])
            try:
                n = int(name.lstrip("xX"), 16) if name[:1] in "xX" else int(name)
            except ValueError:
                n = None
            data = None
            if n is not None and n < 256:
                try:
                    data = bytes([n]).decode("windows-1252")
                except UnicodeDecodeError:
                    data = orig_table(opts.get("enc")).get(n) if opts.get("enc") else None
            if not data and n is not None:
                try:
                    data = chr(n)
                except (ValueError, OverflowError):
                    data = None
            out.append(("d", data or "�"))
        elif k == "ER":
            out.append(("d", uncps(f[2]) if f[2] != "~" else "&" + uncps(f[1])))
        else:
            s = uncps(f[1])
            if k == "CM":
                cls = 1
            elif k == "DL":
                cls, s = 5, s[8:]
            elif k == "UD":
                if s.upper().startswith("CDATA["):
                    cls, s = 2, s[6:]
                else:
                    cls = 4
            else:
                cls = 3
            out += [("x", None), ("d", s), ("x", cls)]
    # documented fold (names may be arbitrary strings: fold directly here)
    root = {"name": None, "kids": []}
    stack = [root]
    buf = []

    def flush(cls=None):
        if not buf:
            return
        s = "".join(buf)
        buf.clear()
        if not any(fr["name"] in cfg["pre"] for fr in stack[1:]) and all(ch in c03.ASCII_SPACES for ch in s):
            s = "\n" if "\n" in s else " "
        c = cls or 0
        if c == 0:
            for fr in reversed(stack[1:]):
                if fr["name"] in cfg["cont"]:
                    c = cfg["cont"][fr["name"]]
                    break
        stack[-1]["kids"].append((c, s))
    it = iter(infos)
    for ev in out:
        if ev[0] == "d":
            buf.append(ev[1])
        elif ev[0] == "x":
            flush(ev[1])
        elif ev[0] == "s":
            flush()
            el = {"name": ev[1], "kids": [], "info": next(it)}
            stack[-1]["kids"].append(el)
            stack.append(el)
        else:
            flush()
            if ev[1] == "[document]":
                continue
            for i in range(len(stack) - 1, 0, -1):
                if stack[i]["name"] == ev[1]:
                    del stack[i:]
                    break
    flush()

    def show(el):
        o = []
        for kd in el["kids"]:
            if isinstance(kd, tuple):
                o.append(f"\"{kd[0]}:{cps(kd[1]) or '-'}\"")
            else:
                o.append(f"<{cps(kd['name']) or '-'}|{kd['info']}>[{show(kd)}]")
        return "".join(o)
    return show(root)


# ------------------------------------------------------------------------------------------------
# tree model + independent writer
# ------------------------------------------------------------------------------------------------
def gen_text(r, maxn=4, raw=False):
    n = r.randint(1, maxn)
    atoms = [a for a in TEXT_ATOMS if not raw or ("<" not in a and "&" not in a)] if raw else TEXT_ATOMS
    return "".join(r.choice(atoms) for _ in range(n))


def gen_tree(r, depth=0, budget=None):
    """A list of nodes: ('e', name, attrs, kids) | ('t', text) | ('c', text) comment | ('cd', text) | ('pi', text)"""
    if budget is None:
        budget = [r.randint(3, 14)]
    out = []
    for _ in range(r.randint(0, 4)):
        if budget[0] <= 0:
            break
        budget[0] -= 1
        x = r.random()
        if x < 0.45 and depth < 5:
            kind = r.random()
            if kind < 0.2:
                name = r.choice(VOID)
            elif kind < 0.3:
                name = r.choice(PRES)
            elif kind < 0.4:
                name = r.choice(list(CONT))
            else:
                name = r.choice(ORD)
            attrs = []
            for _ in range(r.choice([0, 0, 1, 1, 2, 3])):
                k = r.choice(["id", "href", "title", "data-x", "class", "k"])
                if k in [a[0] for a in attrs]:
                    continue
                v = None if r.random() < 0.1 else gen_text(r, 3)
                attrs.append((k, v))
            if name in VOID:
                kids = []
            elif name in ("script", "style"):
                kids = [("t", gen_text(r, 3, raw=True))] if r.random() < 0.7 else []
            elif name == "textarea":
                kids = [("t", gen_text(r, 3))] if r.random() < 0.7 else []
            else:
                kids = gen_tree(r, depth + 1, budget)
            out.append(("e", name, attrs, kids))
        elif x < 0.8:
            out.append(("t", gen_text(r)))
        elif x < 0.9:
            t = gen_text(r, 3).replace("--", "-").replace(">", "")
            if t.endswith("-") or t.startswith("-") or t.startswith(">"):
                t = "c" + t + "c"
            out.append(("c", t))
        elif x < 0.95:
            out.append(("cd", gen_text(r, 3).replace("]]", "]").replace(">", "")))
        else:
            out.append(("pi", "pi " + gen_text(r, 2).replace(">", "").replace("?", "")))
    return out


class ChoiceLog:
    """The writer's choices, one entry per node in document order (the `choices` argument of `c04 emit`): element `p` `<br>` /
    `s` `<br/>` / `r` `<br></br>` / `o` not void; text: one `.`-joined entry per character (`l` literal, `dZ` decimal with Z
    leading zeros, `hXDZ` hexadecimal with upper-case x / digits, `nNAME` named); special string `k` + one 0/1 per keyword letter (1 = upper case).
    `rng` (optional) is a SECOND random source for variation the plain writer does not have (leading zeros):
    the writer's own random stream is consumed exactly as without logging."""

    def __init__(self, rng=None):
        self.entries = []
        self.rng = rng


def esc_text(r, s, attr_quote=None, log=None):
    """Independent entity spelling: every markup-significant character gets a random valid spelling.
    `log` (a ChoiceLog) receives the spelling taken per character (in `log.chars`); leading zeros only when it carries an rng."""
    out = []
    for i, ch in enumerate(s):
        must = ch in "&<>" or (attr_quote is not None and ch == attr_quote) or ch == "\r"
        if must or (r.random() < 0.08 and ch not in "\r"):
            forms = [f"&#{ord(ch)};", f"&#x{ord(ch):x};", f"&#X{ord(ch):X};"]
            if ch in CP2NAME and not (0x80 <= ord(ch) <= 0x9f):
                forms.append(f"&{CP2NAME[ch]};")
            # numeric references below 256 take bs4's Windows-1252 detour; only use them where it is the identity
            if 0x80 <= ord(ch) <= 0x9f:
                forms = [ch]
            if attr_quote is not None and not must:
                # attribute values are unescaped by the tokenizer itself (html.unescape): a numeric reference to a control character or
                # noncharacter does not denote it there (the standard library drops or remaps it) - spell those literally
                forms = [f2 for f2 in forms if html.unescape(f2) == ch] or [ch]
            f = r.choice(forms)
            if log is not None:
                z = log.rng.choice([0, 0, 0, 1, 2, 7]) if log.rng is not None else 0
                if f == ch:
                    log.chars.append("l")
                elif f.startswith("&#x"):
                    f = f"&#x{'0' * z}{ord(ch):x};"
                    log.chars.append(f"h00{z}")
                elif f.startswith("&#X"):
                    f = f"&#X{'0' * z}{ord(ch):X};"
                    log.chars.append(f"h11{z}")
                elif f.startswith("&#"):
                    f = f"&#{'0' * z}{ord(ch)};"
                    log.chars.append(f"d{z}")
                else:
                    log.chars.append("n" + cps(f[1:-1]))
            out.append(f)
        else:
            out.append(ch)
            if log is not None:
                log.chars.append("l")
    return "".join(out)


def esc_attr_plain(v):
    """The Lean writer's attribute value escaping (Model/WriterText.lean `escAttr`): `&` and `"` only."""
    return v.replace("&", "&amp;").replace('"', "&quot;")


def write(r, nodes, offsets, pos, in_raw=False, log=None, plain=False):
    """Returns markup; records (name, offset) of every start tag in `offsets` in document order.
    `log` (a ChoiceLog) receives the choice taken per node; without it the output is exactly what it always was.
    `plain=True`: the freedoms `Model/WriterText.lean: writeText` does not take are switched off (one space before an attribute,
    `k="v"` with `&`/`"` as `&amp;`/`&quot;`, names as given, `>` / `/>` directly after the last attribute); without it the
    output is exactly what it always was.
    Node kinds `dt` (doctype) and `ud` (marked-section declaration `<![if x]>`) are only produced by the `writer` stream."""
    parts = []
    for nd in nodes:
        if nd[0] == "t":
            if log is not None:
                log.chars = []
            s = nd[1] if in_raw else esc_text(r, nd[1], log=log)
            if log is not None:
                log.entries.append(".".join(log.chars if not in_raw else ["l"] * len(nd[1])) or "-")
            parts.append(s)
            pos[0] += len(s)
        elif nd[0] == "c":
            s = f"<!--{nd[1]}-->"
            parts.append(s); pos[0] += len(s)
            if log is not None:
                log.entries.append("k")
        elif nd[0] == "cd":
            kw = r.choice(['CDATA', 'CDATA', 'cdata', 'CData'])       # the keyword's case is the writer's choice
            s = f"<![{kw}[{nd[1]}]]>"
            parts.append(s); pos[0] += len(s)
            if log is not None:
                log.entries.append("k" + "".join("1" if ch.isupper() else "0" for ch in kw))
        elif nd[0] == "pi":
            s = f"<?{nd[1]}>"
            parts.append(s); pos[0] += len(s)
            if log is not None:
                log.entries.append("k")
        elif nd[0] == "dt":
            kw = r.choice(['DOCTYPE', 'DOCTYPE', 'doctype', 'DocType', 'Doctype'])
            s = f"<!{kw} {nd[1]}>"
            parts.append(s); pos[0] += len(s)
            if log is not None:
                log.entries.append("k" + "".join("1" if ch.isupper() else "0" for ch in kw))
        elif nd[0] == "ud":
            s = f"<![{nd[1]}]>"
            parts.append(s); pos[0] += len(s)
            if log is not None:
                log.entries.append("k")
        else:
            _, name, attrs, kids = nd
            offsets.append(pos[0])
            wname = name.upper() if (r.random() < 0.1 and not plain) else name
            s = "<" + wname
            for k, v in attrs:
                if plain:
                    s += " " + k + ("" if v is None else '="' + esc_attr_plain(v) + '"')
                    continue
                s += r.choice([" ", "  ", "\n", " \t"])
                s += k.upper() if r.random() < 0.1 else k
                if v is not None:
                    q = r.choice(['"', "'"])
                    s += r.choice(["=", " = ", "= "]) + q + esc_text(r, v, q) + q
            spelling = r.choice(["plain", "slash", "spaceslash", "pair"]) if name in VOID else "open"
            if plain and spelling == "spaceslash":
                spelling = "slash"
            if log is not None:
                log.entries.append({"plain": "p", "slash": "s", "spaceslash": "s", "pair": "r", "open": "o"}[spelling])
            if spelling == "slash":
                s += "/>"
            elif spelling == "spaceslash":
                s += " />"
            elif plain:
                s += ">"
            else:
                s += r.choice([">", " >"]) if not attrs or attrs[-1][1] is not None else ">"
            parts.append(s); pos[0] += len(s)
            if name in VOID:
                if spelling == "pair":
                    e = f"</{name}>"
                    parts.append(e); pos[0] += len(e)
            else:
                parts.append(write(r, kids, offsets, pos, in_raw=name in ("script", "style"), log=log, plain=plain))
                e = f"</{wname}>"
                parts.append(e); pos[0] += len(e)
    return "".join(parts)


def intended(nodes, offsets_iter, text, lines=True):
    """The fold of the intended events: expected canonical shape."""
    root = {"kids": []}

    def linecol(off):
        line = text.count("\n", 0, off) + 1
        col = off - (text.rfind("\n", 0, off) + 1)
        return f"{line}.{col}"

    def walk(nodes, stack, out):
        pending = []

        def flush():
            if not pending:
                return
            s = "".join(pending)
            pending.clear()
            if not any(n in PRES for n in stack) and all(ch in c03.ASCII_SPACES for ch in s):
                s = "\n" if "\n" in s else " "
            c = 0
            for n in reversed(stack):
                if n in CONT:
                    c = CONT[n]
                    break
            out.append(f"\"{c}:{cps(s) or '-'}\"")
        for nd in nodes:
            if nd[0] == "t":
                pending.append(nd[1])
            elif nd[0] in ("c", "cd", "pi", "dt", "ud"):
                flush()
                cls = {"c": 1, "cd": 2, "pi": 3, "ud": 4, "dt": 5}[nd[0]]
                s = nd[1]
                # C03's whitespace rule applies to every string that goes through endData, special ones included
                # (an empty or whitespace-only comment/CDATA becomes one space or newline; DESIGN.md section 8, quirks)
                if not any(n in PRES for n in stack) and all(ch in c03.ASCII_SPACES for ch in s):
                    s = "\n" if "\n" in s else " "
                out.append(f"\"{cls}:{cps(s) or '-'}\"")
            else:
                flush()
                _, name, attrs, kids = nd
                off = next(offsets_iter)
                a = "&".join(f"{cps(k)}={cps(v or '') or '-'}" for k, v in attrs) or "-"
                inner = []
                walk(kids, stack + [name], inner)
                out.append(f"<{cps(name)}|{linecol(off) if lines else '~'}|{a}>[{''.join(inner)}]")
        flush()
    out = []
    walk(nodes, [], out)
    return "".join(out)


# ------------------------------------------------------------------------------------------------
# the whole-document theorem `emit_build`: both of its ends against the real code
# ------------------------------------------------------------------------------------------------
def doc_tokens(nodes, offsets_iter, text):
    """The `doc` argument of `c04 emit` / `c04 norm`: nodes in document order, start-tag positions from the written text."""
    out = []

    def linecol(off):
        return text.count("\n", 0, off) + 1, off - (text.rfind("\n", 0, off) + 1)

    def walk(nodes):
        for nd in nodes:
            if nd[0] == "t":
                out.append(f"T|{cps(nd[1]) or '-'}")
            elif nd[0] in ("c", "cd", "pi", "dt", "ud"):
                out.append(f"S|{nd[0]}|{cps(nd[1]) or '-'}")
            else:
                _, name, attrs, kids = nd
                l, c = linecol(next(offsets_iter))
                a = "&".join(f"{cps(k) or '-'}={'~' if v is None else (cps(v) or '-')}" for k, v in attrs) or "-"
                out.append(f"E|{cps(name)}|{l}|{c}|{a}|{len(kids)}")
                walk(kids)
    walk(nodes)
    return ";".join(out) or "-"


def merge_data(evs):
    """Callback streams are compared up to the cutting of character data into chunks (the tokenizer cuts at `&` and at
    buffer boundaries; `data_chunking_irrelevant`, and `emit_build` itself, say the tree does not depend on it) and without
    the recorder's resolution field of `ER`."""
    out = []
    for e in evs:
        if e.startswith("ER|"):
            e = "|".join(e.split("|")[:2])
        if e.startswith("D|") and out and out[-1].startswith("D|"):
            a, b = out[-1][2:], e[2:]
            out[-1] = "D|" + ",".join(x for x in (a, b) if x != "-") if (a != "-" or b != "-") else "D|-"
        else:
            out.append(e)
    return out


WRITER_OPTS = [{}, {}, {}, {"dup": "ignore"}, {"dup": "acc"}, {"lines": 0}, {"cont": {"b": 6, "pre": 7}, "pre": ["a", "span"]},
               {"cont": {}, "pre": []}]


MVA_CONFIGS = {"default": "default", "custom": {"*": ["id", "title"], "a": ["href"], "td": ["k"]}, "empty": {}, "star-only": {"*": ["class"]}}
MVA_NAMES = ["class", "rel", "rev", "headers", "accesskey", "accept-charset", "id", "title", "href", "k"]
MVA_VALUES = ["", " ", "a b", " a  b\t", "a\nb\x0cc", "a", "\x0b", "a\u00a0b", "a\u2003b", "x  y  x", "\n", "a&amp;b c", "A a"]


def mva_parse(text, mva):
    from bs4 import BeautifulSoup
    kw = {} if mva == "default" else {"multi_valued_attributes": mva}
    with warnings.catch_warnings():
        warnings.simplefilter("ignore")
        return BeautifulSoup(text, "html.parser", **kw)


def mva_compare(text, cfgname):
    """The multi_valued_attributes option changes exactly this: the values of the attributes the table names (for every element: "*",
    for one element name: its own entry) are the lists of their whitespace-separated tokens - the empty / missing value the EMPTY list -
    and everything else in the tree is what the parse without the option gives (which the streams above tie to the markup)."""
    from bs4.builder import HTMLTreeBuilder
    mva = MVA_CONFIGS[cfgname]
    table = HTMLTreeBuilder.DEFAULT_CDATA_LIST_ATTRIBUTES if mva == "default" else mva
    a, b = real_parse(text, {}), mva_parse(text, mva)
    if c03.shape(a) != c03.shape(b):
        return f"elements / strings differ: {c03.shape(b)[:200]} with the option, {c03.shape(a)[:200]} without"
    for ta, tb in zip(a.find_all(True), b.find_all(True)):
        if list(ta.attrs) != list(tb.attrs):
            return f"<{ta.name}>: attribute names {list(tb.attrs)} with the option, {list(ta.attrs)} without"
        multi = set(table.get("*", [])) | set(table.get(ta.name.lower(), []) or [])
        for k, va in ta.attrs.items():
            vb = tb.attrs[k]
            if k in multi and isinstance(va, str):
                if not isinstance(vb, list) or list(vb) != va.split():
                    return f"<{ta.name} {k}={va!r}> is multi-valued here: expected the token list {va.split()!r}, got {vb!r} ({type(vb).__name__})"
            elif type(vb) is not type(va) or vb != va:
                return f"<{ta.name} {k}={va!r}> is not multi-valued here: expected it verbatim, got {vb!r} ({type(vb).__name__})"
    return None


def mva_stream(ctx):
    for i in range(ctx.n(900, 15000)):
        r = ctx.rng("mva", i)
        if r.random() < 0.75:
            nodes = gen_tree(r)

            def enrich(nds):
                out = []
                for nd in nds:
                    if nd[0] == "e":
                        attrs = list(nd[2])
                        for _ in range(r.choice([0, 1, 1, 2])):
                            k = r.choice(MVA_NAMES)
                            if k not in [x[0] for x in attrs]:
                                attrs.append((k, None if r.random() < 0.1 else r.choice(MVA_VALUES)))
                        nd = ("e", nd[1] if r.random() < 0.8 else r.choice(["a", "td", "th", "link", "form", "a"]) if not nd[3] and nd[1] in VOID else nd[1], attrs, enrich(nd[3]))
                    out.append(nd)
                return out
            text = write(r, enrich(nodes), [], [0])
        else:
            text = gen_soup(r) + r.choice(["<p class>", "<td headers=''>", "<a rel=\" \" class='a  b'>", "<i class=a class=\"b c\">", ""]) + gen_soup(r)
        cfgname = r.choice(list(MVA_CONFIGS))
        try:
            msg = mva_compare(text, cfgname)
        except Exception as e:
            from bs4.exceptions import ParserRejectedMarkup
            if isinstance(e, ParserRejectedMarkup):
                continue
            msg = f"raised {type(e).__name__}: {e}"
        ctx.case(("mva", text, cfgname) if "=" in text else None)
        ctx.count("mva:" + cfgname)
        if msg:
            ctx.violation("multi_valued_attributes option: " + msg, case={"op": "mva", "text": text, "mva": cfgname}, observed=msg, stream="mva")


def writer_stream(ctx, drv):
    """`emit_build : adapterBuild cfg (emit d c) = normalise cfg d` tied to the real code at both ends, for the documents of
    `gen_tree` (plus doctypes and `<![if …]>` declarations) and the choices the harness writer actually took:
      (i)  the real tokenizer's callbacks on the written text (recorder, no bs4) = Lean `emit d c`;
      (ii) the real parse = Lean `normalise d` (and = the independent Python fold of the intended events).
    Then the points `Representable`/`WellSpelt` exclude are run on the real code: the conclusion must FAIL there."""
    lines, meta = [], []
    for i in range(ctx.n(2000, 30000)):
        r = ctx.rng("writer", i)
        x = ctx.rng("writer-extra", i)
        nodes = gen_tree(r)
        if x.random() < 0.3:
            nodes = [("dt", x.choice(["html", "HTML PUBLIC \"-//W3C//DTD HTML 4.01//EN\"", "x  y", "", " ", "html\n"]))] + nodes
        if x.random() < 0.15:
            nodes.insert(x.randint(0, len(nodes)), ("ud", x.choice(["if x", "endif", "if gte mso 9", "else", "if !IE"])))
        if x.random() < 0.1:
            nodes.insert(x.randint(0, len(nodes)), ("t", ""))          # an empty text: nothing is written, nothing is built
        if x.random() < 0.3:
            # several void elements of ONE name in one document, so that every mixture of the three spellings occurs
            # (`<br>` … `<br/>` is what 4.13.0 got wrong): inserted at the top level or into ordinary elements
            vname = x.choice(VOID)
            hosts = [nodes]
            def collect(ns):
                for nd in ns:
                    if nd[0] == "e" and nd[1] not in VOID and nd[1] not in ("script", "style", "textarea"):
                        hosts.append(nd[3]); collect(nd[3])
            collect(nodes)
            for _ in range(x.randint(2, 4)):
                h = x.choice(hosts)
                h.insert(x.randint(0, len(h)), ("e", vname, [], []))
            ctx.count("writer:same-void-name-repeated")
        opts = x.choice(WRITER_OPTS)
        log = ChoiceLog(ctx.rng("writer-choices", i))
        offsets = []
        text = write(r, nodes, offsets, [0], log=log)
        # the cutting of literal text into chunks is the tokenizer's choice, not the writer's: exercise the model's with random cuts
        ent = []
        for e in log.entries:
            if e[:1] in ("l", "d", "h", "n"):
                e = ".".join(("c" if (c == "l" and x.random() < 0.15) else c) for c in e.split("."))
            ent.append(e)
        try:
            soup = real_parse(text, opts)
        except Exception as e:
            ctx.violation(f"parsing a written document raised {type(e).__name__}: {e}", case={"text": text, "opts": opts}, stream="writer")
            continue
        from . import heapsim as _hs
        lmsg = _hs.oracle_c01(c03.SoupWorld(soup))
        if lmsg:
            ctx.violation("the parsed document is not one consistent tree (C01's oracle on this parse): " + lmsg, case={"text": text, "opts": opts},
                          observed=lmsg, stream="writer")
        got = shape(soup)
        evs = record(text)
        if evs is None:
            ctx.violation("the tokenizer rejected a written document", case={"text": text, "opts": opts}, stream="writer", no_failing_input=True)
            continue
        # the independent fold (an empty text is no event at all: it is not among the intended events)
        exp = intended([nd for nd in nodes if nd != ("t", "")], iter(offsets), text) if not opts else None
        doc = doc_tokens(nodes, iter(offsets), text)
        cfg = cfg_tokens(opts)
        lines.append(f"c04 emit {cfg} {doc} {';'.join(ent) or '-'}")
        lines.append(f"c04 norm {cfg} {doc}")
        meta.append((text, opts, evs, got, exp))
        kinds = {e.split(".")[0][:1] for e in ent} | {c[:1] for e in ent for c in e.split(".")}
        for k in sorted(kinds & set("psrdhnc")):
            ctx.count("writer:choice:" + {"p": "<br>", "s": "<br/>", "r": "<br></br>", "d": "decimal", "h": "hex", "n": "named", "c": "chunk-cut"}[k])
        for e in ent:
            if e[:1] == "k" and len(e) > 1:
                ctx.count("writer:choice:keyword-" + ("upper" if "0" not in e else "lower" if "1" not in e else "mixed-case"))
        ctx.case(("writer", text, json.dumps(opts, sort_keys=True)),
                 sample={"text": text, "choices": ";".join(ent)[:200], "tree": got[:200]} if len(ctx.samples) < 8 else None)
    rep = drv.ask(lines)
    for j, (text, opts, evs, got, exp) in enumerate(meta):
        em, nm = rep[2 * j], rep[2 * j + 1]
        case = {"text": text, "opts": opts}
        a, b = merge_data(evs), merge_data([] if em == "-" else em.split(";"))
        if a != b:
            ctx.corr_disagreements += 1
            ctx.violation("the tokenizer's callbacks on the written text are not the stream `emit` of the model", case=case,
                          observed=";".join(a), model=";".join(b), stream="writer-emit", no_failing_input=True)
        if exp is not None and got != exp:
            ctx.violation("tree differs from the tree the markup describes (fold of the writer's intended events)",
                          case=case, expected=exp, observed=got, stream="writer")
        if got != nm:
            ctx.corr_disagreements += 1
            ctx.violation("real parse differs from `normalise` of the written document", case=case, observed=got, model=nm,
                          expected=exp, stream="writer-norm", no_failing_input=(exp is None or got == exp))
    ctx.count("writer:documents", len(meta))

    # the excluded points, on the real code: (markup, document, choices, what is excluded)
    big = 4400
    excluded = [
        ("void-element-with-child", "<br>x</br>", [("e", "br", [], [("t", "x")])], "r;l"),
        ("element-named-like-root", "<[document]>x</[document]>", [("e", "[document]", [], [("t", "x")])], "o;l"),
        ("numeric-128-159-cp1252-detour", "&#150;", [("t", "\x96")], "d0"),
        ("numeric-hex-cp1252-detour", "&#x80;", [("t", "\x80")], "h000"),
        ("decimal-longer-than-int-max-str-digits", "&#" + "0" * big + "65;", [("t", "A")], f"d{big}"),
        ("name-not-in-table", "&nosuch;", [("t", "x")], "n" + cps("nosuch")),
        ("name-of-another-character", "&lt;", [("t", "x")], "n" + cps("lt")),
    ]
    lines, meta = [], []
    for what, text, nodes, choices in excluded:
        offsets = []
        # offsets of the start tags: every excluded document has at most one element, at offset 0
        doc = doc_tokens(nodes, iter([0] * 4), text)
        lines.append(f"c04 emit {cfg_tokens({})} {doc} {choices}")
        lines.append(f"c04 norm {cfg_tokens({})} {doc}")
        meta.append((what, text))
    rep = drv.ask(lines)
    for j, (what, text) in enumerate(meta):
        em, nm = rep[2 * j], rep[2 * j + 1]
        got = shape(real_parse(text, {}))
        same_stream = merge_data(record(text) or []) == merge_data([] if em == "-" else em.split(";"))
        ctx.count(f"excluded:{what}:" + ("conclusion-fails-on-the-real-code" if got != nm else "CONCLUSION-HOLDS(exclusion-not-forced)")
                  + (":stream-as-emitted" if same_stream else ":not-writable"))


# ------------------------------------------------------------------------------------------------
# written documents with <script>/<style> (Props/C04 parse_of_written_document_raw, raw_text_element_tokens)
# ------------------------------------------------------------------------------------------------
RAW_ATOMS = ["a", " ", "\n", "<", ">", "&", "&amp;", "&#60;", "</", "</p>", "<p>", "<!--", "-->", "x = \"</p>\";", "if (a < b && c) {", "}",
             "</s", "</S", "</sc", "</ script", "</\n", "</\t", "</ p", "</script", "</script>", "</SCRIPT>", "</script >", "</scripts>", "</style",
             "</style>", "</STYLE >", "</t", "</\u017f", "/", "s", "\u017f", "]]>", "<![CDATA[", "<?"]


def py_raw_text_ok(name, t):
    """Python mirror of `Model/WriterText.lean: rawTextOK` (tied to it by the `c04 rawok` op): every `</` in `t + "<"` is followed by a
    character that is neither whitespace (str.isspace) nor, under re.I, the first letter of the element's name."""
    import re as _re
    first = _re.compile(_re.escape(name[0]), _re.I)
    u = t + "<"
    for i in range(len(u) - 2):
        if u[i] == "<" and u[i + 1] == "/":
            ch = u[i + 2]
            if ch.isspace() or first.fullmatch(ch):
                return False
    return True


def raw_text_stream(ctx, drv, tk_texts):
    """Documents of `gen_tree` in which every script/style element gets ONE text child made of RAW_ATOMS (on both sides of `rawTextOK`),
    written in `plain` mode (raw text verbatim). Checked: Lean `rawTextOK` = its Python mirror; Lean `WritableRaw` = "no raw text fails
    the mirror" and Lean `writeText` = the Python writer's text; where `WritableRaw` holds the theorem's conclusion on the REAL code:
    recorder(text) = `emit` up to data chunking, real parse = `normalise` = the fold of the intended events, every raw text ONE string of
    class Script / Stylesheet (direct oracle). Where it does not hold: how often the conclusion fails (the condition is sufficient, not
    necessary). The texts also go to the tokenizer-model stream."""
    from bs4.element import Script, Stylesheet
    lines, meta, oklines, okmeta = [], [], [], []
    for i in range(ctx.n(1200, 12000)):
        r = ctx.rng("written-raw", i)
        x = ctx.rng("written-raw-extra", i)
        nodes = gen_tree(r)
        raws = []

        def fill(ns):
            for j, nd in enumerate(ns):
                if nd[0] == "e" and nd[1] in ("script", "style"):
                    t = "".join(x.choice(RAW_ATOMS) for _ in range(x.randint(0, 5)))
                    if x.random() < 0.5:
                        t = t.replace("</s", "<s").replace("</S", "<S")
                    ns[j] = ("e", nd[1], nd[2], [("t", t)])
                    raws.append((nd[1], t))
                elif nd[0] == "e":
                    fill(nd[3])
        fill(nodes)
        if not raws:
            nm = x.choice(["script", "style"])
            t = "".join(x.choice(RAW_ATOMS) for _ in range(x.randint(0, 5)))
            nodes.insert(x.randint(0, len(nodes)), ("e", nm, [], [("t", t)]))
            raws.append((nm, t))
        log = ChoiceLog(ctx.rng("written-raw-choices", i))
        offsets = []
        text = write(r, nodes, offsets, [0], log=log, plain=True)
        tk_texts.setdefault(text, None)
        doc = doc_tokens(nodes, iter(offsets), text)
        ent = ";".join(log.entries) or "-"
        lines.append(f"c04 wraw {cfg_tokens({}).split()[0]} {doc} {ent}")
        lines.append(f"c04 emit {cfg_tokens({})} {doc} {ent}")
        lines.append(f"c04 norm {cfg_tokens({})} {doc}")
        meta.append((text, nodes, offsets, raws))
        for nm, t in raws:
            oklines.append(f"c04 rawok {cps(nm)} {cps(t) or '-'}")
            okmeta.append((nm, t))
    rep = drv.ask(oklines)
    for (nm, t), b in zip(okmeta, rep):
        if (b == "1") != py_raw_text_ok(nm, t):
            ctx.corr_disagreements += 1
            ctx.violation("Lean rawTextOK differs from its Python mirror", case={"name": nm, "text": t}, model=b, stream="written-raw",
                          no_failing_input=True)
    rep = drv.ask(lines)
    for j, (text, nodes, offsets, raws) in enumerate(meta):
        wr, w, mtext = rep[3 * j].split("|")
        em, nm_ = rep[3 * j + 1], rep[3 * j + 2]
        case = {"text": text}
        ok = all(py_raw_text_ok(nm, t) for nm, t in raws)
        if (wr == "1") != ok or w != "0":
            ctx.corr_disagreements += 1
            ctx.violation(f"WritableRaw is {wr} (Writable {w}) for a document whose raw texts are {'all' if ok else 'not all'} rawTextOK",
                          case=case, stream="written-raw", no_failing_input=True)
        if uncps(mtext) != text:
            ctx.corr_disagreements += 1
            ctx.violation("Lean writeText differs from the Python writer's plain text (document with script/style)", case=case,
                          observed=text, model=uncps(mtext), stream="written-raw", no_failing_input=True)
        evs = record(text)
        same_stream = evs is not None and merge_data(evs) == merge_data([] if em == "-" else em.split(";"))
        try:
            soup = real_parse(text, {})
            got = shape(soup)
        except Exception as e:
            soup, got = None, f"raised {type(e).__name__}"
        def noempty(ns):
            return [(nd[0], nd[1], nd[2], noempty(nd[3])) if nd[0] == "e" else nd for nd in ns if nd != ("t", "")]
        exp = intended(noempty(nodes), iter(offsets), text)
        # direct oracle of the statement about raw text: one string child of the container's class with exactly the written text
        direct = soup is not None
        if soup is not None:
            els = [el for el in soup.find_all(["script", "style"])]
            direct = len(els) == len(raws)
            for el, (nm, t) in zip(els, raws):
                kids = list(el.contents)
                want_cls = Script if nm == "script" else Stylesheet
                # the builder's rule for a string of ASCII whitespace only outside <pre>/<textarea> (`normalise`; C03): one "\n" or " "
                want = t if t.strip(" \n\t\x0c\r") else ("\n" if "\n" in t else " ")
                if el.name != nm or (len(kids) != (1 if t else 0)) or (t and (type(kids[0]) is not want_cls or str(kids[0]) != want)):
                    direct = False
        holds = same_stream and got == nm_ and got == exp and direct
        if ok:
            ctx.case(("written-raw", text), sample={"text": text[:200], "tree": got[:200]} if len(ctx.samples) < 10 else None)
            ctx.count("written-raw:WritableRaw")
            if any("<" in t or "&" in t for _, t in raws):
                ctx.count("written-raw:WritableRaw:text-with-<-or-&")
            if any("</" in t for _, t in raws):
                ctx.count("written-raw:WritableRaw:text-with-</")
            if not holds:
                what = ("the tokenizer's callbacks are not `emit`" if not same_stream else "the real parse is not `normalise`" if got != nm_
                        else "the tree differs from the tree the markup describes" if got != exp
                        else "a raw text is not ONE Script/Stylesheet string with the written text")
                ctx.violation("parse_of_written_document_raw fails on the real code: " + what, case=case, observed=got, model=nm_, expected=exp,
                              stream="written-raw")
        else:
            ctx.case(None)
            ctx.count("written-raw:not-WritableRaw:" + ("conclusion-fails-on-the-real-code" if not holds else "conclusion-holds(condition-is-sufficient-only)"))
    ctx.count("written-raw:documents", len(meta))


SOUP_TOKENS = ["<", ">", "</", "/>", "<a", "<b", "<br", "<br>", "<br/>", "</br>", "<p>", "</p>", "</a>", "<pre>", "</pre>", "<script>",
               "</script>", "<textarea>", "x", " ", "\n", "=", "\"", "'", "&", "&#", "&#x", "&amp;", "&lt", "&#65;", "&#150;", "&#x110000;",
               "&#0;", "&#xD800;", ";", "<!--", "-->", "--", "<![CDATA[", "]]>", "<!DOCTYPE html>", "<!doctype", "<!x>", "<?", "?>", "<![if x]>",
               "id", "k=v", "k='v'", "k=\"v\" k=w", "é", "&eacute;", "&notit;", "&nosuch;", "<img src=x>", "<hr/>", "<input", "</input>",
               "<rt>", "<style>", "</style>", "</", "<a/>", "<A HREF=X>", "\r\n", "\x00",
               # marked sections whose keyword is not upper case (the tokenizer reports them through the same callback)
               "<![cdata[", "<![CData[x]]>", "<![cdata[a<b]]>", "<![Cdata[]]>", "<![CDATA [x]]>", "<![ CDATA[x]]>",
               # nodes the parser leaves EMPTY inside whitespace-preserving elements, followed by text; odd whitespace
               "<pre><!---->x", "<textarea><![CDATA[]]>y", "<pre><?>z<!---->w</pre>", "&#11;", "\x0b", "&#x1c; ", "<p>\x0b</p>",
               # one attribute several times in a start tag, with and without a value (a value-less one is the empty string to every
               # on_duplicate_attribute policy: replace, ignore, callable)
               "<a id id=1 id>", "<b k k>", "<i class=x class>", "<p rel=x rel rel=y>", "<img src src=u src>", "<td k=1 K=2 k>"]


def _cp1252_ok(n):
    try:
        bytes([n]).decode("windows-1252")
        return True
    except UnicodeDecodeError:
        return False


def gen_soup(r):
    return "".join(r.choice(SOUP_TOKENS) for _ in range(r.randint(1, 14)))


def run(ctx: Ctx):
    ctx.rule = ("(1) written documents: random tree (ordinary/void/preserve/container elements, attributes, text over an alphabet rich in "
                "& < > quotes entity look-alikes non-ASCII multi-code-point controls, comments, CDATA, PI) written with random void spelling, "
                "quoting, entity spelling, in-tag whitespace, name case; real parse vs fold of the intended events and vs the Lean model fed with "
                "the recorded stdlib callbacks. (2) malformed: token soup of 65 fragments; real parse vs model and vs an independent Python "
                "adapter+fold over the recorded callbacks. (3) option grid: on_duplicate_attribute x empty_element_tags x containers x "
                "preserve x store_line_numbers. (5) writer: gen_tree documents (+ doctype, <![if ..]> declarations, empty texts) written with the "
                "choices LOGGED (void spelling, per-character reference spelling with leading zeros, keyword case), 8 option sets; recorder(text) = "
                "Lean emit(doc, choices) up to data chunking, real parse = Lean normalise(doc) = independent fold; 7 excluded points run on the "
                "real code. non-trivial = contains a void element, a reference, a special string or a stray end tag; every writer document")
    ctx.assumptions = ["CPython's html.parser callback stream is recorded per text; the Lean tokenizer model (Model/Tokenizer.lean) reproduces it on every "
                       "text of this run (stream tokenizer-model), so the adapter theorems apply to `callbacks (Tokenizer.run text)`",
                       "str input (original_encoding None)"]
    drv = Driver()
    lines, impls, cases = [], [], []
    tk_texts = {}          # every text of every stream, for the tokenizer-model stream (the Lean tokenizer vs the recorder)

    def add_case(text, opts, stream, expected=None):
        tk_texts.setdefault(text, None)
        try:
            soup = real_parse(text, opts)
        except Exception as e:
            from bs4.exceptions import ParserRejectedMarkup
            if isinstance(e, ParserRejectedMarkup):
                ctx.count(stream + ":rejected")
                return
            ctx.violation(f"parsing raised {type(e).__name__}: {e}", case={"text": text, "opts": opts}, stream=stream)
            return
        from . import heapsim as _hs
        lmsg = _hs.oracle_c01(c03.SoupWorld(soup))
        if lmsg:
            ctx.violation("the parsed document is not one consistent tree (C01's oracle on this parse): " + lmsg, case={"text": text, "opts": opts},
                          observed=lmsg, stream=stream)
        got = shape(soup)
        evs = record(text)
        if evs is None:
            ctx.count(stream + ":recorder-rejected")
            return
        nontriv = any(e[:2] in ("SE", "CR", "ER", "CM", "UD", "DL", "PI") for e in evs) or any(
            e.startswith("ST|") and uncps(e.split("|")[1]) in VOID for e in evs) or any(e.startswith("ET|") for e in evs)
        ctx.case((stream, text, json.dumps(opts, sort_keys=True)) if nontriv else None,
                 sample={"text": text, "opts": opts, "tree": got[:300]} if nontriv and len(ctx.samples) < 6 else None)
        for e in evs:
            ctx.count("cb:" + e.split("|")[0])
        want = py_adapter_fold(evs, opts)
        if got != want:
            ctx.violation("tree differs from the documented fold of the parser's callback stream",
                          case={"text": text, "opts": opts}, expected=want, observed=got, stream=stream)
        if expected is not None and got != expected:
            ctx.violation("tree differs from the tree the markup describes (fold of the writer's intended events)",
                          case={"text": text, "opts": opts}, expected=expected, observed=got, stream=stream)
        lines.append(f"c04 adapt {cfg_tokens(opts)} {';'.join(evs) if evs else '-'}")
        impls.append(got)
        cases.append({"text": text, "opts": opts})

    # corpus first
    import glob, os
    for f in sorted(glob.glob(os.path.join(os.path.dirname(__file__), "..", "corpus", "C04", "*.json"))):
        c = json.load(open(f))
        add_case(c["text"], c.get("opts", {}), "corpus")
    # (1) written documents
    for i in range(ctx.n(3000, 50000)):
        r = ctx.rng("written", i)
        nodes = gen_tree(r)
        offsets = []
        text = write(r, nodes, offsets, [0])
        exp = intended(nodes, iter(offsets), text)
        add_case(text, {}, "written", expected=exp)
    # (2) malformed
    for i in range(ctx.n(3000, 50000)):
        r = ctx.rng("soup", i)
        add_case(gen_soup(r), {}, "malformed")
    # (2b) void elements in every mixture, exhaustively: each open-form void tag cancels exactly ONE later redundant end tag of its
    # name (a multiset, not a set), a surplus end tag is a stray one (it still ends the text gathered so far)
    import itertools as _it
    for n in range(1, ctx.n(6, 7) + 1):
        for seq in _it.product(["<br>", "</br>", "x", "<br/>"], repeat=n):
            add_case("".join(seq), {}, "void-mixtures")
    # k tags of one name pending at once, then their end tags one by one with text between them (seeded C04-r4m2 needs two pending
    # tags AND text on both sides of the second end tag)
    for k in (2, 3, 4):
        for nm in ("br", "hr", "img", "wbr"):
            for fill in ("a", " ", "a b"):
                add_case(f"<{nm}>" * k + "".join(f"{fill}</{nm}>" for _ in range(k + 1)) + fill, {}, "void-mixtures")
                add_case("<p>" + f"<{nm}>x" * k + "".join(f"</{nm}>{fill}" for _ in range(k)) + "</p>", {}, "void-mixtures")
    for seq in _it.product(["<hr>", "</hr>", "<br>", "</br>", " "], repeat=4):
        add_case("a" + "".join(seq) + "b", {"void": ["hr", "br", "a"]} if len(set(seq)) % 2 else {}, "void-mixtures")
    # (3) option grid on written + malformed documents
    grid = []
    for dup in ("replace", "ignore", "acc"):
        for void in (VOID_DEFAULT(), "*", ["a", "br"], []):
            # the last one has a name in BOTH tables (the stock sets are disjoint): both context stacks are popped when it closes
            for cont, pre in ((CONT, PRES), ({}, []), ({"b": 1, "pre": 6}, ["a"]), ({"pre": 6, "b": 9, "script": 6}, ["pre", "b"])):
                for ln in (1, 0):
                    grid.append({"dup": dup, "void": void, "cont": cont, "pre": pre, "lines": ln})
    for i in range(ctx.n(1500, 20000)):
        r = ctx.rng("grid", i)
        opts = r.choice(grid)
        if r.random() < 0.5:
            nodes = gen_tree(r)
            text = write(r, nodes, [], [0])
        else:
            text = gen_soup(r)
        if r.random() < 0.5:
            text += "<a k=1 k=2 K=3 j k='4'>"
        add_case(text, opts, "grid")
    # (4) references, exhaustively: every numeric reference below 0x300 and at the range boundaries in every spelling, every name of
    #     the standard library's HTML5 table, and near-names (every proper prefix of a name that is not itself a name, names with one
    #     more letter) with every terminator; str input and bytes input in a declared encoding (original_encoding set)
    nums = list(range(0, 0x300)) + [0xD7FF, 0xD800, 0xDBFF, 0xDFFF, 0xE000, 0xFFFD, 0xFFFE, 0xFFFF, 0x10000, 0x1FFFF, 0x10FFFF,
                                    0x110000, 0x7FFFFFFF, 0x80000000, 0xFFFFFFFF, 2 ** 64, 10 ** 30]
    def num_forms(n, r):
        return [f"&#{n};", f"&#x{n:x};", f"&#X{n:X};", f"&#{'0' * r.randint(1, 3)}{n};", f"&#x{'0' * r.randint(1, 3)}{n:X};", f"&#{n} ", f"&#x{n:x}<"]
    r = ctx.rng("refs", 0)
    pieces = []
    for n in nums:
        fs = num_forms(n, r)
        pieces += fs if ctx.tier == "thorough" else [fs[0], fs[1], r.choice(fs[2:])]
    names = sorted(ENTITY_DENOTES)
    near = set()
    for nm in names:
        for k in range(1, len(nm)):
            if nm[:k] not in ENTITY_DENOTES:
                near.add(nm[:k])
        near.add(nm + "x")
    near = sorted(near)
    terms = [";", " ", "=", "<i>", ""]
    for nm in names:
        pieces.append(f"&{nm};")
        pieces += [f"&{nm}{t}" for t in (terms[1:] if ctx.tier == "thorough" else [r.choice(terms[1:])])]
    for nm in near:
        pieces += [f"&{nm}{t}" for t in (terms if ctx.tier == "thorough" else [r.choice(terms)])]
    ctx.count("refs:numeric-values", len(nums)); ctx.count("refs:names", len(names)); ctx.count("refs:near-names", len(near))
    r.shuffle(pieces)
    G = 12
    for off in range(0, len(pieces), G):
        text = "".join(f"<p>a{x}b</p>" for x in pieces[off:off + G])
        add_case(text, {}, "references")
    # digit strings beyond sys.int_max_str_digits (decimal only is limited) and enormous hex
    import sys as _sys
    lim = _sys.get_int_max_str_digits() or 4300
    for x in ("&#" + "9" * lim + ";", "&#" + "9" * (lim + 1) + ";", "&#x" + "f" * (lim + 50) + ";", "&#" + "0" * (lim + 5) + "65;"):
        add_case(f"<p>a{x}b</p>", {}, "references")
    # bytes input: the n < 256 that windows-1252 cannot decode take the document's own encoding
    undefined = sorted(n for n in range(256) if n not in {k for k in range(256) if _cp1252_ok(k)})
    for enc in ("utf-8", "iso-8859-1", "windows-1251", "koi8-r", "iso-8859-7", "cp437", "mac-roman", "shift_jis", "windows-1252", "ascii"):
        body = "".join(f"<p>a&#{n};b&#x{n:x};c</p>" for n in undefined + [65, 128, 150, 159, 160, 233, 255, 256, 0x20AC])
        add_case(body, {"enc": enc}, "references-bytes")
        for i in range(ctx.n(20, 200)):
            r2 = ctx.rng("refs-bytes", enc, i)
            nodes = gen_tree(r2)
            t2 = write(r2, nodes, [], [0])
            t2 = "".join(ch for ch in t2 if ord(ch) < 128) + f"&#{r2.choice(undefined)};"
            add_case(t2, {"enc": enc}, "references-bytes")
    # tokenizer-model: the callback stream this check records is also what the Lean model of the tokenizer (Model/Tokenizer.lean, theorems in
    # Props/TK.lean) computes from the text - on every text of every stream above, rejected ones included
    from . import tk
    # written documents with <script>/<style> (parse_of_written_document_raw); their texts join the tokenizer-model stream
    raw_text_stream(ctx, drv, tk_texts)
    tk.stream(ctx, list(tk_texts), name="tokenizer-model", drv=drv)
    # parse_of_written_document: Lean writeText = the Python writer's plain text, Writable holds, derivedPos = the writer's offsets,
    # recorder(text) = Lean tokenizer(text) = emit (up to data chunking), ParamsOK for the real str.lower / html.unescape
    tk.written_stream(ctx, drv)
    # (5) the whole-document theorem: recorder = emit, real parse = normalise, for the writer's actual choices
    writer_stream(ctx, drv)
    mva_stream(ctx)
    B = 20000
    for off in range(0, len(lines), B):
        rep = drv.ask(lines[off:off + B])
        for l, a, b, c in zip(lines[off:off + B], impls[off:off + B], rep, cases[off:off + B]):
            if a != b:
                ctx.corr_disagreements += 1
                evs = record(c["text"])
                want = py_adapter_fold(evs, c["opts"])
                ctx.violation("model and implementation disagree on the tree", case=c, observed=a, model=b, expected=want,
                              stream="correspondence", no_failing_input=(a == want))


def replay(path):
    v = json.load(open(path))
    c = v["case"]
    if c.get("op") == "mva":
        msg = mva_compare(c["text"], c["mva"])
        print("text:", repr(c["text"])); print("multi_valued_attributes:", MVA_CONFIGS[c["mva"]]); print(msg or "as documented")
        return 1 if msg else 0
    if "text" not in c:
        print(json.dumps(v, indent=1)[:3000]); return 1
    soup = real_parse(c["text"], c.get("opts", {}))
    got = shape(soup)
    evs = record(c["text"])
    want = py_adapter_fold(evs, c.get("opts", {}))
    print("text:", repr(c["text"])); print("callbacks:", evs); print("implementation:", got); print("documented fold:", want)
    if v.get("expected") and v["expected"] != want:
        print("writer's intended tree:", v["expected"])
        return 0 if got == v["expected"] else 1
    return 0 if got == want else 1
