"""C05 — serialising and re-parsing gives the same tree back.

Real `decode()/decode_contents()/str()/encode()` of every element of parsed (html.parser) and API-built/edited trees, HTML
and XML flavoured, under every registry formatter, against the Lean code-mirror (pure correspondence); the real re-parse
of the rendered text against (a) an independent Python normaliser (the property statement: same elements, attributes,
text, special strings modulo the documented normalisations; second round trip changes nothing; an element with children
never renders as an empty-element tag; script/style text verbatim) and (b) the Lean `emitR`/`build`/`normaliseL`
(the real tokenizer events of the real rendered text are recorded and compared with `emitR`)."""
import json
import re
import warnings

from .common import Ctx, Driver

MANIFEST = dict(
    text=("Lean theorems, for all trees (own inductive tree type: tags with name, prefix, ordered attributes with str/list/None "
          "values, can_be_empty_element, hidden; strings of the 13 classes), all formatters (substitution function, void prefix, "
          "cdata-containing tags, empty-attributes-are-booleans as parameters) and all class tables. RENDERING: _event_stream — the "
          "explicit tag stack over the pre-order element chain with parent links — yields exactly the structural event list "
          "(event_stream_eq_spec; net effect of a balanced block), hence decode()/decode_contents() = the structural recursion "
          "(decode_eq_render, decode_contents_eq); for every element of every tree an EMPTY event / void form only for a childless "
          "element that can be empty, START+END without void slash for any element with children (events_classified, "
          "never_empty_everywhere, never_empty_with_children, childless_forms); every string child of a cdata-containing element is "
          "emitted verbatim under every substitution function (cdata_verbatim, cdata_verbatim_children) and every HTML registry "
          "formatter has exactly script/style as such (registry_cdata_tags, cdata_verbatim_live); formatter resolution mirrored "
          "(formatter_for_name, _is_xml: isXml_eq_spec, registry_lookup_live over both whole registries, formatter_for_callable, "
          "decode_keyerror, decodeTop_eq) and the XML flavour substitutes everywhere (xml_substitutes_everywhere); the generated class "
          "table is the markup the re-parse model presupposes, all 13 classes (class_table_live). ROUND TRIP at the event level: for "
          "every Representable forest (explicit decidable predicate), every builder configuration and formatter, bs4's parser side "
          "(handle_starttag/startendtag/endtag with already_closed_empty_element, endData whitespace rule, string containers, "
          "_popToTag, cdata-list attributes) fed the events of the rendered text builds exactly normaliseL (reparse_roundtrip); with "
          "the written text read back through C09's reader models the same holds unconditionally for 'minimal' and 'html' in both "
          "flavours (minimal_reader_laws, html_reader_laws, reparse_roundtrip_rd, reparse_roundtrip_registry; this model's "
          "substitute_xml/quoted_attribute_value are C09's: subst_quote_are_c09). NORMAL FORM: same elements, attributes (for dict "
          "attributes: sorted keys, written text, multi-valued split), visible text, special strings (same_elements, "
          "same_attributes, same_text, same_specials, wsRule_only_whitespace, wsRule_idem, txt_chunking). SECOND ROUND TRIP: the "
          "normal form is idempotent for every forest that is DoctypeStable (explicit decidable predicate), every formatter and "
          "every configuration satisfying ConfigOK, and for no other forest: complete characterisation normalise_idem_iff "
          "(normalise_not_idem via the exact growth count second_normalisation_growth) — attributes for all attribute lists "
          "(normalise_idem, normAttrs_idem, "
          "live_config_ok, second_roundtrip, second_roundtrip_fixpoint(_iff), representable_normal_form, registry_cdata_agree, "
          "parse_render_idempotent); without DoctypeStable it is false by a decided "
          "witness (doctype_text_not_fixpoint = known finding). Tie: differential runs on parsed and API-built/edited trees of both "
          "flavours (edits interleaved with renderings) under all registry formatters with the substitution functions computed by "
          "the model, every element as start; decode(formatter=arg) for registry keys incl. unknown ones, callables and Formatter "
          "objects under known_xml chains; the real html.parser event stream of the real rendered text against emitR; the real "
          "re-parse against build/normaliseL and the second against normalise∘normalise; independent Python oracle of the round "
          "trip, the second round trip, the empty-element rule, script/style verbatim and detached rendering; exhaustive small "
          "trees of identical tags for the `!=` stack comparison; the class/registry tables exhaustively; builder configurations "
          "empty_element_tags in {default, None, set(), {br}, {p,br}} on the first parse / new_tag and the re-parse (model: "
          "PCfg.voidAll/voidTags, driver op tripc); element names a refactoring might add to a cdata set (iframe, xmp, noembed, "
          "noframes, plaintext, noscript, textarea, title, template) with entity look-alikes and tag-like text inside; a bytes "
          "stream (Python oracle only): encode(enc) for eleven encodings, the bytes parsed again with from_encoding=enc or via the "
          "rewritten <meta charset>, same tree demanded; the live entity tables exhaustively on every run (every key of "
          "CHARACTER_TO_HTML_ENTITY, every regex alternative, every html.entities.codepoint2name character, every HTML5 value: alone "
          "and in context, as text and attribute value, under minimal/html/html5), each failure confirmed on a one-element "
          "document that is the replay. THROUGH THE TOKENIZER MODEL (C04): on the decidable class RenderWritable "
          "the text the 'minimal' formatter writes is character for character a text C04's writer writes under explicit choices "
          "(render_is_written), hence the code-mirror of CPython's tokenizer makes of it the callbacks of the written document "
          "(rendered_text_callbacks) and adapter + builder give the normal form (reparse_roundtrip_tokenized, "
          "normalise_is_c04_normalise, reparse_roundtrip_tokenized_normalise); the driver op `written` returns the class bit "
          "and the writer's text, compared with the real decode() on every round-trip case (about 42 % of the cases are inside)."),
    design="7/C05",
    note=("Outside RenderWritable (script/style, attribute values with < > or a lone double quote, <x/> for non-void names, "
          "<br></br>, the 'html' formatter) CPython's tokenizer enters as the recorded stream: its events for each rendered text "
          "are compared with emitR (tag/comment/declaration/PI tokenisation, CDATA-content mode); character data and attribute values are read back through "
          "C09's reader models in the Lean theorems. Representable is conservative (see Props docstring); it is preserved by the "
          "normal form (representable_normal_form), so parse_render_idempotent has no hypothesis about the intermediate tree. "
          "DoctypeStable is necessary and sufficient for idempotence; the doctype newline makes the unrestricted statement "
          "false (known finding). XML flavour is built by hand (no lxml) and re-parsed with html.parser; the XML declaration "
          "BeautifulSoup.decode prepends and charset substitution in <meta> are C08's; pretty-printing is C14's. html5 is rendered "
          "and compared but is outside the round-trip quantifier (its void form <br> is not modelled in emitR)."),
    technique="Lean 4 refinement proofs (stack machine = structural recursion; balanced-block net effect for the re-parse; lockstep re-absorption for idempotence) + differential correspondence + recorded tokenizer + direct Python oracle",
)

CLASSES = ["NavigableString", "PreformattedString", "CData", "ProcessingInstruction", "XMLProcessingInstruction",
           "Comment", "Declaration", "Doctype", "Stylesheet", "Script", "TemplateString", "RubyTextString",
           "RubyParenthesisString"]
TEXT_CLASSES = {"NavigableString", "Stylesheet", "Script", "TemplateString", "RubyTextString", "RubyParenthesisString"}

# ---- the property's HTML facts, hard-coded (NOT read from the live tables) ---------------------------------------
P_VOID = {"area", "base", "br", "col", "embed", "hr", "img", "input", "keygen", "link", "menuitem", "meta", "param",
          "source", "track", "wbr", "basefont", "bgsound", "command", "frame", "image", "isindex", "nextid", "spacer"}
# the builder configuration of the case at hand (first parse / new_tag and the re-parse use the same one):
# "D" = default empty_element_tags, "N" = None (every tag may be an empty-element tag), or a list of names (possibly empty)
CUR = {"eet": "D"}


def set_config(recipe):
    CUR["eet"] = recipe.get("eet", "D") if isinstance(recipe, dict) else "D"


def is_void(nm):
    e = CUR["eet"]
    if e == "D":
        return nm in P_VOID
    if e == "N":
        return True
    return nm in e


def builder_kwargs():
    e = CUR["eet"]
    if e == "D":
        return {}
    return {"empty_element_tags": None if e == "N" else set(e)}


def cfg_tok():
    e = CUR["eet"]
    if e in ("D", "N"):
        return e
    return ";".join(dots(x) for x in e) or "-"


P_PRESERVE = {"pre", "textarea"}
P_CONTAINERS = {"script": "Script", "style": "Stylesheet", "template": "TemplateString", "rt": "RubyTextString",
                "rp": "RubyParenthesisString"}
P_RAW = {"script", "style"}
P_CDATA_LIST = {"*": {"class", "accesskey", "dropzone"}, "a": {"rel", "rev"}, "link": {"rel", "rev"},
                "td": {"headers"}, "th": {"headers"}, "form": {"accept-charset"}, "object": {"archive"},
                "area": {"rel"}, "icon": {"sizes"}, "iframe": {"sandbox"}, "output": {"for"}}
ASCII_SPACES = " \n\t\x0c\r"

HTML_FORMATTERS = ["minimal", "html", None, "html5", "html5-4.12"]
XML_FORMATTERS = ["minimal", "html", None]
ROUNDTRIP_FORMATTERS = ["minimal", "html"]      # the property's quantifier

_E = {}


def E():
    if _E:
        return _E
    import bs4
    import bs4.element as el
    from bs4.builder import _htmlparser
    from bs4.dammit import EntitySubstitution
    from bs4.formatter import HTMLFormatter, XMLFormatter
    _E.update(bs4=bs4, el=el, BeautifulSoup=bs4.BeautifulSoup, Tag=el.Tag, NS=el.NavigableString, hp=_htmlparser,
              ES=EntitySubstitution, HF=HTMLFormatter, XF=XMLFormatter,
              cls={n: getattr(el, n) for n in CLASSES})
    return _E


def cps(s):
    return ",".join(str(ord(c)) for c in s) if s else "-"


def dots(s):
    return ".".join(str(ord(c)) for c in s) if s else "e"


# --------------------------------------------------------------------------------------------------------------
# neutral structure read off the real objects
# --------------------------------------------------------------------------------------------------------------
def struct(node):
    """("T", name, prefix, [(k, v)], cbe, hidden, [kids]) | ("S", class name, text); v: None | str | [str]"""
    e = E()
    if isinstance(node, e["Tag"]):
        attrs = []
        for k, v in (node.attrs or {}).items():
            if isinstance(v, e["el"].AttributeValueWithCharsetSubstitution):
                raise ValueError("charset substitution value (C08's subject)")
            if v is None:
                attrs.append((str(k), None))
            elif isinstance(v, (list, tuple)):
                attrs.append((str(k), [str.__str__(x) if isinstance(x, str) else str(x) for x in v]))
            else:
                attrs.append((str(k), str.__str__(v) if isinstance(v, str) else str(v)))
        return ("T", node.name, node.prefix, attrs, node.can_be_empty_element is True, bool(node.hidden),
                [struct(c) for c in node.contents])
    name = type(node).__name__
    if name not in CLASSES or getattr(e["el"], name) is not type(node):
        raise ValueError("string class unknown to the model: " + name)
    return ("S", name, str.__str__(node))


def val_tok(v):
    if v is None:
        return "N"
    if isinstance(v, list):
        return "l" + "/".join((cps(x) if x else "-") for x in v)
    return "s" + (cps(v) if v else "")


def node_tokens(st, out):
    if st[0] == "S":
        out.append(f"S {CLASSES.index(st[1])} {cps(st[2])}")
        return
    _, name, prefix, attrs, cbe, hidden, kids = st
    pf = "N" if prefix is None else ("e" if prefix == "" else cps(prefix))
    s = f"T {cps(name)} {pf} {int(cbe)}{int(hidden)} {len(attrs)}"
    for k, v in attrs:
        s += f" {cps(k)} {val_tok(v)}"
    s += f" {len(kids)}"
    out.append(s)
    for k in kids:
        node_tokens(k, out)


def tree_tokens(st):
    out = []
    node_tokens(st, out)
    return " ".join(out)


def forest_tokens(sts):
    out = [str(len(sts))]
    for s in sts:
        node_tokens(s, out)
    return " ".join(out)


def wrap_root(sts):
    return ("T", "[document]", None, [], False, True, list(sts))


def tags_preorder(st, acc=None):
    acc = [] if acc is None else acc
    if st[0] == "T":
        acc.append(st)
        for k in st[6]:
            tags_preorder(k, acc)
    return acc


def size(st):
    return 1 if st[0] == "S" else 1 + sum(size(k) for k in st[6])


def model_ok(st):
    """can the tree be written on a protocol line at all (names without spaces are not required: everything is code points)"""
    return True


# --------------------------------------------------------------------------------------------------------------
# the property statement in Python (independent of the Lean model)
# --------------------------------------------------------------------------------------------------------------
def o_ws(s, pres):
    if not pres and all(c in ASCII_SPACES for c in s):
        return "\n" if "\n" in s else " "
    return s


def o_full(st):
    return (st[2] + ":" if st[2] else "") + st[1]


def o_is_list_attr(tag, attr):
    return attr in P_CDATA_LIST["*"] or attr in P_CDATA_LIST.get(tag, ())


def o_attrs(tag, attrs):
    out = []
    for k, v in sorted(attrs, key=lambda kv: kv[0]):
        if v is None:
            v = ""
        elif isinstance(v, list):
            v = " ".join(v)
        out.append((k, re.findall(r"\S+", v) if o_is_list_attr(tag, k) else v))
    return out


def o_normalise(forest, pres=False, cont=None, decl_as_pi=False):
    """the documented normal form of a forest after render + parse with html.parser"""
    out, buf = [], []

    def flush():
        if buf:
            out.append(("S", cont or "NavigableString", o_ws("".join(buf), pres)))
            buf.clear()
    for st in forest:
        if st[0] == "S":
            c, s = st[1], st[2]
            if c in TEXT_CLASSES or c == "PreformattedString":
                if s:
                    buf.append(s)
                continue
            flush()
            tail = None
            if c == "XMLProcessingInstruction" or (c == "Declaration" and decl_as_pi):
                c, s = "ProcessingInstruction", s + "?"
                if st[1] == "Declaration" and ">" in s:
                    # known-finding mode only: '<?' + s + '?>' read as a processing instruction ends at the first '>'
                    s, tail = s[:s.index(">")], s[s.index(">") + 1:] + ">"
            out.append(("S", c, o_ws(s, pres)))
            if c == "Doctype":
                buf.append("\n")
            if tail:
                buf.append(tail)
        else:
            flush()
            nm = o_full(st)
            out.append(("T", nm, None, o_attrs(nm, st[3]), is_void(nm), False,
                        o_normalise(st[6], pres or nm in P_PRESERVE, P_CONTAINERS.get(nm, cont), decl_as_pi)))
    flush()
    return out


TAG_RE = re.compile(r"[a-z][-.a-z0-9:_]*\Z")
ATTR_RE = re.compile(r"[a-z_:][-.a-z0-9:_]*\Z")


def o_representable(forest, xml):
    """-> None if representable, else the first reason (same predicate as the Lean `representableL`, written independently)"""
    for st in forest:
        if st[0] == "S":
            c, s = st[1], st[2]
            if c == "PreformattedString":
                return "bare-preformatted"
            if c in TEXT_CLASSES:
                if not s:
                    return "empty-string"
                continue
            if c == "Comment":
                if "--" in s or s.endswith("-") or s.startswith(">") or s.startswith("->"):
                    return "comment-dashes"
            elif c == "CData":
                if "]" in s or ">" in s:
                    return "cdata-bracket"
            elif ">" in s:
                return "gt-in-" + c
        else:
            nm = o_full(st)
            if st[5]:
                return "hidden-element"
            if not TAG_RE.match(nm):
                return "tag-name"
            if is_void(nm) and st[6]:
                return "void-with-children"
            writer_raw = (not xml) and st[1] in P_RAW
            if writer_raw != (nm in P_RAW):
                return "raw-mismatch"
            keys = [k for k, _ in st[3]]
            if len(set(keys)) != len(keys):
                return "duplicate-attribute"
            if not all(ATTR_RE.match(k) for k in keys):
                return "attribute-name"
            if nm in P_RAW:
                # the reader takes the content of script/style as it stands: text only, and no `</` in what is written
                for k in st[6]:
                    if k[0] == "T":
                        return "element-in-raw-text"
                    if k[1] not in TEXT_CLASSES:
                        return "special-in-raw-text" if k[1] != "PreformattedString" else "bare-preformatted"
                    if not k[2]:
                        return "empty-string"
                if "</" in "".join(k[2] for k in st[6]):
                    return "end-tag-in-raw-text"
            else:
                r = o_representable(st[6], xml)
                if r:
                    return r
    return None


def o_doctype_unstable(forest, pres=False):
    """the known finding's class of input: a doctype followed by text that is not whitespace-only, or any doctype
    inside pre/textarea"""
    merged = []
    for st in forest:
        if st[0] == "S" and (st[1] in TEXT_CLASSES or st[1] == "PreformattedString"):
            if merged and merged[-1][0] == "txt":
                merged[-1] = ("txt", merged[-1][1] + st[2])
            elif st[2]:
                merged.append(("txt", st[2]))
        else:
            merged.append(("node", st))
    for i, (k, v) in enumerate(merged):
        if k != "node":
            continue
        if v[0] == "S" and v[1] == "Doctype":
            if pres:
                return True
            if i + 1 < len(merged) and merged[i + 1][0] == "txt" and not all(c in ASCII_SPACES for c in merged[i + 1][1]):
                return True
        if v[0] == "T":
            nm = o_full(v)
            if o_doctype_unstable(v[6], pres or nm in P_PRESERVE):
                return True
    return False


def has_class(forest, name):
    for st in forest:
        if st[0] == "S":
            if st[1] == name:
                return True
        elif has_class(st[6], name):
            return True
    return False


# --------------------------------------------------------------------------------------------------------------
# the real tokenizer, recorded
# --------------------------------------------------------------------------------------------------------------
class _StubBuilder:
    attribute_dict_class = dict
    store_line_numbers = False


class _StubSoup:
    """records what bs4's string handlers hand to the BeautifulSoup object"""
    original_encoding = None
    builder = _StubBuilder()

    def __init__(self, log):
        self.log = log
        self.cur = []

    def handle_data(self, d):
        self.cur.append(d)

    def endData(self, cls=None):
        if self.cur:
            d = "".join(self.cur)
            self.cur = []
            if cls is None:
                self.log.append("D/" + dots(d))
            else:
                self.log.append(f"P/{CLASSES.index(cls.__name__)}/{dots(d)}")


def real_events(text):
    """tokenizer-level tag events + bs4-handler-level string events of `text` (CPython's HTMLParser, convert_charrefs=False,
    bs4's own handle_charref/entityref/comment/decl/unknown_decl/pi)"""
    e = E()
    log = []
    soup = _StubSoup(log)
    base = e["hp"].BeautifulSoupHTMLParser

    def attrs_tok(attrs):
        return "&".join(dots(k) + "=" + ("N" if v is None else "s" + dots(v)) for k, v in attrs) if attrs else "-"

    class Rec(base):
        def handle_starttag(self, name, attrs, handle_empty_element=True):
            soup.endData()
            log.append(f"B/{dots(name)}/{attrs_tok(attrs)}")
            if name in e["hp"].HTMLParser.CDATA_CONTENT_ELEMENTS:
                pass

        def handle_startendtag(self, name, attrs):
            soup.endData()
            log.append(f"X/{dots(name)}/{attrs_tok(attrs)}")

        def handle_endtag(self, name, check_already_closed=True):
            soup.endData()
            log.append(f"E/{dots(name)}")

    p = Rec(soup, convert_charrefs=False)
    p.feed(text)
    p.close()
    soup.endData()
    return log


def merge_data(evs):
    out = []
    for ev in evs:
        if ev.startswith("D/") and out and out[-1].startswith("D/"):
            a, b = out[-1][2:], ev[2:]
            a = "" if a == "e" else a
            b = "" if b == "e" else b
            out[-1] = "D/" + (".".join(x for x in (a, b) if x) or "e")
        else:
            out.append(ev)
    return out


# --------------------------------------------------------------------------------------------------------------
# building real trees
# --------------------------------------------------------------------------------------------------------------
def parse(markup, **kw):
    with warnings.catch_warnings():
        warnings.simplefilter("ignore")
        return E()["BeautifulSoup"](markup, "html.parser", **builder_kwargs(), **kw)


def make_node(soup, spec, xml):
    """spec: ["S", cls, text] | ["T", mode, name, prefix, attrs(list of [k, v]), cbe, kids]
    mode: "new_tag" (soup.new_tag: builder-made), "ctor" (Tag(builder=None, is_xml=…, can_be_empty_element=cbe)),
          "plain" (ctor + attrs replaced by a plain dict, so None values survive)"""
    e = E()
    if spec[0] == "S":
        return e["cls"][spec[1]](spec[2])
    _, mode, name, prefix, attrs, cbe, kids = spec
    ad = {k: py_value(v) for k, v in attrs}
    if mode == "new_tag":
        t = soup.new_tag(name, nsprefix=prefix, attrs={k: v for k, v in ad.items() if v is not None})
    else:
        t = e["Tag"](None, None, name, None, prefix, {k: v for k, v in ad.items() if v is not None} if mode == "ctor" else None,
                     is_xml=xml, can_be_empty_element=cbe)
        if mode == "plain":
            t.attrs = dict(ad)
    for k in kids:
        t.append(make_node(soup, k, xml))
    return t


def py_value(v):
    """attribute value spec -> python object: str | None | list | {"py": "tuple"|"int"|"float", "v": …}"""
    if isinstance(v, list):
        return list(v)
    if isinstance(v, dict):
        if v["py"] == "tuple":
            return tuple(v["v"])
        if v["py"] == "int":
            return int(v["v"])
        if v["py"] == "float":
            return float(v["v"])
    return v


def node_at(root, path):
    n = root
    for i in path:
        n = n.contents[i]
    return n


def apply_op(soup, op, xml):
    """one single-argument editing call; op = [kind, path, …]"""
    e = E()
    kind, path = op[0], op[1]
    n = node_at(soup, path)
    if kind == "append":
        n.append(make_node(soup, op[2], xml))
    elif kind == "insert":
        n.insert(op[2], make_node(soup, op[3], xml))
    elif kind == "move":
        dest = node_at(soup, op[2])
        x = n.extract()
        dest.append(x)
    elif kind == "replace_with":
        n.replace_with(make_node(soup, op[2], xml))
    elif kind == "wrap":
        n.wrap(make_node(soup, op[2], xml))
    elif kind == "unwrap":
        n.unwrap()
    elif kind == "string":
        n.string = op[2]
    elif kind == "clear":
        n.clear()
    elif kind == "insert_before":
        n.insert_before(make_node(soup, op[2], xml))
    elif kind == "insert_after":
        n.insert_after(make_node(soup, op[2], xml))
    elif kind == "setattr":
        n[op[2]] = py_value(op[3])
    elif kind == "delattr":
        if op[2] in n.attrs:
            del n[op[2]]
    elif kind == "extract":
        n.extract()
    else:
        raise ValueError(kind)


def build(recipe):
    """-> (root element, is_document). recipe kinds: parse {markup}; api {xml, kids, ops}"""
    e = E()
    if recipe["kind"] == "parse":
        return parse(recipe["markup"])
    xml = recipe["xml"]
    soup = parse("")
    if xml:
        # `known_xml` decides the formatter registry (`_is_xml`); `is_xml` is left alone: BeautifulSoup.decode would prepend
        # an XML declaration (C08's subject, outside Tag.decode)
        soup.known_xml = True
    for k in recipe["kids"]:
        soup.append(make_node(soup, k, xml))
    for op in recipe.get("ops", []):
        if recipe.get("interleave"):
            # render between the edits: anything a rendering caches must not survive the next edit
            soup.decode()
            soup.decode(formatter="html")
            try:
                node_at(soup, op[1]).decode(formatter=None)
            except (IndexError, AttributeError):
                pass
        apply_op(soup, op, xml)
    for path, v in recipe.get("known_xml", []):
        node_at(soup, path).known_xml = v
    if "root_is_xml" in recipe:
        soup.is_xml = recipe["root_is_xml"]
    return soup


# --------------------------------------------------------------------------------------------------------------
# generators
# --------------------------------------------------------------------------------------------------------------
ATOMS = ["&", "<", ">", '"', "'", ";", "#", "x", "0", "1", "9", "a", "b", " ", " ", "\n", "\t", "\x0c", "\r", "é",
         "☃", "≧", "̸", "≧̸", " ", "&amp", "&lt;", "&#65;", "&nosuch;", "&amp;", "&#x41;",
         "&copy", "&lt", "fj", "\x01", "\x7f", "\x85", " ", "\x00", "\U0001f600", "=", "/", "-", "]", "?", "!",
         "text", "Bob's", "\x0b", "Å", " "]
HOSTILE = ["-->", "--", "]]>", "</", "</script>", "</style>", "<!--", "<b>", "<br/>", "?>", "\ud800", "]]", "->", "</p>"]

TAG_NAMES = ["p", "div", "b", "a", "span", "ul", "li", "td", "th", "form", "pre", "textarea", "script", "style", "template",
             "ruby", "rt", "rp", "title", "h1", "x-y", "a:b", "svg:g", "custom.el", "t_1", "link", "object",
             # names a refactoring might add to a raw-text / cdata set (HTML5 raw text and escapable raw text elements)
             "iframe", "xmp", "noembed", "noframes", "plaintext", "noscript", "textarea", "title", "template"]
VOID_NAMES = ["br", "hr", "img", "input", "meta", "wbr", "area", "col"]
XML_NAMES = ["root", "item", "ns:item", "a", "b", "x-y", "script", "br", "data_1", "p"]
ATTR_NAMES = ["id", "class", "href", "title", "data-x", "rel", "headers", "a:b", "_x", "x.y", "alt", "name", "accesskey",
              "rev", "for", "value", "accept-charset"]


def rand_text(r, hostile=0.0, lo=1, hi=5, ws=0.15):
    if r.random() < ws:
        return "".join(r.choice(" \n\t\x0c\r") for _ in range(r.randint(1, 3)))
    n = r.randint(lo, hi)
    out = []
    for _ in range(n):
        out.append(r.choice(HOSTILE) if r.random() < hostile else r.choice(ATOMS))
    return "".join(out)


def rand_attr_value(r, hostile):
    k = r.random()
    if k < 0.03:
        return {"py": "tuple", "v": [rand_text(r, hostile, 0, 2, 0.05) for _ in range(r.randint(0, 3))]}
    if k < 0.05:
        return {"py": r.choice(["int", "float"]), "v": r.choice([0, 1, 7, -3, 10 ** 6])}
    if k < 0.12:
        return None
    if k < 0.3:
        return [rand_text(r, hostile, 0, 2, 0.05) for _ in range(r.randint(0, 3))]
    if k < 0.36:
        return ""
    return rand_text(r, hostile, 1, 4, 0.1)


def rand_attrs(r, hostile, xml):
    n = r.choice([0, 0, 1, 1, 2, 3])
    names = r.sample(ATTR_NAMES, n)
    out = []
    for k in names:
        if hostile and r.random() < hostile:
            k = r.choice(["Id", "a b", "x=y", "k>", "é", "", "9a", "a/b"])
        out.append([k, rand_attr_value(r, hostile)])
    return out


def rand_string_spec(r, hostile, parent_name=None):
    k = r.random()
    if k < 0.62:
        cls = "NavigableString"
    elif k < 0.70:
        cls = "Comment"
    elif k < 0.75:
        cls = "CData"
    elif k < 0.79:
        cls = "ProcessingInstruction"
    elif k < 0.82:
        cls = "XMLProcessingInstruction"
    elif k < 0.85:
        cls = "Doctype"
    elif k < 0.87:
        cls = "Declaration"
    elif k < 0.93:
        cls = r.choice(["Script", "Stylesheet", "TemplateString", "RubyTextString", "RubyParenthesisString"])
    else:
        cls = "PreformattedString" if (hostile and r.random() < 0.5) else "NavigableString"
    if cls in TEXT_CLASSES or cls == "PreformattedString":
        t = rand_text(r, hostile)
        if hostile and r.random() < hostile:
            t = ""
    else:
        t = rand_text(r, hostile, 0, 4, 0.15)
        if not hostile:
            t = t.replace(">", "g").replace("]", "j").replace("--", "-x")
            if cls == "Comment":
                t = t.rstrip("-")
                if t.startswith("-"):
                    t = "c" + t
    if parent_name in P_RAW and not hostile:
        cls = r.choice(["NavigableString", "Script", "Stylesheet"])
        t = rand_text(r, 0, 1, 5, 0.1).replace("/", "|") or "r"
    return ["S", cls, t]


def rand_tag_spec(r, depth, budget, hostile, xml):
    k = r.random()
    if xml:
        name = r.choice(XML_NAMES)
    elif k < 0.22:
        name = r.choice(VOID_NAMES)
    else:
        name = r.choice(TAG_NAMES)
    prefix = None
    if r.random() < 0.08:
        prefix = r.choice(["ns", "svg", "x", ""])
    if hostile and r.random() < hostile:
        name = r.choice(["P", "a b", "1x", "a>b", "él", "x/y", "DIV"])
    mode = r.choice(["new_tag", "ctor", "ctor", "plain"])
    cbe = r.random() < (0.5 if xml else 0.3)
    if not xml and mode != "new_tag" and is_void(name) and r.random() < 0.8:
        cbe = True
    attrs = rand_attrs(r, hostile, xml)
    kids = []
    full = (prefix + ":" if prefix else "") + name
    childless = (is_void(full) and not (hostile and r.random() < 0.5)) or r.random() < 0.15
    if not childless and depth < 4:
        nk = r.choice([0, 1, 1, 2, 2, 3, 4])
        for _ in range(nk):
            if budget[0] <= 0:
                break
            budget[0] -= 1
            if (full in P_RAW and not (hostile and r.random() < 0.3)) or r.random() < 0.55:
                kids.append(rand_string_spec(r, hostile, None if (xml or prefix) else name))
            else:
                kids.append(rand_tag_spec(r, depth + 1, budget, hostile, xml))
    if xml and full in P_RAW and not hostile:
        kids = [k2 for k2 in kids if k2[0] == "T"]          # script/style text under an XML formatter: excluded class
    if prefix and name in P_RAW and not hostile:
        name = "g"
    return ["T", mode, name, prefix, attrs, cbe, kids]


def rand_ops(r, soup_kids_spec, hostile, xml):
    """explicit single-argument edit ops against the tree as it evolves (paths are computed on a scratch build)"""
    ops = []
    recipe = {"kind": "api", "xml": xml, "kids": soup_kids_spec, "ops": ops}
    soup = build(recipe)
    e = E()
    for _ in range(r.choice([0, 0, 1, 2, 3, 5, 8])):
        nodes = []

        def walk(n, path):
            for i, c in enumerate(n.contents):
                nodes.append((c, path + [i]))
                if isinstance(c, e["Tag"]):
                    walk(c, path + [i])
        walk(soup, [])
        tags = [(n, p) for n, p in nodes if isinstance(n, e["Tag"])] + [(soup, [])]
        kind = r.choice(["append", "insert", "move", "replace_with", "wrap", "unwrap", "string", "clear", "insert_before",
                         "insert_after", "setattr", "delattr", "extract", "append", "insert"])
        budget = [3]
        fresh = (rand_string_spec(r, hostile) if r.random() < 0.5 else rand_tag_spec(r, 3, budget, hostile, xml))
        op = None
        if kind in ("append", "insert", "string", "clear"):
            t, p = r.choice(tags)
            full = (t.prefix + ":" if t.prefix else "") + t.name
            if not hostile and (is_void(full) or full in P_RAW or t.name in P_RAW):
                continue
            if kind == "append":
                op = ["append", p, fresh]
            elif kind == "insert":
                op = ["insert", p, r.randint(0, len(t.contents)), fresh]
            elif kind == "string":
                op = ["string", p, rand_text(r, hostile)]
            else:
                op = ["clear", p]
        elif not nodes:
            continue
        elif kind == "move":
            n, p = r.choice(nodes)
            dests = [(t, q) for t, q in tags if q[:len(p)] != p]
            dests = [(t, q) for t, q in dests if hostile or (not is_void((t.prefix + ":" if t.prefix else "") + t.name)
                                                             and (t.prefix + ":" if t.prefix else "") + t.name not in P_RAW
                                                             and t.name not in P_RAW)]
            if not dests:
                continue
            op = ["move", p, r.choice(dests)[1]]
        elif kind in ("replace_with", "insert_before", "insert_after", "extract"):
            n, p = r.choice(nodes)
            par = n.parent
            if not hostile and par is not soup and (par.name in P_RAW):
                continue
            op = [kind, p] if kind == "extract" else [kind, p, fresh]
        elif kind == "wrap":
            n, p = r.choice(nodes)
            if not hostile and n.parent is not soup and n.parent.name in P_RAW:
                continue
            w = rand_tag_spec(r, 4, [0], hostile, xml)
            if not hostile and (is_void((w[3] + ":" if w[3] else "") + w[2]) or (w[3] + ":" if w[3] else "") + w[2] in P_RAW
                                or w[2] in P_RAW):
                continue
            w[6] = []
            op = ["wrap", p, w]
        elif kind == "unwrap":
            cand = [(t, p) for t, p in tags if p]
            if not cand:
                continue
            t, p = r.choice(cand)
            if not hostile and (t.name in P_RAW or (t.parent is not soup and t.parent.name in P_RAW)):
                continue
            op = ["unwrap", p]
        elif kind in ("setattr", "delattr"):
            cand = [(t, p) for t, p in tags if p]
            if not cand:
                continue
            t, p = r.choice(cand)
            if kind == "setattr":
                v = rand_attr_value(r, hostile)
                if v is None:
                    v = ""
                op = ["setattr", p, r.choice(ATTR_NAMES), v]
            else:
                if not t.attrs:
                    continue
                op = ["delattr", p, r.choice(list(t.attrs))]
        if op is None:
            continue
        try:
            apply_op(soup, op, xml)
        except (ValueError, AttributeError, TypeError):
            # the call refused (e.g. replacing an element with no parent): rebuild the scratch tree without it
            soup = build({"kind": "api", "xml": xml, "kids": soup_kids_spec, "ops": ops})
            continue
        ops.append(op)
    return ops


def gen_api_recipe(r, hostile):
    xml = r.random() < 0.3
    budget = [r.randint(2, 14)]
    kids = []
    if r.random() < 0.2 and not xml:
        kids.append(["S", "Doctype", r.choice(["html", "html PUBLIC \"-//W3C//DTD HTML 4.01//EN\"", "x"])])
        if r.random() < 0.5:
            kids.append(["S", "NavigableString", r.choice(["\n", " ", "\n\n", "x", " y"])])
    for _ in range(r.choice([1, 1, 2, 3])):
        if r.random() < 0.25:
            kids.append(rand_string_spec(r, hostile))
        else:
            kids.append(rand_tag_spec(r, 0, budget, hostile, xml))
    ops = rand_ops(r, kids, hostile, xml)
    return {"kind": "api", "xml": xml, "kids": kids, "ops": ops, "interleave": r.random() < 0.5}


M_TEXT = ["&amp;", "&lt;", "&gt;", "&quot;", "&apos;", "&#65;", "&#x41;", "&nosuch;", "&amp", "&copy", "&lt x", "&#128;", "&#0;",
          "&#xD800;", "&eacute;", "&NotGreaterFullEqual;", "a", "b", " ", "\n", "\t", "x y", "é", "☃", "≧̸",
          "'", '"', ";", "#", "&", "&;", "& ", "\x0c", "\r", "\x00", " ", "text", "]]>", "--", "-", "\r\n"]


def rand_markup_attr(r):
    k = r.choice(ATTR_NAMES + ["HREF", "Class", "ID", "data-X"])
    style = r.random()
    v = "".join(r.choice(M_TEXT + ["<", ">", "=", "/"]) for _ in range(r.randint(0, 3)))
    if style < 0.15:
        return k
    if style < 0.5:
        return f'{k}="{v.replace(chr(34), "&quot;")}"'
    if style < 0.75:
        return f"{k}='{v.replace(chr(39), '&#39;')}'"
    if style < 0.85:
        return f"{k}={re.sub(r'[\\s<>=/`]', '', v.replace(chr(34), '').replace(chr(39), '')) or 'v'}"
    return f'{k} = "{v.replace(chr(34), "")}"'


def gen_markup(r, malformed=False):
    parts, stack = [], []
    if r.random() < 0.3:
        parts.append(r.choice(["<!DOCTYPE html>", "<!doctype html>", '<!DOCTYPE html PUBLIC "-//W3C//DTD XHTML 1.0 Strict//EN" "x.dtd">',
                               "<!DOCTYPE x>"]))
        parts.append(r.choice(["", "\n", "\n\n", " ", "x", "\n<!--c-->"]))
    if r.random() < 0.08:
        parts.append(r.choice(['<?xml version="1.0" encoding="utf-8"?>', "<?php echo 1 ?>", "<?x>"]))
    for _ in range(r.randint(1, 18)):
        k = r.random()
        top = stack[-1] if stack else None
        if top in P_RAW:
            parts.append("".join(r.choice(["a", "<", ">", "&", "&amp;", "<b>", "</b>", "<!--", "-->", " ", "\n", "if(a<b)", "'</p>'",
                                           "é", "]]>"]) for _ in range(r.randint(0, 4))))
            parts.append(f"</{stack.pop()}>")
            continue
        if k < 0.28:
            name = r.choice(TAG_NAMES + ["P", "DIV", "Span"])
            attrs = "".join(" " + rand_markup_attr(r) for _ in range(r.choice([0, 0, 1, 2, 3])))
            if r.random() < 0.06:
                parts.append(f"<{name}{attrs}/>")
            else:
                parts.append(f"<{name}{attrs}{r.choice(['', '', ' ', chr(10)])}>")
                stack.append(name.lower())
        elif k < 0.42 and stack:
            if r.random() < 0.85:
                parts.append(f"</{stack.pop()}>")
            else:
                parts.append(f"</{r.choice(TAG_NAMES)}>")
        elif k < 0.52:
            name = r.choice(VOID_NAMES)
            attrs = "".join(" " + rand_markup_attr(r) for _ in range(r.choice([0, 0, 1, 2])))
            sp = r.random()
            if sp < 0.4:
                parts.append(f"<{name}{attrs}>")
            elif sp < 0.8:
                parts.append(f"<{name}{attrs}{r.choice(['', ' '])}/>")
            else:
                parts.append(f"<{name}{attrs}></{name}>")
        elif k < 0.80:
            if r.random() < 0.2:
                parts.append("".join(r.choice(" \n\t\r\x0c") for _ in range(r.randint(1, 3))))
            else:
                parts.append("".join(r.choice(M_TEXT) for _ in range(r.randint(1, 4))))
        elif k < 0.86:
            parts.append("<!--" + "".join(r.choice(["a", " ", "-", "<", ">", "&amp;", "x", "\n", "--", "!"]) for _ in range(r.randint(0, 4))).replace("-->", "") + "-->")
        elif k < 0.90:
            parts.append("<![CDATA[" + "".join(r.choice(["a", "]", "<", ">", "&", " ", "]]", "x"]) for _ in range(r.randint(0, 4))).replace("]]>", "") + "]]>")
        elif k < 0.93:
            parts.append(r.choice(["<?pi x?>", "<?php 1>", "<?x y='1'?>", "<?>"]))
        elif k < 0.96:
            parts.append(r.choice(["<![if IE]>", "<![endif]>", "<!ELEMENT br EMPTY>", "<!x>", "<!>", "<![if gte mso 9]>"]))
        else:
            parts.append(r.choice(["<", ">", "</>", "</ p>", "<p", "<!--", "<a href='", "&#", "<![CDATA[", "<?", "</"]) if malformed else "t")
    while stack and r.random() < 0.7:
        parts.append(f"</{stack.pop()}>")
    m = "".join(parts)
    if malformed:
        m = list(m)
        for _ in range(r.randint(1, 4)):
            if not m:
                break
            i = r.randrange(len(m))
            a = r.random()
            if a < 0.4:
                del m[i]
            elif a < 0.8:
                m.insert(i, r.choice("<>/\"'&= !-[]?"))
            else:
                m[i] = r.choice("<>/\"'&= ")
        m = "".join(m)
    return m


# --------------------------------------------------------------------------------------------------------------
# one case = one tree; all comparisons
# --------------------------------------------------------------------------------------------------------------
def fmt_tok(f):
    return "none" if f is None else cps(f)


def case_strings(st_root):
    strings = set()

    def walk(st):
        if st[0] == "S":
            strings.add(st[2])
        else:
            for _, v in st[3]:
                if isinstance(v, list):
                    strings.add(" ".join(v))
                elif v is not None:
                    strings.add(v)
            for k in st[6]:
                walk(k)
    walk(st_root)
    return sorted(strings)


def subst_table(st_root, f):
    """registry formatters: the model computes every registered substitution function itself (substitute_xml: Model/Render;
    substitute_html / substitute_html5: C09's Model/Entities over the generated tables) — no graph is shipped"""
    return "-"


def graph_table(st_root, fn):
    """graph of a user-supplied substitution callable on the strings of the case"""
    return ";".join(f"{dots(s)}>{dots(fn(s))}" for s in case_strings(st_root)) or "-"


def elements_preorder(root):
    e = E()
    out = [root]
    for d in root.descendants:
        if isinstance(d, e["Tag"]):
            out.append(d)
    return out


class Batch:
    def __init__(self, ctx):
        self.ctx = ctx
        self.reqs, self.todo = [], []

    def add(self, req, fn):
        self.reqs.append(req)
        self.todo.append(fn)
        if len(self.reqs) >= 4000:
            self.flush()

    def flush(self):
        if not self.reqs:
            return
        replies = Driver().ask(self.reqs)
        for rep, fn in zip(replies, self.todo):
            fn(rep)
        self.reqs, self.todo = [], []


def render_checks(ctx, batch, recipe, root, st_root, stream):
    """pure correspondence: decode/decode_contents/str of every element under every registry formatter of its flavour"""
    e = E()
    els = elements_preorder(root)
    flavours = {}
    for i, el in enumerate(els):
        flavours.setdefault(bool(el._is_xml), []).append(i)
    for xml, idxs in flavours.items():
        for f in (XML_FORMATTERS if xml else HTML_FORMATTERS):
            real = []
            for i in idxs:
                el = els[i]
                try:
                    d = el.decode(formatter=f)
                    c = el.decode_contents(formatter=f)
                except Exception as ex:
                    ctx.violation(f"decode(formatter={f!r}) raised {type(ex).__name__}: {ex}",
                                  case={"recipe": recipe, "element": i, "formatter": f, "op": "raises"},
                                  expected="a rendering", observed=f"{type(ex).__name__}: {ex}", stream=stream)
                    return None
                real.append((i, d, c))
                if f == "minimal":
                    if str(el) != d:
                        ctx.violation("str(el) differs from el.decode()", case={"recipe": recipe, "element": i, "op": "str"},
                                      expected=d, observed=str(el), stream=stream)
                    try:
                        enc = el.encode(formatter=f)
                        if enc != d.encode("utf-8", "xmlcharrefreplace"):
                            ctx.violation("el.encode() is not the encoding of el.decode()",
                                          case={"recipe": recipe, "element": i, "op": "encode"}, expected=ascii(d), observed=ascii(enc),
                                          stream=stream)
                    except UnicodeError:
                        ctx.count("encode:unicode-error")
            req = f"c05 render {'x' if xml else 'h'} {fmt_tok(f)} {subst_table(st_root, f)} {tree_tokens(st_root)}"

            def on_reply(rep, real=real, f=f, xml=xml, req=req):
                parts = rep.split(" | ")
                for i, d, c in real:
                    want = f"D:{cps(d)};C:{cps(c)}"
                    got = parts[i] if i < len(parts) else "<missing>"
                    ctx.count(f"render:{'xml' if xml else 'html'}:{f}")
                    if got != want:
                        ctx.corr_disagreements += 1
                        ctx.violation(f"decode()/decode_contents() under formatter {f!r} differs from the model",
                                      case={"recipe": recipe, "element": i, "formatter": f, "op": "render", "request": req},
                                      expected="model: " + pretty_dc(got), observed="real: " + pretty_dc(want), model=got,
                                      stream=stream, no_failing_input=True)
                        return
            batch.add(req, on_reply)
    return els


def pretty_dc(s):
    m = re.match(r"D:([-0-9,]*);C:([-0-9,]*)\Z", s)
    if not m:
        return s
    u = lambda t: "" if t == "-" else "".join(chr(int(x)) for x in t.split(","))
    return f"decode={ascii(u(m.group(1)))} decode_contents={ascii(u(m.group(2)))}"


def oracle_direct(ctx, recipe, els, stream):
    """the two direct statements: children => never the empty-element form; script/style text verbatim (HTML flavour)"""
    e = E()
    for i, el in enumerate(els):
        if el.hidden:
            continue
        full = (el.prefix + ":" if el.prefix else "") + el.name
        for f in (XML_FORMATTERS if el._is_xml else HTML_FORMATTERS):
            out = el.decode(formatter=f)
            if el.contents:
                ctx.count("oracle:with-children")
                inner, close = el.decode_contents(formatter=f), "</" + full + ">"
                head = out[:len(out) - len(inner) - len(close)] if out.endswith(inner + close) else ""
                ok = head.startswith("<" + full) and head[len(full) + 1:len(full) + 2] in (" ", ">") and head.endswith(">") \
                    and not head.endswith("/>")
                if not ok:
                    ctx.violation("an element with children is not rendered as open tag + contents + end tag",
                                  case={"recipe": recipe, "element": i, "formatter": f, "op": "never-empty"},
                                  expected=f"<{full} …>…</{full}>", observed=out, stream=stream)
            if not el._is_xml and el.name in P_RAW:
                for c in el.contents:
                    if isinstance(c, e["NS"]) and type(c).__name__ in TEXT_CLASSES:
                        ctx.count("oracle:raw-text")
                        if c.output_ready(f) != str.__str__(c):
                            ctx.violation("text inside script/style is not emitted verbatim",
                                          case={"recipe": recipe, "element": i, "formatter": f, "op": "verbatim"},
                                          expected=str.__str__(c), observed=c.output_ready(f), stream=stream)
                if el.contents and all(isinstance(c, e["NS"]) and type(c).__name__ in TEXT_CLASSES for c in el.contents):
                    want = "".join(str.__str__(c) for c in el.contents)
                    if el.decode_contents(formatter=f) != want:
                        ctx.violation("decode_contents() of script/style is not its text verbatim",
                                      case={"recipe": recipe, "element": i, "formatter": f, "op": "verbatim"},
                                      expected=want, observed=el.decode_contents(formatter=f), stream=stream)


def classify_roundtrip(forest, got, xml):
    """known-finding classifier for a first-round-trip difference, computed from the case itself"""
    if has_class(forest, "Declaration") and (got == o_normalise(forest, decl_as_pi=True) or decl_with_gt(forest)):
        return "C05-declaration-renders-as-pi"
    return None


def decl_with_gt(forest):
    """a Declaration whose text contains '>': written as '<?' + text + '?>' it ends at that '>' and the rest of its text is
    tokenised as markup — the same finding, with an outcome that depends on the text"""
    for st in forest:
        if st[0] == "S":
            if st[1] == "Declaration" and ">" in st[2]:
                return True
        elif decl_with_gt(st[6]):
            return True
    return False


def roundtrip_checks(ctx, batch, recipe, root, el_index, el, stream, parsed):
    """render el, parse the text again, compare with the property's normal form; second round trip; Lean emitR/build/normalise"""
    e = E()
    st = struct(el)
    forest = st[6] if st[5] else [st]
    xml = bool(el._is_xml)
    reason = o_representable(forest, xml)
    if reason == "void-with-children" and parsed:
        ctx.count("excluded:parsed-void-with-children(C04)")
    run_oracle = (reason is None) or (parsed and reason != "void-with-children")
    ctx.count(f"{stream}:representable:yes" if reason is None else f"{stream}:excluded:" + reason)
    for f in ROUNDTRIP_FORMATTERS:
        text = el.decode(formatter=f)
        try:
            soup2 = parse(text)
            got = [struct(c) for c in soup2.contents]
            text2 = soup2.decode(formatter=f)
            soup3 = parse(text2)
        except UnicodeEncodeError:
            # C06's defect: a lone surrogate in short tag-less markup makes the constructor raise (not this property's subject)
            if not any(0xD800 <= ord(ch) <= 0xDFFF for ch in text):
                raise
            ctx.count("reparse:lone-surrogate-constructor-raised(C06)")
            continue
        except Exception as exc:   # noqa: BLE001
            from bs4.exceptions import ParserRejectedMarkup
            if not isinstance(exc, ParserRejectedMarkup):
                raise
            # the rendering is not accepted as a document at all (html.parser asserts on some malformed marked sections)
            if run_oracle and reason is None:
                ctx.violation("the rendering of a representable tree is rejected by the parser",
                              case={"recipe": recipe, "element": el_index, "formatter": f, "op": "roundtrip"},
                              observed=str(exc)[:300], stream=stream, extra={"rendered": text})
            else:
                ctx.count("reparse:rejected-by-parser:" + (reason or "parsed-input"))
            continue
        text3 = soup3.decode(formatter=f)
        got3 = [struct(c) for c in soup3.contents]
        case = {"recipe": recipe, "element": el_index, "formatter": f, "op": "roundtrip"}
        if run_oracle:
            want = o_normalise(forest)
            ctx.count("oracle:roundtrip")
            if got != want:
                ctx.violation("parse(render(t)) is not t modulo the documented normalisations",
                              case=case, expected=ascii(want), observed=ascii(got), stream=stream,
                              kf=classify_roundtrip(forest, got, xml), extra={"rendered": text})
            # the re-parsed tree is itself a tree obtained by parsing: its own round trip (no known finding applies to it
            # except the doctype newline, which the normal form describes)
            if got3 != o_normalise(got):
                ctx.violation("parse(render(t')) is not t' modulo the documented normalisations, t' = the re-parsed tree",
                              case=case, expected=ascii(o_normalise(got)), observed=ascii(got3), stream=stream,
                              extra={"rendered": text, "second_rendering": text2})
            fix_ok = text3 == text2 and got3 == got
            ctx.count("oracle:second-roundtrip")
            if not fix_ok:
                kf = "C05-doctype-newline-accumulates" if o_doctype_unstable(forest) else (
                    "C05-declaration-renders-as-pi" if decl_with_gt(forest) else None)
                ctx.violation("a second round trip changes the document", case=case, expected=text2, observed=text3,
                              stream=stream, kf=kf, extra={"rendered": text})
            elif o_doctype_unstable(forest):
                ctx.count("doctype-unstable-but-stable?")
        else:
            # outside the property's quantifier: run, record what happens
            same = got == o_normalise(forest)
            ctx.count(f"excluded-outcome:{reason}:{'same-tree' if same else 'different-tree'}")
        if f == "minimal":
            # the class on which the rendered text is a text of C04's writer (render_is_written / reparse_roundtrip_tokenized)
            wreq = f"c05 written {cfg_tok()} {'x' if xml else 'h'} {fmt_tok(f)} {tree_tokens(wrap_root(forest))}"

            want_w = o_normalise(forest, decl_as_pi=True)        # now: the configuration of the case is current

            def on_written(rep, text=text, got=got, want_w=want_w, case=case, wreq=wreq, stream=stream):
                fields = dict(p.split("=", 1) for p in rep.split(" # "))
                if fields.get("rw") != "1":
                    ctx.count(f"written:{stream}:outside")
                    return
                ctx.count(f"written:{stream}:inside")
                if fields.get("text") != cps(text):
                    ctx.corr_disagreements += 1
                    ctx.violation("RenderWritable tree: decode() is not the text C04's writer writes under minimalChoices (render_is_written)",
                                  case=dict(case, request=wreq), expected="writer: " + ascii(uncps_local(fields.get("text", "-"))),
                                  observed="real: " + ascii(text), stream=stream, no_failing_input=True)
                if got != want_w:
                    ctx.violation("RenderWritable tree: the real re-parse is not the normal form (reparse_roundtrip_tokenized)",
                                  case=case, expected=ascii(want_w), observed=ascii(got), stream=stream)
            batch.add(wreq, on_written)
        if f != "minimal" and el_index != 0:
            continue
        # Lean side
        req = (f"c05 trip {'x' if xml else 'h'} {fmt_tok(f)} {tree_tokens(wrap_root(forest))}" if CUR["eet"] == "D" else
               f"c05 tripc {cfg_tok()} {'x' if xml else 'h'} {fmt_tok(f)} {tree_tokens(wrap_root(forest))}")
        try:
            evs = merge_data(real_events(text))
        except Exception as ex:  # the tokenizer refused the text
            evs = ["<tokenizer raised %s>" % type(ex).__name__]

        def on_reply(rep, reason=reason, got=got, got3=got3, evs=evs, case=case, req=req, text=text):
            fields = dict(p.split("=", 1) for p in rep.split(" # "))
            m_repr = fields.get("repr") == "1"
            if m_repr != (reason is None):
                ctx.corr_disagreements += 1
                ctx.violation("Representable: the model's predicate and the harness' predicate disagree",
                              case=dict(case, request=req), expected=f"harness: {reason or 'representable'}",
                              observed=f"model: repr={fields.get('repr')}", stream=stream, no_failing_input=True)
                return
            m_dst = fields.get("dst") == "1"
            if m_dst == o_doctype_unstable(forest):
                ctx.corr_disagreements += 1
                ctx.violation("DoctypeStable: the model's predicate and the harness' known-finding classifier disagree",
                              case=dict(case, request=req), expected=f"harness: unstable={o_doctype_unstable(forest)}",
                              observed=f"model: dst={fields.get('dst')}", stream=stream, no_failing_input=True)
            if m_dst and fields["norm2"] != fields["norm"]:
                ctx.corr_disagreements += 1
                ctx.violation("the executable normal form is not idempotent on a DoctypeStable forest (contradicts normalise_idem)",
                              case=dict(case, request=req), expected=fields["norm"], observed=fields["norm2"], stream=stream,
                              no_failing_input=True)
            if not m_repr:
                return
            tl = lambda forest_: sum((len(x[2]) if x[1] in TEXT_CLASSES else 0) if x[0] == "S" else tl(x[6]) for x in forest_)
            if str(tl(got3) - tl(got)) != fields.get("grow"):
                ctx.corr_disagreements += 1
                ctx.violation("the text gained on the real second round trip is not the model's growth count (second_normalisation_growth)",
                              case=dict(case, request=req, rendered=text), expected="model: grow=" + str(fields.get("grow")),
                              observed=f"real: {tl(got3) - tl(got)}", stream=stream, no_failing_input=True)
            if fields.get("repr2") != "1":
                ctx.corr_disagreements += 1
                ctx.violation("the normal form of a representable forest is not representable (contradicts representable_normal_form)",
                              case=dict(case, request=req), expected="repr2=1", observed="repr2=" + str(fields.get("repr2")),
                              stream=stream, no_failing_input=True)
            ctx.count("trip:model-compared")
            m_evs = merge_data([x for x in fields["emit"].split("|") if x])
            if m_evs != evs:
                ctx.corr_disagreements += 1
                ctx.violation("the tokenizer's events for the rendered text are not emitR",
                              case=dict(case, request=req, rendered=text), expected="model: " + "|".join(m_evs),
                              observed="real: " + "|".join(evs), stream=stream, no_failing_input=True)
            want_tok = forest_tokens(got)
            for fld in ("build", "norm"):
                if fields[fld] != want_tok:
                    ctx.corr_disagreements += 1
                    ctx.violation(f"the real re-parse differs from the model's {fld}",
                                  case=dict(case, request=req, rendered=text), expected="model: " + fields[fld],
                                  observed="real: " + want_tok, stream=stream, no_failing_input=True)
                    return
            if fields.get("repr2") == "1" and fields["norm2"] != forest_tokens(got3):
                ctx.corr_disagreements += 1
                ctx.violation("the real second re-parse differs from the model's normalise∘normalise",
                              case=dict(case, request=req, rendered=text), expected="model: " + fields["norm2"],
                              observed="real: " + forest_tokens(got3), stream=stream, no_failing_input=True)
        batch.add(req, on_reply)
    return reason


def nontrivial_key(st_root):
    """non-trivial = at least one character that substitution or quoting changes, or a special string, or a void element"""
    blob = tree_tokens(st_root)
    hit = any(x in blob.split(" ") for x in ()) or re.search(r"(^|[ ,/sl])(38|60|62|34)([, /]|$)", blob) is not None
    special = re.search(r"S ([2-7]) ", blob) is not None
    return blob if (hit or special) else None


def check_tree(ctx, batch, recipe, stream, parsed, sub_elements=2, r=None):
    set_config(recipe)
    try:
        return _check_tree(ctx, batch, recipe, stream, parsed, sub_elements, r)
    finally:
        set_config(None)


def _check_tree(ctx, batch, recipe, stream, parsed, sub_elements, r):
    try:
        root = build(recipe)
    except Exception as ex:
        if parsed:
            ctx.count("parse:rejected:" + type(ex).__name__)
            return
        raise
    try:
        st_root = struct(root)
    except ValueError as ex:
        ctx.count("skipped:" + ("meta-charset-substitution(C08)" if "charset" in str(ex) else "unknown-class"))
        return
    ctx.count(f"{stream}:size:{min(size(st_root) // 5 * 5, 30)}+")
    els = render_checks(ctx, batch, recipe, root, st_root, stream)
    if els is None:
        ctx.case(None)
        return
    oracle_direct(ctx, recipe, els, stream)
    reason = roundtrip_checks(ctx, batch, recipe, root, 0, root, stream, parsed)
    if r is not None and len(els) > 1:
        for i in sorted(r.sample(range(1, len(els)), min(sub_elements, len(els) - 1))):
            roundtrip_checks(ctx, batch, recipe, root, i, els[i], stream, parsed)
    ctx.case(nontrivial_key(st_root), sample={"stream": stream, "rendered": ascii(root.decode())[:200]})
    detached_checks(ctx, recipe, els, stream, r)
    return reason


def detached_checks(ctx, recipe, els, stream, r):
    """last step of a case (it edits the tree): an element taken out of its tree renders as it did inside it — the start
    element's own parent is never consulted (script/style elements preferred: their text consults `parent.name`)"""
    if len(els) < 2:
        return
    raw = [i for i in range(1, len(els)) if els[i].name in P_RAW]
    picks = raw[:1]
    if r is not None:
        picks += r.sample(range(1, len(els)), 1)
    for i in dict.fromkeys(picks):
        el = els[i]
        if el.parent is None:
            continue
        fmts = XML_FORMATTERS if el._is_xml else HTML_FORMATTERS
        before = [(el.decode(formatter=f), el.decode_contents(formatter=f)) for f in fmts]
        el.extract()
        after = [(el.decode(formatter=f), el.decode_contents(formatter=f)) for f in fmts]
        ctx.count("detached:compared")
        if before != after:
            k = next(j for j in range(len(fmts)) if before[j] != after[j])
            ctx.violation("an element renders differently once it is extracted from its tree",
                          case={"recipe": recipe, "element": i, "formatter": fmts[k], "op": "detached"},
                          expected=before[k][0], observed=after[k][0], stream=stream)


# --------------------------------------------------------------------------------------------------------------
# exhaustive small trees of identical tags (the `!=` in _event_stream)
# --------------------------------------------------------------------------------------------------------------
def small_shapes(n):
    """all ordered forests with exactly n nodes, nodes are 'a' tags (with children) or leaves: childless tag 'a' /
    childless tag that can be empty 'v' / string 'x'"""
    if n == 0:
        return [[]]
    out = []
    for first in range(1, n + 1):
        rests = small_shapes(n - first)
        heads = []
        if first == 1:
            heads = [("x",), ("a", []), ("v", [])]
        else:
            heads = [("a", f) for f in small_shapes(first - 1) if f] + [("v", f) for f in small_shapes(first - 1) if f]
        for h in heads:
            for rest in rests:
                out.append([h] + rest)
    return out


def shape_render(f):
    out = ""
    for n in f:
        if n[0] == "x":
            out += "x"
        elif n[1]:
            out += "<a>" + shape_render(n[1]) + "</a>"
        elif n[0] == "v":
            out += "<a/>"
        else:
            out += "<a></a>"
    return out


def shape_spec(n):
    if n[0] == "x":
        return ["S", "NavigableString", "x"]
    return ["T", "ctor", "a", None, [], n[0] == "v", [shape_spec(k) for k in n[1]]]


def stream_small(ctx, batch):
    """every tree of at most 5 nodes under an <a> root built from structurally indistinguishable pieces: decode() against the
    plain recursion (is the structural `!=` of _event_stream ever different from identity?)"""
    n_cases = 0
    for total in range(0, 5):
        for forest in small_shapes(total):
            for root_kind in ("a", "v"):
                if not forest and root_kind == "a" and total:
                    continue
                recipe = {"kind": "api", "xml": False, "kids": [shape_spec((root_kind, forest))], "ops": []}
                soup = build(recipe)
                want = shape_render([(root_kind, forest)])
                got = soup.decode()
                n_cases += 1
                if got != want:
                    ctx.violation("decode() of a tree of identical tags differs from the structural recursion",
                                  case={"recipe": recipe, "element": 0, "formatter": "minimal", "op": "small"}, expected=want,
                                  observed=got, stream="small")
                for el in elements_preorder(soup)[1:]:
                    w = shape_render([shape_of(el)])
                    if el.decode() != w:
                        ctx.violation("decode() of an element of a tree of identical tags differs from the structural recursion",
                                      case={"recipe": recipe, "element": -1, "formatter": "minimal", "op": "small"}, expected=w,
                                      observed=el.decode(), stream="small")
                st = struct(soup)
                render_checks(ctx, batch, recipe, soup, st, "small")
                ctx.case(None)
    ctx.count("small:trees", n_cases)
    ctx.exhaustive_parts.append(f"all {n_cases} trees of at most 5 nodes made of <a> tags (can/cannot be empty) and the string 'x': "
                                "decode() of every element = the structural recursion (the `!=` comparison of _event_stream)")


def shape_of(el):
    e = E()
    if not isinstance(el, e["Tag"]):
        return ("x",)
    return ("v" if el.can_be_empty_element else "a", [shape_of(c) for c in el.contents])


# --------------------------------------------------------------------------------------------------------------
CORPUS_CASES = [
    {"kind": "parse", "markup": "<!DOCTYPE html>\n<html><head><title>t &amp; u</title></head><body class=\" a  b \"><p id=x>a&lt;b<br>c<br/>d</p>"
                                "<script>if (a<b && c) x='</p>'</script><style>p > b {}</style><pre>\n  x\n</pre><!-- c --><![CDATA[d]]><?pi e?></body></html>"},
    {"kind": "parse", "markup": "<p> <b> </b> </p><textarea>\n a </textarea><ruby>x<rt>y</rt><rp>(</rp></ruby><template><p>t</p></template>"},
    {"kind": "parse", "markup": "<![if IE]>x<![endif]>"},
    {"kind": "parse", "markup": "<!DOCTYPE html>abc"},
    {"kind": "parse", "markup": "<a href=\"x&amp;y\" title='\"q\"' rel=\"a  b\" data-x=\"&quot;'\">&#65;&nosuch;&amp</a>"},
    {"kind": "api", "xml": True, "kids": [["T", "ctor", "root", None, [["a", "1<2"]], True,
                                          [["T", "ctor", "item", "ns", [], True, []], ["S", "NavigableString", "a&b"],
                                           ["S", "XMLProcessingInstruction", "x y"], ["T", "ctor", "e", None, [], False, []]]]], "ops": []},
    {"kind": "api", "xml": False, "kids": [["T", "plain", "p", None, [["k", None], ["class", ["a b", "c"]], ["z", ""]], False,
                                           [["S", "NavigableString", "a"], ["S", "NavigableString", "b"], ["S", "Comment", ""],
                                            ["T", "ctor", "br", None, [], False, []], ["T", "ctor", "br", None, [], True, []]]]], "ops": []},
]


def stream_corpus(ctx, batch):
    from .common import CORPUS
    d = CORPUS / "C05"
    cases = list(CORPUS_CASES)
    if d.exists():
        for f in sorted(d.glob("*.json")):
            try:
                cases.append(json.loads(f.read_text())["recipe"])
            except Exception:
                pass
    r = ctx.rng("corpus")
    for rc in cases:
        check_tree(ctx, batch, rc, "corpus", rc["kind"] == "parse", sub_elements=50, r=r)


FN_KINDS = {"xml": 1, "html": 2, "html5": 3}


def make_fn(name):
    e = E()
    if name == "xml":
        return e["ES"].substitute_xml
    if name == "html":
        return e["ES"].substitute_html
    if name == "html5":
        return e["ES"].substitute_html5
    if name == "upper":
        return lambda s: s.upper()
    if name == "brackets":
        return lambda s: "[" + s + "]"
    raise ValueError(name)


def make_formatter_arg(desc):
    """-> (python argument for decode(formatter=…), model token builder taking the element's struct)"""
    e = E()
    if desc[0] == "name":
        k = desc[1]
        return k, (lambda st: ("n:none" if k is None else "n:" + cps(k), "-"))
    if desc[0] == "fn":
        fn = make_fn(desc[1])
        if desc[1] in FN_KINDS:
            return fn, (lambda st: (f"c:{FN_KINDS[desc[1]]}", "-"))
        return fn, (lambda st: ("c:9", graph_table(st, fn)))
    _, lang, fname, vp, cd, eb = desc
    fn = None if fname is None else make_fn(fname)
    cls = {"html": e["HF"], "xml": e["XF"]}[lang]
    obj = cls(entity_substitution=fn, void_element_close_prefix=vp, cdata_containing_tags=None if cd is None else set(cd),
              empty_attributes_are_booleans=eb)
    kind = 0 if fname is None else FN_KINDS.get(fname, 9)

    def tok(st):
        spec = (f"o:{kind}:{cps(obj.void_element_close_prefix or '')}:"
                f"{';'.join(dots(x) for x in sorted(obj.cdata_containing_tags)) or '-'}:{int(bool(obj.empty_attributes_are_booleans))}")
        return spec, (graph_table(st, fn) if kind == 9 else "-")
    return obj, tok


def rand_formatter_desc(r):
    k = r.random()
    if k < 0.4:
        return ["name", r.choice(["minimal", "html", None, "html5", "html5-4.12", "nosuch", "xml", ""])]
    if k < 0.65:
        return ["fn", r.choice(["xml", "html", "html5", "upper", "brackets"])]
    return ["obj", r.choice(["html", "xml"]), r.choice([None, "xml", "html", "html5", "upper"]),
            r.choice(["/", "", " /", None, "//"]), r.choice([None, None, [], ["p"], ["script"], ["pre", "b", "style"]]),
            r.random() < 0.4]


def known_xml_chain(el):
    chain, n = [], el
    while n is not None:
        chain.append(n.known_xml)
        root = n
        n = n.parent
    return chain, bool(getattr(root, "is_xml", False))


def stream_formatter_args(ctx, batch, n_trees):
    """`decode(formatter=arg)` with every form of the argument (registry key incl. unknown ones -> KeyError, callable,
    Formatter object with its own void prefix / cdata tags / boolean-attribute switch) on elements whose flavour is decided by
    `known_xml` somewhere up the parent chain or by the root's `is_xml` attribute: formatter_for_name + _is_xml"""
    e = E()
    for t in range(n_trees):
        r = ctx.rng("fmtargs", t)
        recipe = gen_api_recipe(r, 0.0)
        soup = build(recipe)
        els = elements_preorder(soup)
        settings = []
        for i, el in enumerate(els):
            if r.random() < 0.6:
                path = []
                n = el
                while n.parent is not None:
                    path.insert(0, n.parent.contents.index(n) if False else next(j for j, c in enumerate(n.parent.contents) if c is n))
                    n = n.parent
                settings.append([path, r.choice([None, None, True, False])])
        recipe = dict(recipe, known_xml=settings, root_is_xml=r.random() < 0.5)
        soup = build(recipe)
        els = elements_preorder(soup)
        if len(els) < 2:
            continue
        for i in sorted(r.sample(range(1, len(els)), min(3, len(els) - 1))):
            el = els[i]
            try:
                st = struct(el)
            except ValueError:
                continue
            chain, root_attr = known_xml_chain(el)
            chain_tok = ".".join("N" if v is None else ("T" if v else "F") for v in chain) or "-"
            for _ in range(3):
                desc = rand_formatter_desc(r)
                arg, tok = make_formatter_arg(desc)
                try:
                    real = "D:" + cps(el.decode(formatter=arg))
                    if arg is None or isinstance(arg, str):
                        c2 = el.decode_contents(formatter=arg)
                        if not st[5] and el.contents and not real.endswith(cps(c2 + "</" + o_full(st) + ">")):
                            ctx.violation("decode_contents(formatter) is not the contents part of decode(formatter)",
                                          case={"recipe": recipe, "element": i, "formatter_desc": desc, "op": "fmtarg"},
                                          expected=real, observed=c2, stream="fmtargs")
                except KeyError:
                    real = "KeyError"
                a_tok, tbl = tok(st)
                req = f"c05 top {int(root_attr)} {chain_tok} {a_tok} {tbl} {tree_tokens(st)}"
                flav = "xml" if el._is_xml else "html"
                ctx.count(f"fmtarg:{desc[0]}:{flav}:{'KeyError' if real == 'KeyError' else 'ok'}")

                def on_reply(rep, real=real, req=req, desc=desc, i=i, recipe=recipe):
                    if rep != real:
                        ctx.corr_disagreements += 1
                        u = lambda t: t if not t.startswith("D:") else ascii(uncps_local(t[2:]))
                        ctx.violation("decode(formatter=arg): formatter resolution / rendering differs from the model",
                                      case={"recipe": recipe, "element": i, "formatter_desc": desc, "op": "fmtarg", "request": req},
                                      expected="model: " + u(rep), observed="real: " + u(real), model=rep, stream="fmtargs",
                                      no_failing_input=True)
                batch.add(req, on_reply)
        ctx.case(None)


def opt_tok(v):
    return "N" if v is None else ("e" if v == "" else cps(v))


def stream_string_output_ready(ctx, batch, n_trees):
    """`string.output_ready(arg)` called directly on strings of every class (in trees with known_xml chains, and detached):
    formatter=None, the signature default, registry keys incl. unknown ones, callables, Formatter objects"""
    import inspect
    e = E()
    for t in range(n_trees):
        r = ctx.rng("sor", t)
        recipe = gen_api_recipe(r, 0.05)
        soup = build(recipe)
        tags = elements_preorder(soup)
        settings = []
        for el in tags[1:]:
            if r.random() < 0.5:
                path, n = [], el
                while n.parent is not None:
                    path.insert(0, next(j for j, c in enumerate(n.parent.contents) if c is n))
                    n = n.parent
                settings.append([path, r.choice([None, True, False])])
        recipe = dict(recipe, known_xml=settings, root_is_xml=r.random() < 0.3)
        if r.random() < 0.3:
            recipe["known_xml"].append([[], None])
        soup = build(recipe)
        strings = [d for d in soup.descendants if isinstance(d, e["NS"])]
        if r.random() < 0.3:
            strings.append(e["cls"][r.choice(CLASSES)](rand_text(r, 0.1)))       # a detached string
        for sidx, sobj in enumerate(strings[:6]):
            cname = type(sobj).__name__
            if cname not in CLASSES:
                continue
            chain, root_attr = known_xml_chain(sobj)
            chain_tok = ".".join("N" if v is None else ("T" if v else "F") for v in chain) or "-"
            pname = sobj.parent.name if sobj.parent is not None else None
            text = str.__str__(sobj)
            for trial in range(3):
                if trial == 0:
                    default = inspect.signature(type(sobj).output_ready).parameters["formatter"].default
                    desc = ["default", default]
                    call = lambda: sobj.output_ready()
                    a_tok, tbl = ("None", "-") if default is None else ("n:" + cps(default), "-")
                elif r.random() < 0.2:
                    desc = ["none"]
                    call = lambda: sobj.output_ready(None)
                    a_tok, tbl = "None", "-"
                else:
                    desc = rand_formatter_desc(r)
                    arg, tok = make_formatter_arg(desc)
                    if arg is None:
                        desc, a_tok, tbl = ["none"], "None", "-"
                    else:
                        a_tok, tbl = tok(("S", cname, text))
                    call = lambda arg=arg: sobj.output_ready(arg)
                try:
                    real = "D:" + cps(call())
                except KeyError:
                    real = "KeyError"
                req = f"c05 sor {int(root_attr)} {chain_tok} {a_tok} {tbl} {opt_tok(pname)} {CLASSES.index(cname)} {cps(text)}"
                ctx.count(f"sor:{desc[0]}:{'preformatted' if cname not in TEXT_CLASSES else 'text'}:{'KeyError' if real == 'KeyError' else 'ok'}")

                def on_reply(rep, real=real, req=req, desc=desc, cname=cname, text=text, pname=pname):
                    if rep != real:
                        ctx.corr_disagreements += 1
                        u = lambda t: t if not t.startswith("D:") else ascii(uncps_local(t[2:]))
                        ctx.violation("string.output_ready(arg) differs from the model",
                                      case={"op": "sor", "class": cname, "text": text, "parent_name": pname, "formatter_desc": desc,
                                            "request": req},
                                      expected="model: " + u(rep), observed="real: " + u(real), model=rep, stream="sor",
                                      no_failing_input=True)
                batch.add(req, on_reply)
        ctx.case(None)


def stream_doctype_ids(ctx, batch, n):
    """`Doctype.for_name_and_ids(name, pub_id, system_id)`: the string, its rendering, and its round trip"""
    e = E()
    D = e["cls"]["Doctype"]
    for t in range(n):
        r = ctx.rng("doctype", t)
        pick = lambda: r.choice([None, None, "", "html", "-//W3C//DTD XHTML 1.0 Strict//EN", "x.dtd", rand_text(r, 0.0, 1, 3, 0.0)])
        name, pub, sysid = pick(), pick(), pick()
        d = D.for_name_and_ids(name, pub, sysid)
        real = cps(str.__str__(d))
        req = f"c05 doctype {opt_tok(name)} {opt_tok(pub)} {opt_tok(sysid)}"
        out = d.output_ready()
        if out != "<!DOCTYPE " + str.__str__(d) + ">\n" or type(d) is not D:
            ctx.violation("Doctype.for_name_and_ids(...).output_ready() is not <!DOCTYPE …>\\n of its string",
                          case={"op": "doctype", "args": [name, pub, sysid]}, expected="<!DOCTYPE " + str.__str__(d) + ">\n",
                          observed=out, stream="doctype")
        if ">" not in str.__str__(d):
            back = parse(out)
            got = [struct(c) for c in back.contents]
            want = o_normalise([("S", "Doctype", str.__str__(d))])
            ctx.count("doctype:roundtrip")
            if got != want:
                ctx.violation("a doctype made by for_name_and_ids does not come back from its rendering",
                              case={"op": "doctype", "args": [name, pub, sysid]}, expected=ascii(want), observed=ascii(got),
                              stream="doctype")

        def on_reply(rep, real=real, req=req, args=(name, pub, sysid)):
            if rep != real:
                ctx.corr_disagreements += 1
                ctx.violation("Doctype._string_for_name_and_ids differs from the model",
                              case={"op": "doctype", "args": list(args), "request": req}, expected="model: " + rep,
                              observed="real: " + real, model=rep, stream="doctype", no_failing_input=True)
        batch.add(req, on_reply)
        ctx.case(None)


def uncps_local(t):
    return "" if t in ("-", "") else "".join(chr(int(x)) for x in t.split(","))


CONFIGS = ["D", "N", [], ["br"], ["p", "br"]]


def stream_configs(ctx, batch, n):
    """the builder's `empty_element_tags` in {default, None, set(), {"br"}, {"p","br"}}: first parse / new_tag and the re-parse
    under the same configuration (TreeBuilder.can_be_empty_element, the void handling of handle_starttag)"""
    for t in range(n):
        r = ctx.rng("configs", t)
        eet = CONFIGS[t % len(CONFIGS)]
        CUR["eet"] = eet
        try:
            if r.random() < 0.4:
                recipe = {"kind": "parse", "markup": gen_markup(r), "eet": eet}
                parsed = True
            else:
                recipe = gen_api_recipe(r, 0.0)
                recipe["xml"] = False
                # builder-made tags only: can_be_empty_element comes from the configured builder
                def force(spec):
                    if spec[0] == "T":
                        spec[1] = "new_tag"
                        spec[3] = None
                        spec[4] = [kv for kv in spec[4] if kv[1] is not None and not isinstance(kv[1], dict)]
                        for k in spec[6]:
                            force(k)
                for k in recipe["kids"]:
                    force(k)
                recipe["kids"].append(["T", "new_tag", "p", None, [], False,
                                       [["T", "new_tag", "br", None, [], False, [["S", "NavigableString", "in br"]] if eet in ([], ) else []],
                                        ["S", "NavigableString", "one < two"], ["T", "new_tag", "b", None, [], False, []]]
                                       if eet not in ("N", ["p", "br"]) else []])
                recipe["ops"] = []
                recipe["eet"] = eet
                parsed = False
        finally:
            CUR["eet"] = "D"
        ctx.count(f"config:{'default' if eet == 'D' else ('None' if eet == 'N' else '{' + ','.join(eet) + '}')}")
        check_tree(ctx, batch, recipe, "configs", parsed, r=r)


BYTE_ENCODINGS = ["iso-8859-15", "iso-8859-2", "iso-8859-5", "iso-8859-7", "koi8-r", "windows-1251", "windows-1252", "latin-1",
                  "ascii", "utf-8", "utf-16"]


def bytes_excluded(forest):
    """characters whose trip through numeric references / codecs is C08's subject or a recorded C08 finding: C1 controls
    (read back as Windows-1252), surrogates, NUL, noncharacters"""
    def bad(s):
        return any(0x80 <= ord(c) <= 0x9F or 0xD800 <= ord(c) <= 0xDFFF or ord(c) == 0 or 0xFDD0 <= ord(c) <= 0xFDEF
                   or (ord(c) & 0xFFFE) == 0xFFFE or c == "\r" for c in s)
    for st in forest:
        if st[0] == "S":
            if bad(st[2]):
                return True
        else:
            for _, v in st[3]:
                if isinstance(v, list):
                    if any(bad(x) for x in v):
                        return True
                elif v is not None and bad(v):
                    return True
            if bytes_excluded(st[6]):
                return True
    return False


def charref_forest(forest, enc, raw=False):
    """the forest as it stands after xmlcharrefreplace was applied where references are not read back: special strings and
    the raw text of script/style (known finding C05-charref-in-special-strings)"""
    out = []
    for st in forest:
        if st[0] == "S":
            if raw or st[1] not in TEXT_CLASSES:
                out.append(("S", st[1], st[2].encode(enc, "xmlcharrefreplace").decode(enc)))
            else:
                out.append(st)
        else:
            out.append(st[:6] + (charref_forest(st[6], enc, o_full(st) in P_RAW),))
    return out


def stream_bytes(ctx, n):
    """`encode(enc)` -> the BYTES parsed again knowing the encoding (from_encoding=enc, or the <meta charset> encode() rewrote):
    same tree modulo the documented normalisations — numeric references written by xmlcharrefreplace for characters the
    codec lacks must come back as the same characters (handle_charref, html.unescape)"""
    e = E()
    for t in range(n):
        r = ctx.rng("bytes", t)
        recipe = gen_api_recipe(r, 0.0) if r.random() < 0.7 else {"kind": "parse", "markup": gen_markup(r)}
        if recipe["kind"] == "api":
            recipe["xml"] = False
            recipe["kids"].append(["T", "ctor", "p", None, [["title", r.choice(["10 ¤", "½", "é©", "a£b"])]], False,
                                   [["S", "NavigableString", r.choice(["10 ¤ & ½", "é × ¼", "£©", "Åé¤"])]]])
        set_config(recipe)
        try:
            soup = build(recipe)
        except Exception:
            continue
        try:
            st = struct(soup)
        except ValueError:
            continue
        forest = st[6]
        if any(isinstance(k, e["Tag"]) and k._is_xml for k in soup.descendants if isinstance(k, e["Tag"])):
            continue
        reason = o_representable(forest, False)
        if (reason is not None and recipe["kind"] == "api") or reason == "void-with-children" or bytes_excluded(forest):
            ctx.count("bytes:excluded")
            continue
        want = o_normalise(forest)
        want_pi = o_normalise(forest, decl_as_pi=True)
        via_meta = r.random() < 0.3
        if via_meta:
            soup.insert(0, soup.new_tag("meta", charset="x-replaced"))
        for enc in r.sample(BYTE_ENCODINGS, 3):
            for f in ROUNDTRIP_FORMATTERS:
                case = {"recipe": recipe, "element": 0, "formatter": f, "op": "bytes", "encoding": enc, "via_meta": via_meta}
                try:
                    data = soup.encode(enc, formatter=f)
                    with warnings.catch_warnings():
                        warnings.simplefilter("ignore")
                        back = e["BeautifulSoup"](data, "html.parser", **({} if via_meta else {"from_encoding": enc}))
                except Exception as ex:
                    ctx.violation(f"encode({enc!r}) / re-parse of the bytes raised {type(ex).__name__}: {ex}", case=case,
                                  expected="a tree", observed=f"{type(ex).__name__}: {ex}", stream="bytes")
                    continue
                contents = back.contents[1:] if via_meta else back.contents
                try:
                    got = [struct(c) for c in contents]
                except ValueError:
                    continue
                ctx.count(f"bytes:{enc}:{'meta' if via_meta else 'from_encoding'}")
                if via_meta and (back.original_encoding or "").lower().replace("_", "-") not in (enc, {"latin-1": "iso-8859-1"}.get(enc, enc)):
                    ctx.count("bytes:meta-declared-encoding-not-used")
                    continue
                if got != want:
                    kf = "C05-declaration-renders-as-pi" if (has_class(forest, "Declaration") and (got == want_pi or decl_with_gt(forest))) else None
                    if kf is None:
                        cf = charref_forest(forest, enc)
                        if cf != forest and got in (o_normalise(cf), o_normalise(cf, decl_as_pi=True)):
                            kf = "C05-charref-in-special-strings"
                    ctx.violation(f"parse(encode({enc!r})) is not the tree modulo the documented normalisations",
                                  case=case, expected=ascii(want), observed=ascii(got), stream="bytes", kf=kf,
                                  extra={"bytes": ascii(data)})
        set_config(None)
        ctx.case(None)


def entity_table_strings():
    """every character / character sequence the entity tables speak of: keys of CHARACTER_TO_HTML_ENTITY and of
    CHARACTER_TO_XML_ENTITY, every alternative the two compiled regexes can match, every HTML 4 entity character
    (html.entities.codepoint2name), every value of the HTML5 table (html.entities.html5) and of HTML_ENTITY_TO_CHARACTER"""
    import html.entities as he
    e = E()
    ES = e["ES"]
    out = set(ES.CHARACTER_TO_HTML_ENTITY) | set(ES.CHARACTER_TO_XML_ENTITY) | set(ES.HTML_ENTITY_TO_CHARACTER.values())
    out |= {chr(cp) for cp in he.codepoint2name} | set(he.html5.values())
    for rx in (ES.CHARACTER_TO_HTML_ENTITY_RE, ES.CHARACTER_TO_HTML_ENTITY_WITH_AMPERSAND_RE):
        body = rx.pattern
        if body.startswith("(") and body.endswith(")"):
            body = body[1:-1]
        for alt in body.split("|"):
            key = re.sub(r"\(\?!\[.*?\]\)$", "", alt)
            if key and "\\" not in key:
                out.add(key)
    return sorted(x for x in out if x)


def stream_entity_table(ctx):
    """exhaustive over the live entity tables, every run: each character / sequence alone and in context, as text and as an
    attribute value, under 'minimal' and 'html' (and 'html5' as an extra), rendered, parsed again, rendered again — the round trip
    of the property on exactly the inputs a change of those tables affects"""
    e = E()
    strings = entity_table_strings()
    ctx.count("entity-table:strings", len(strings))
    chunk = 150
    for f in ("minimal", "html", "html5"):
        for lo in range(0, len(strings), chunk):
            part = strings[lo:lo + chunk]
            soup = parse("")
            texts = []
            for s_ in part:
                for t in (s_, "x" + s_ + "y;", s_ + s_):
                    p_ = soup.new_tag("p", attrs={"title": t})
                    p_.append(t)
                    soup.append(p_)
                    texts.append(t)
            rendered = soup.decode(formatter=f)
            back = parse(rendered)
            again = back.decode(formatter=f)
            ps = back.find_all("p", recursive=False)
            ok = len(ps) == len(texts) and parse(again).decode(formatter=f) == again
            bad = []
            if len(ps) == len(texts):
                for t, p2 in zip(texts, ps):
                    got_text = "".join(str.__str__(c) for c in p2.contents) if all(isinstance(c, e["NS"]) for c in p2.contents) else None
                    if got_text != o_ws(t, False) or p2.get("title") != t:
                        bad.append(t)
            elif not ok:
                bad = list(texts)
            if not ok and not bad:
                bad = list(texts)
            ctx.count(f"entity-table:{f}:checked", len(texts))
            # confirm each suspect alone, so that the replay is a one-character document
            for t in bad:
                recipe = {"kind": "api", "xml": False, "kids": [["T", "new_tag", "p", None, [["title", t]], False,
                                                                 [["S", "NavigableString", t]]]], "ops": []}
                one = build(recipe)
                r1 = one.decode(formatter=f)
                b1 = parse(r1)
                p1 = b1.find("p")
                t1 = None if p1 is None else "".join(str.__str__(c) for c in p1.contents)
                a1 = None if p1 is None else p1.get("title")
                r2 = b1.decode(formatter=f)
                r3 = parse(r2).decode(formatter=f)
                if t1 != o_ws(t, False) or a1 != t or r3 != r2:
                    ctx.violation(f"entity table: {ascii(t)} does not survive render -> parse under formatter {f!r}"
                                  + ("" if f != "html5" else " (html5 is outside the property's quantifier: reported all the same)"),
                                  case={"recipe": recipe, "element": 0, "formatter": f, "op": "roundtrip"},
                                  expected=f"text {ascii(o_ws(t, False))} and title {ascii(t)}; third rendering = second",
                                  observed=f"rendered {ascii(r1)}; text {ascii(t1)}, title {ascii(a1)}; second rendering {ascii(r2)}; third {ascii(r3)}",
                                  stream="entity-table")
    ctx.case(None)
    ctx.exhaustive_parts.append(f"{len(strings)} characters/sequences of the live entity tables (CHARACTER_TO_HTML_ENTITY, regex alternatives, "
                                "html.entities.codepoint2name, html5 values) x 3 contexts x text and attribute x minimal/html/html5: round trip")


def stream_table(ctx, batch):
    """exhaustive over the generated tables: every string class x every parent kind, under every formatter of both
    registries (render_checks runs all of them), both flavours — so a changed PREFIX/SUFFIX/registry entry that breaks a
    `decide` in Props/C05.lean also produces a concrete failing input here (the oracle's facts are hard-coded)"""
    n = 0
    for xml in (False, True):
        for cls in CLASSES:
            for parent in ("p", "script", "style", "pre", "rt", "br", "iframe", "xmp", "noembed", "noframes", "plaintext", "noscript",
                           "textarea", "title", "template"):
                for text in ("a<b&c>\"'", " \n ", "AT&amp;T <i>x</i>"):
                    if parent in P_RAW and cls not in TEXT_CLASSES and cls != "PreformattedString":
                        pass
                    kids = [["T", "ctor", parent, None, [["k", "v<&>\"'"]], parent == "br",
                             [["S", cls, text]]], ["T", "ctor", parent, None, [], True, []]]
                    check_tree(ctx, batch, {"kind": "api", "xml": xml, "kids": kids, "ops": []}, "table", False,
                               sub_elements=2, r=ctx.rng("table", n))
                    n += 1
    ctx.exhaustive_parts.append(f"{n} trees: every string class x parent in (p, script, style, pre, rt, br, iframe, xmp, noembed, noframes, plaintext, "
                                "noscript, textarea, title, template) x 3 texts x both flavours, "
                                "each under every formatter of its registry")


def run(ctx: Ctx):
    warnings.simplefilter("ignore")
    E()
    ctx.rule = ("a tree counts as non-trivial when it holds at least one of & < > \" in text or an attribute value (substitution or "
                "quoting is exercised) or a special string (comment, CDATA, PI, declaration, doctype); distinct = distinct trees")
    ctx.assumptions = [
        "CPython's html.parser tokenizer is recorded per case, not modelled (events of the real rendered text = emitR)",
        "entity substitution functions other than substitute_xml enter the model as their graph on the strings of the case (C09)",
        "the pre-order element chain with consistent parent links is C01/C02's invariant; edits are single-argument API calls",
        "XML-flavoured trees are built by hand (known_xml/is_xml, Tag(is_xml=True, can_be_empty_element=…)); lxml is absent; the "
        "re-parse is html.parser for both flavours; an XMLProcessingInstruction then comes back as a ProcessingInstruction with a "
        "trailing '?' (normal form)",
        "no <meta charset/content> attribute values (charset substitution on output is C08's)",
        "round trip is claimed for 'minimal' and 'html' only (the property's quantifier; html5 leaves bare legacy references, C09)",
        "Representable excludes: names outside [a-z][-.a-z0-9:_]* / [a-z_:][-.a-z0-9:_]*, duplicate keys, hidden inner elements, void "
        "names with children, anything but text inside script/style, '</' in script/style text, prefixed script/style and "
        "script/style with text under an XML formatter, empty text strings, bare PreformattedString, '--'/trailing '-'/leading "
        "'>' '->' in comments, ']' '>' in CDATA, '>' in PI/declaration/doctype; excluded trees are still rendered (pure "
        "correspondence) and their re-parse outcome is counted; trees obtained by parsing are always in the oracle "
        "(except void elements with children, an artefact of C04's defect)",
    ]
    batch = Batch(ctx)
    stream_corpus(ctx, batch)
    stream_small(ctx, batch)
    stream_table(ctx, batch)
    stream_entity_table(ctx)
    stream_configs(ctx, batch, ctx.n(330, 5000))
    stream_bytes(ctx, ctx.n(250, 3000))
    stream_formatter_args(ctx, batch, ctx.n(330, 4000))
    stream_string_output_ready(ctx, batch, ctx.n(250, 2500))
    stream_doctype_ids(ctx, batch, ctx.n(300, 3000))
    # (i) parsed documents
    n = ctx.n(1300, 18000)
    for i in range(n):
        r = ctx.rng("parsed", i)
        check_tree(ctx, batch, {"kind": "parse", "markup": gen_markup(r)}, "parsed", True, r=r)
    n = ctx.n(500, 6000)
    for i in range(n):
        r = ctx.rng("malformed", i)
        check_tree(ctx, batch, {"kind": "parse", "markup": gen_markup(r, malformed=True)}, "malformed", True, r=r)
    # (ii) API construction / edit histories, representable content
    n = ctx.n(1600, 24000)
    for i in range(n):
        r = ctx.rng("api", i)
        check_tree(ctx, batch, gen_api_recipe(r, 0.0), "api", False, r=r)
    # (iii) content outside Representable: rendered (pure correspondence), re-parse outcome recorded
    n = ctx.n(650, 8000)
    for i in range(n):
        r = ctx.rng("hostile", i)
        check_tree(ctx, batch, gen_api_recipe(r, 0.25), "hostile", False, r=r)
    batch.flush()
    ex = {k: v for k, v in ctx.dist.items() if k.startswith("excluded-outcome:")}
    ctx.notes.append("excluded content on the real code (reason: same-tree/different-tree counts): " + json.dumps(ex, sort_keys=True))
    ctx.notes.append("the structural `!=` of _event_stream cannot change the output: the parent of the next element is a proper "
                     "ancestor of every tag above it on the stack, and a tree is never structurally equal to a proper subtree of itself "
                     "(node counts differ); confirmed exhaustively on all small trees of identical tags")
    if ctx.lean is not None and not ctx.lean.ok:
        ctx.notes.append("Lean obligations did not check: the registry/class tables are covered by the corpus + all streams under every "
                         "registry formatter; see violations for concrete inputs")


# --------------------------------------------------------------------------------------------------------------
def replay(path):
    warnings.simplefilter("ignore")
    E()
    v = json.load(open(path))
    c = v["case"]
    if c.get("op") == "doctype":
        d = E()["cls"]["Doctype"].for_name_and_ids(*c["args"])
        print("for_name_and_ids", c["args"], "->", ascii(str.__str__(d)), "rendered", ascii(d.output_ready()))
        if "request" in c:
            rep = Driver().ask([c["request"]])[0]
            print("model:", ascii(uncps_local(rep)))
            return 0 if rep == cps(str.__str__(d)) else 1
        back = [struct(x) for x in parse(d.output_ready()).contents]
        print("re-parsed:", ascii(back))
        return 0 if back == o_normalise([("S", "Doctype", str.__str__(d))]) else 1
    if c.get("op") == "sor":
        print("string.output_ready case (class, text, parent name, argument):", c["class"], ascii(c["text"]), c["parent_name"],
              c["formatter_desc"])
        print("expected:", v.get("expected"))
        print("observed:", v.get("observed"))
        s = E()["cls"][c["class"]](c["text"])
        if c["formatter_desc"][0] in ("name", "default") and c["parent_name"] is None:
            try:
                print("detached string now:", ascii(s.output_ready(c["formatter_desc"][1])))
            except KeyError:
                print("detached string now: KeyError")
        return 1
    if "recipe" not in c:
        print(json.dumps(c, indent=1)[:3000])
        return 1
    set_config(c["recipe"])
    root = build(c["recipe"])
    els = elements_preorder(root)
    el = els[c.get("element", 0)] if c.get("element", 0) >= 0 else root
    f = c.get("formatter", "minimal")
    print("recipe:", ascii(json.dumps(c["recipe"]))[:1500])
    print("element:", c.get("element"), "formatter:", repr(f), "op:", c.get("op"))
    try:
        text = el.decode(formatter=f)
    except Exception as ex:
        print("decode raised:", type(ex).__name__, ex)
        return 1
    print("rendered:", ascii(text))
    rc = 0
    if c.get("op") in ("roundtrip",):
        st = struct(el)
        forest = st[6] if st[5] else [st]
        soup2 = parse(text)
        got = [struct(x) for x in soup2.contents]
        want = o_normalise(forest)
        print("re-parsed:        ", ascii(got))
        print("property demands: ", ascii(want))
        text2 = soup2.decode(formatter=f)
        text3 = parse(text2).decode(formatter=f)
        print("second rendering: ", ascii(text2))
        print("third rendering:  ", ascii(text3))
        if got != want or text2 != text3:
            rc = 1
    elif c.get("op") == "bytes":
        st = struct(root)
        forest = st[6]
        if c.get("via_meta"):
            root.insert(0, root.new_tag("meta", charset="x-replaced"))
        data = root.encode(c["encoding"], formatter=f)
        back = E()["BeautifulSoup"](data, "html.parser", **({} if c.get("via_meta") else {"from_encoding": c["encoding"]}))
        contents = back.contents[1:] if c.get("via_meta") else back.contents
        got = [struct(x) for x in contents]
        print("bytes:            ", ascii(data))
        print("re-parsed:        ", ascii(got))
        print("property demands: ", ascii(o_normalise(forest)))
        rc = 0 if got == o_normalise(forest) else 1
    elif c.get("op") == "raises":
        print("decode() returned normally")
        rc = 0
    elif c.get("op") == "fmtarg":
        arg, tok = make_formatter_arg(c["formatter_desc"])
        try:
            real = "D:" + cps(el.decode(formatter=arg))
        except KeyError:
            real = "KeyError"
        rep = Driver().ask([c["request"]])[0]
        u = lambda t: t if not t.startswith("D:") else ascii(uncps_local(t[2:]))
        print("formatter argument:", c["formatter_desc"])
        print("model:", u(rep))
        print("real: ", u(real))
        rc = 0 if rep == real else 1
    elif c.get("op") == "detached":
        el.extract()
        after = el.decode(formatter=f)
        print("after extract():", ascii(after))
        rc = 0 if after == text else 1
    elif c.get("op") == "render":
        rep = Driver().ask([c["request"]])[0]
        parts = rep.split(" | ")
        i = c.get("element", 0)
        print("model:", pretty_dc(parts[i] if i < len(parts) else rep))
        print("real: ", pretty_dc(f"D:{cps(text)};C:{cps(el.decode_contents(formatter=f))}"))
        rc = 0 if (i < len(parts) and parts[i] == f"D:{cps(text)};C:{cps(el.decode_contents(formatter=f))}") else 1
    else:
        print("expected:", v.get("expected"))
        print("observed:", v.get("observed"))
        rc = 1
    return rc
