"""C06 \u2014 any str/bytes input yields a tree or ParserRejectedMarkup, never another failure.

Streams (all seeded from VERIF_SEED):
  construct      generated str/bytes inputs x constructor encoding arguments through BeautifulSoup(x, "html.parser", ...):
                 outcome class in {tree, ParserRejectedMarkup, OTHER}; OTHER is a violation (direct oracle). On a tree: compact
                 pointer check + decode/get_text/prettify/encode('ascii')/copy/find_all must not raise. The outcome class, the
                 locator warning and every numeric character reference's text are compared with the Lean model's prediction.
  charref-direct handle_charref called directly with names over [0-9a-fA-FxX] and every document encoding shape.
  dammit         an instrumented UnicodeDammit against the model of its two passes.
  fault          a harness TreeBuilder that rejects the first k strategies after j events: final tree == clean parse.
  tokenizer-pipeline  the real constructor vs the Lean pipeline tokenizer MODEL -> handlers -> construction machine (`c06 pipe`): outcome
                 class and tree; the marked-section characterisation (`RaisesAt`) in Python vs Lean and against the real outcome.
"""
import copy
import json
import logging
import os
import re
import warnings
from html.parser import HTMLParser

from .common import Ctx, Driver, rng_for

MANIFEST = dict(
    text=("Lean theorems with explicit Python exception classes (the class lattice = the live __mro__s, mro_table). ENVELOPE: every operation "
          "below the constructor that can raise is a primitive free to raise any class (UnicodeDammit/EncodingDetector generator, codecs.lookup, "
          "str(bytes,codec,errors), Logger.warning, the declared_html_encoding property, warnings.warn, reset/initialize_soup, the parser object, "
          "both tokenizer phases feed/close, every handle_* callback, int()/chr()/one-byte decodes, the end-of-input flush) and every try/except "
          "of the repository is a clause (Code); `envelope`: for every clause variant that Covers (decidable) the recorded kinds, every behaviour "
          "of the primitives within them, every object, every str/bytes markup, the constructor ends in a tree or ParserRejectedMarkup "
          "(envelope_live for the working tree, v4130_does_not_cover for 4.13.0 as shipped); tightness: lookup_escapes, decode_escapes, "
          "generator_escapes (PEP 479 included), feed_converts, tokenizer_escapes, close_must_be_guarded, convert_clause_must_be_broad; "
          "injection_table: the whole primitive-level injection matrix of the LIVE constructor (16 primitives x 33 classes, run by the translator) "
          "equals the model's prediction. STATE: reset_absorbs, retry_first_accept, retry_all_reject, retry_raise_propagates, retry_by_index, "
          "retry_ok_state and constructE_ok_state (whenever the constructor returns, on any call path, the object is field for field one complete "
          "clean accepted attempt; machineE_wf derives the frame conditions from the callbacks'), feed_touches_reassigned / "
          "header_and_reset_fields over the field tables instrumented from the live objects. PIECES: heuristics_total, heuristicsOld_error_iff, "
          "heuristics_agree_old; charref_total, charref_spec, charrefSpec_identity, cp1252_table, handleCharrefOld_errors, charref_agree_old, "
          "charref_envelope_live/_v4130/_spec (the concrete conversion is the envelope model at CPython's int/chr/codecs); "
          "dammit_some_of_fallback, dammit_envelope_refines, dammitE_some_of_fallback, prepare_outcome; original_encoding_is_codec (repaired _to_unicode), withEmptyGuard_within, live_original_encoding_is_codec; constructor_outcome, feed_outcome; witnesses "
          "on the unrepaired mirrors; live_code_returns_on_witnesses. Tie: generated inputs of the quantifier's classes through the real "
          "constructor (outcome class, locator warning, every character reference) against the model; every primitive recorded on every input "
          "(classes raised must be recorded kinds); injection of every class at every primitive on several documents against `predict`; "
          "UnicodeDammit with individual lookups/decodings/the generator/the log call made to raise against `dammitE`; an instrumented "
          "UnicodeDammit against the model of its passes; fault injection through a harness TreeBuilder (k rejected strategies, acceptance, and MORE strategies offered after the accepted one: the loop stops at the first acceptance); histories across documents and retries (unclosed void elements first, stray end tags between text after; fresh/shared builder), each in its own interpreter, tree node by node against the same markup parsed alone in a fresh interpreter; "
          "a render stream (trees holding <meta> charset declarations rendered for every output-encoding name shape: the tree's own original_encoding incl. every digit-named codec alias given as from_encoding or declared by the page, ordinary and Python-specific codecs, names special in regex templates; each declaration keeps its prefix and gets the name literally, stated over the live pattern's matches); deep-nesting families around and above the recursion limit with whitespace-preserving elements and string containers; documents empty after the byte-order mark x names that are no text codec; direct oracle (original_encoding names a text codec; no other exception; tree well linked, renderable incl. in its own original encoding, searchable, copyable; ParserRejectedMarkup only with a cause). OVER THE TOKENIZER MODEL (Model/Tokenizer.lean, the code mirror of CPython's html.parser tied to it by ./check TK; Model/EnvelopeTokenizer.lean; Props/C06 section TokenizerModel): the parse is no longer a recorded callback stream there - `feedClose` = text -> tokenizer model -> bs4's handlers (Adapter.toEvents) -> construction machine (Builder.build), and PROVED for every text, every behaviour of html.unescape/str.lower as total functions and every handler/builder configuration: pipeline_outcome / pipeline_total (exactly one of {tree = build of the text's events, ParserRejectedMarkup}; the only raise of the tokenizer model is parse_marked_section's AssertionError; no loop runs out of fuel), pipeline_tree_well_linked (C03's Good heap, tag stack [0], all stacks and the buffer empty, at the events of every text), rejected_only_if_marked_section (a rejected text contains, at some index, `<![` followed by a non-letter, or by a name + whitespace + one more character whose lowered name is none of the EIGHT keywords of CPython 3.12 - temp cdata ignore include rcdata if else endif; no closing delimiter is needed), accepted_if_no_raising_section, marked_section_raises_iff and turn_rejects_iff (EXACT, both directions, per call of parse_marked_section and per turn of goahead's loop: normal mode and the first `<`/`&` of the buffer starts such a suffix), rejected_if_plain_prefix (the converse at run level when only plain text precedes the section), rejected_texts_leave_no_trace / all_texts_rejected_no_document (k texts rejected part-way, then a text that parses: the document is the parse of that text alone - composed with C03 rejected_strategies_leave_no_trace), tokenizer_model_raises_only_assertion, tokenizer_phases_are_run, envelope_live_tokenizer_model (the envelope with both tokenizer primitives REPLACED by the tokenizer model: the hypothesis about the tokenizer is discharged). NOT proved: the run-level `if` direction in general (rejected <-> SOME turn of the run is a raising turn needs the list of turns of a run as an object). Tie: stream tokenizer-pipeline - str texts of every C06 generator (bytes inputs as latin-1 text), a directed family around `<![` (43 keywords x 20 tails alone and in 36 contexts: comments, CDATA, script/style, attribute values, declarations, PIs, end of input) and sections spliced into generated texts, through the real constructor and through `c06 pipe` (the same feedClose): same outcome class, same tree incl. attributes and positions; the Python statement of RaisesAt = the model's (`c06 raises`); rejected => a RaisesAt index exists, RaisesAt at the first markup => rejected, checked on the real outcome."),
    design="7/C06",
    note=("PARTIAL. Trusted residue, named: `Prims.Within Gen.C06.recorded` - CPython's codecs.lookup raises only LookupError/ValueError/"
          "UnicodeEncodeError; str(bytes,codec,errors) only LookupError/ValueError/UnicodeEncodeError/UnicodeDecodeError/UnicodeError; html.parser's "
          "goahead only AssertionError/ValueError (for the Lean tokenizer MODEL this is now a theorem - only AssertionError, tokenizer_model_raises_only_assertion / envelope_live_tokenizer_model - and what is left to measurement is (i) that the model is CPython's tokenizer: equality of callback streams and outcome class on every text of ./check TK and of stream tokenizer-pipeline, (ii) html.unescape inside parse_starttag, a total parameter of the model, really raising ValueError on an over-long decimal reference: measured, class `html.unescape-raises`); int() only ValueError; chr() only ValueError/OverflowError; one-byte decodes only "
          "UnicodeDecodeError/UnicodeError; warnings.warn (filters not 'error'), Logger.warning, find_declared_encoding, reset, the parser "
          "constructor and the tree-building callbacks (C03/C04's models) never raise. Measured on every run: each primitive is wrapped and the exact "
          "classes it raises are compared with these lists. That the tree is well linked for every event sequence is C03's theorem "
          "(parsed_document_well_linked); renderable/searchable/copyable is the Python oracle here and C05/C08/C10/C11/C12's theorems. Still measured, not modelled: CPython codecs' raise kinds (codecs.lookup, str(bytes,codec,errors), one-byte decodes), html.unescape, the interpreter's recursion limit on deep trees (post-construction operations). Non-str/bytes "
          "markup (TypeError by design) and non-str encoding arguments are outside the quantifier and only recorded."),
    technique="Lean 4 proof with explicit exception classes + generated tables from the live objects (field sets, MROs, injection matrix) + differential correspondence + direct Python oracle + fault injection at builder and primitive level",
)

logging.disable(logging.CRITICAL)

SURR = [0xD800, 0xDBFF, 0xDC00, 0xDFFF]
NAME_RE = re.compile(r"^(?:[0-9]+|[xX][0-9a-fA-F]+)$")

DOCS = [
    "<!DOCTYPE html><html lang='en'><head><meta charset=\"utf-8\"><title>T &amp; t</title></head><body class=\"a b\" id=x><p>one<br>two<br/>three</p></body></html>",
    "<?xml version='1.0' encoding='iso-8859-1'?><!DOCTYPE html PUBLIC \"-//W3C//DTD XHTML 1.0 Strict//EN\" \"http://www.w3.org/TR/xhtml1/DTD/xhtml1-strict.dtd\"><html xmlns='http://www.w3.org/1999/xhtml'><body><svg:rect xmlns:svg='u' width=\"1\"/></body></html>",
    "<p title='a\"b' data-x=\"c'd\" e=f g h=''>x &lt; y &#65; &#x42; &#128; &#150; &nosuch; &copy &amp</p><!-- comment --><!--[if IE]><b>ie</b><![endif]--><![if !IE]>n<![endif]>",
    "<div><![CDATA[ cdata ]]><?php echo 1 ?><!ELEMENT br EMPTY><!x y><!></div><script>if (a<b && c>d) { x = '</div>'; }</script><style>p > a { }</style><textarea>\n <b>t</b></textarea>",
    "<!DOCTYPE html [ <!ENTITY e \"v\"> <!ATTLIST a b CDATA #IMPLIED> <!ELEMENT a (#PCDATA)> <!NOTATION n SYSTEM \"s\"> <!-- c --> <?pi?> %pe; ]><a b='&e;'>t</a>",
    "<table><tr><td>1<td>2<tr><th>3</table><ul><li>a<li>b</ul><a href=x><a href=y>z</a></a></p></b><b><i>bi</b>i</i><a/b><c / ></>< d></ e >",
    "<pre>\n  keep\n</pre><ruby>r<rt>t</rt><rp>(</rp></ruby><template><p>t</p></template><select><option>o<option selected>p</select><img src=a alt=''><input value=v disabled>",
    "<meta http-equiv=\"Content-Type\" content=\"text/html; charset=windows-1252\"><meta content><meta charset><p class>\u00e9\u2603\U0001f600 \x00 \x7f \x85</p>",
    "text only, no tags at all &#38; nothing else",
    "<a b=\"unterminated <c d='e\"><f g='h\">i</f><j k=l\"m n='o>p</j><q r=\"s>t",
]

BOMS = [b"\xef\xbb\xbf", b"\xff\xfe", b"\xfe\xff", b"\xff\xfe\x00\x00", b"\x00\x00\xfe\xff", b"\x2b\x2f\x76\x38", b"\xf7\x64\x4c",
        b"\xdd\x73\x66\x73", b"\x0e\xfe\xff", b"\xfb\xee\x28", b"\x84\x31\x95\x33"]

PY_CODECS = ["idna", "punycode", "unicode_escape", "unicode-escape", "raw_unicode_escape", "undefined", "rot13", "rot_13", "base64",
             "base64_codec", "zlib", "zlib_codec", "hex", "hex_codec", "bz2", "uu", "quopri", "string-escape", "unicode_internal", "mbcs",
             "oem", "utf-7", "utf_8_sig", "charmap", "utf-16", "utf-32", "utf-16-le", "UTF-32BE"]
REAL_CODECS = ["utf-8", "UTF8", "ascii", "latin-1", "iso-8859-1", "windows-1252", "cp1252", "cp1251", "koi8-r", "shift_jis", "x-sjis",
               "euc-jp", "gb2312", "gbk", "big5", "iso-2022-jp", "iso2022_kr", "cp037", "macintosh", "mac-roman", "cp437", "hz", "utf-16be"]
# codec names that start with a digit (every such alias of the running CPython): legitimate values of original_encoding
import encodings.aliases as _aliases
DIGIT_CODECS = sorted(k for k in _aliases.aliases if k[:1].isdigit())
REAL_CODECS = REAL_CODECS + DIGIT_CODECS
BOGUS = ["no-such", "", " ", "utf-9", "utf_8_", "\x00", "a" * 300, "\u00e9", "\udfff", "utf-8\n", "8", "-", "_", "utf--8", "ISO_8859-1:1987",
         "x" * 5000, "cp" + "9" * 50]


# --------------------------------------------------------------------------------------------
# input encoding for transport / replay
# --------------------------------------------------------------------------------------------
class StrSub(str):
    """a str subclass as markup ("any str value")"""


class BytesSub(bytes):
    """a bytes subclass as markup"""


def enc_markup(x):
    sub = {"sub": type(x).__name__} if type(x) not in (str, bytes) else {}
    if isinstance(x, bytes):
        return {"bytes": bytes(x).hex()} | sub
    return {"str": [ord(c) for c in x]} | sub


def dec_markup(d):
    if "bytes" in d:
        b = bytes.fromhex(d["bytes"])
        return BytesSub(b) if d.get("sub") else b
    t = "".join(chr(c) for c in d["str"])
    if d.get("sub") == "NavigableString":
        from bs4.element import NavigableString
        return NavigableString(t)
    return StrSub(t) if d.get("sub") else t


def enc_kwargs(kw):
    out = {}
    for k, v in kw.items():
        if isinstance(v, str):
            out[k] = {"str": [ord(c) for c in v]}
        elif isinstance(v, (list, tuple, set, frozenset, dict)):
            out[k] = {"list": [[ord(c) for c in s] for s in sorted(v)] if not isinstance(v, (list, tuple)) else [[ord(c) for c in s] for s in v],
                      "form": type(v).__name__}
        elif v is None:
            out[k] = None
        else:
            out[k] = {"repr": repr(v)}
    return out


def dec_kwargs(d):
    out = {}
    for k, v in d.items():
        if v is None:
            out[k] = None
        elif "str" in v:
            out[k] = "".join(chr(c) for c in v["str"])
        elif "list" in v:
            out[k] = ["".join(chr(c) for c in s) for s in v["list"]]
    return out


def cps_tok(units):
    return ",".join(map(str, units)) if units else "-"


# --------------------------------------------------------------------------------------------
# oracles on a constructed tree
# --------------------------------------------------------------------------------------------
def preorder(soup):
    """iterative pre-order over .contents (root excluded); also checks parent and sibling links"""
    from bs4.element import Tag
    order, problems = [], None
    stack = [(soup, 0)]
    depth = maxdepth = 0
    while stack:
        node, i = stack.pop()
        cs = node.contents
        if i < len(cs):
            stack.append((node, i + 1))
            c = cs[i]
            if c.parent is not node and problems is None:
                problems = f"child #{i} of <{node.name}> has another parent"
            prev = cs[i - 1] if i > 0 else None
            if c.previous_sibling is not prev and problems is None:
                problems = f"previous_sibling of child #{i} of <{node.name}> is wrong"
            nxt = cs[i + 1] if i + 1 < len(cs) else None
            if c.next_sibling is not nxt and problems is None:
                problems = f"next_sibling of child #{i} of <{node.name}> is wrong"
            order.append(c)
            if isinstance(c, Tag):
                stack.append((c, 0))
                maxdepth = max(maxdepth, len(stack))
    return order, problems, maxdepth


def well_linked(soup):
    """C01's statement for a freshly parsed tree: the six pointer fields describe the pre-order of .contents"""
    order, problem, depth = preorder(soup)
    if problem:
        return problem, order, depth
    if len({id(x) for x in order}) != len(order):
        return "an element occurs twice", order, depth
    if soup.parent is not None or soup.next_sibling is not None or soup.previous_sibling is not None or soup.previous_element is not None:
        return "root has parent/sibling/previous links", order, depth
    if not (soup.next_element is None or (order and soup.next_element is order[0])):
        return "root.next_element is neither None nor the first element", order, depth
    for i, n in enumerate(order):
        want = order[i + 1] if i + 1 < len(order) else None
        if n.next_element is not want:
            return f"next_element of element #{i} is wrong", order, depth
        if i == 0:
            if not (n.previous_element is None or n.previous_element is soup):
                return "previous_element of the first element is neither None nor the root", order, depth
        elif n.previous_element is not order[i - 1]:
            return f"previous_element of element #{i} is wrong", order, depth
    return None, order, depth


def dump(soup):
    """canonical dump of a parsed object: structure, pointer linkage by pre-order index, strategy fields, parser state"""
    from bs4.element import Tag
    order, problem, _ = preorder(soup)
    idx = {id(soup): -1}
    for i, n in enumerate(order):
        idx[id(n)] = i

    def ix(o):
        return None if o is None else idx.get(id(o), "foreign")

    nodes = []
    for n in order:
        links = (ix(n.parent), ix(n.next_element), ix(n.previous_element), ix(n.next_sibling), ix(n.previous_sibling))
        if isinstance(n, Tag):
            nodes.append(("tag", n.name, n.prefix, sorted((k, repr(v)) for k, v in n.attrs.items()), n.sourceline, n.sourcepos,
                          n.hidden, n.can_be_empty_element, links))
        else:
            nodes.append((type(n).__name__, str(n), links))
    b = soup.builder
    state = dict(
        original_encoding=soup.original_encoding, declared_html_encoding=soup.declared_html_encoding,
        contains_replacement_characters=soup.contains_replacement_characters, markup=soup.markup,
        name=soup.name, hidden=soup.hidden, attrs=sorted(soup.attrs.items()), is_xml=soup.is_xml, known_xml=soup.known_xml,
        namespaces=sorted(soup._namespaces.items()), current_data=list(soup.current_data),
        currentTag=ix(soup.currentTag), tagStack=[ix(t) for t in soup.tagStack],
        open_tag_counter=sorted((k, v) for k, v in soup.open_tag_counter.items() if v),
        pws=[ix(t) for t in soup.preserve_whitespace_tag_stack], scs=[ix(t) for t in soup.string_container_stack],
        most_recent=ix(soup._most_recent_element), root_links=(ix(soup.next_element), ix(soup.next_sibling)),
        element_classes=sorted(map(repr, soup.element_classes.items())), parse_only=repr(soup.parse_only),
        builder_soup=b.soup is None,
        builder=sorted((k, repr(v)) for k, v in b.__dict__.items() if k not in ("soup", "plan", "attempts", "log")),
        keys=sorted(soup.__dict__),
    )
    return {"problem": problem, "nodes": nodes, "state": state}


def post_ops(soup):
    """the tree 'can be rendered, searched and copied'"""
    for name, fn in (("decode", lambda: soup.decode()), ("get_text", lambda: soup.get_text()), ("prettify", lambda: soup.prettify()),
                     ("encode-ascii", lambda: soup.encode("ascii")), ("copy", lambda: copy.copy(soup)),
                     ("find_all", lambda: soup.find_all(True))):
        try:
            fn()
        except Exception as e:  # noqa
            return f"{name}() raised {type(e).__name__}: {str(e)[:120]}"
    # rendered in its OWN encoding (what the document was read as): the charset substitution in <meta> runs with that name
    oe = soup.original_encoding
    if oe:
        try:
            soup.decode(eventual_encoding=oe)
        except Exception as e:  # noqa
            return f"decode(eventual_encoding=original_encoding={oe!r}) raised {type(e).__name__}: {str(e)[:120]}"
        for name, fn in ((f"encode(original_encoding={oe!r})", lambda: soup.encode(oe)),
                         (f"prettify(encoding=original_encoding={oe!r})", lambda: soup.prettify(encoding=oe))):
            try:
                fn()
            except UnicodeError:
                pass        # the codec's own refusal to encode (idna, punycode, ... with xmlcharrefreplace): CPython's, recorded by C08
            except Exception as e:  # noqa
                return f"{name} raised {type(e).__name__}: {str(e)[:120]}"
    return None


# --------------------------------------------------------------------------------------------
# running the real code on one input
# --------------------------------------------------------------------------------------------
class _Tok(HTMLParser):
    def __init__(self):
        super().__init__(convert_charrefs=False)
        self.names = []

    def handle_charref(self, name):
        self.names.append(name)


def plain_tokenize(text):
    """CPython's tokenizer alone, with the settings bs4 uses: how does it end, and which charref names does it deliver"""
    p = _Tok()
    try:
        p.feed(text)
        p.close()
        return "ok", p.names
    except AssertionError:
        return "assert", p.names
    except ValueError as e:
        return ("value" if type(e) is ValueError else "other:" + type(e).__name__), p.names
    except Exception as e:  # noqa
        return "other:" + type(e).__name__, p.names


_ORIG_TABLES = {}


def orig_table(enc):
    """protocol token for the one-byte decoder of a document encoding"""
    if not enc:
        return "-"
    if enc not in _ORIG_TABLES:
        ent = []
        for n in range(256):
            try:
                r = bytearray([n]).decode(enc)
                ent.append("z" if r == "" else ".".join(str(ord(c)) for c in r))
            except UnicodeDecodeError:
                ent.append("e")
            except Exception:  # noqa
                ent.append("x")
        _ORIG_TABLES[enc] = ";".join(ent)
    return _ORIG_TABLES[enc]


def run_constructor(markup, kwargs, post=True):
    """-> record (plain data only)"""
    from bs4 import BeautifulSoup
    from bs4.exceptions import ParserRejectedMarkup
    from bs4.builder import _htmlparser as HP
    from bs4 import MarkupResemblesLocatorWarning
    calls = []
    orig_hc = HP.BeautifulSoupHTMLParser.handle_charref

    def spy(self, name):
        rec = [name, self.soup.original_encoding, None]
        calls.append(rec)
        hd = self.handle_data

        def cap(data):
            rec[2] = data
            hd(data)
        self.handle_data = cap
        try:
            orig_hc(self, name)
        finally:
            del self.handle_data

    rec = dict(outcome=None, exc=None, warn="none", link=None, post=None, calls=calls, depth=0, size=0, half_built=None)
    HP.BeautifulSoupHTMLParser.handle_charref = spy
    soup = None
    try:
        with warnings.catch_warnings(record=True) as w:
            warnings.simplefilter("always")
            try:
                soup = BeautifulSoup(markup, "html.parser", **kwargs)
                rec["outcome"] = "tree"
            except ParserRejectedMarkup as e:
                rec["outcome"] = "prm"
                rec["exc"] = str(e)[:160]
            except (KeyboardInterrupt, SystemExit):
                raise
            except BaseException as e:  # noqa
                rec["outcome"] = "other:" + type(e).__name__
                rec["exc"] = str(e)[:160]
        for x in w:
            if issubclass(x.category, MarkupResemblesLocatorWarning):
                msg = str(x.message)
                rec["warn"] = "url" if "URL" in msg else "filename"
    finally:
        HP.BeautifulSoupHTMLParser.handle_charref = orig_hc
    if soup is not None:
        prob, order, depth = well_linked(soup)
        rec["link"] = prob
        rec["depth"], rec["size"] = depth, len(order)
        if soup.markup is not None or soup.builder.soup is not None:
            rec["half_built"] = "markup/builder.soup not cleared after a successful parse"
        rec["orig"] = soup.original_encoding
        rec["orig_not_codec"] = None
        if soup.original_encoding is not None:
            try:
                "".encode(soup.original_encoding)
                str(b"x", soup.original_encoding, "replace")
            except LookupError as e:
                rec["orig_not_codec"] = f"{type(e).__name__}: {str(e)[:80]}"
            except Exception:  # noqa (the codec exists and refuses these bytes: fine)
                pass
        rec["repl"] = soup.contains_replacement_characters
        if post and depth <= 6000:
            rec["post"] = post_ops(soup)
    return rec


def strategy_of(markup, kwargs):
    """what prepare_markup yields for this input (None = ParserRejectedMarkup from the generator), independently of the constructor"""
    from bs4.builder import HTMLParserTreeBuilder
    from bs4.exceptions import ParserRejectedMarkup
    if isinstance(markup, str):
        return (markup, None, None, False)
    try:
        with warnings.catch_warnings():
            warnings.simplefilter("ignore")
            st = list(HTMLParserTreeBuilder().prepare_markup(markup, kwargs.get("from_encoding") or None,
                                                             exclude_encodings=kwargs.get("exclude_encodings")))
        return st[0]
    except ParserRejectedMarkup:
        return None
    except Exception:  # noqa  (the constructor raises the same: reported by the outcome oracle)
        return None


def eval_case(case):
    """worker: one construct case -> (record, protocol lines with the implementation's replies)"""
    stream, markup, kwargs, post = case
    rec = run_constructor(markup, kwargs, post)
    rec["stream"] = stream
    st = strategy_of(markup, kwargs)
    has_text = True if isinstance(markup, str) else dammit_has_text(markup, kwargs)
    rec["has_text"] = has_text
    text = None if st is None else st[0]
    tok, names = ("ok", []) if text is None else plain_tokenize(text)
    rec["tok"] = tok
    # recorded facts about where CPython's tokenizer gives up: AssertionError only behind a "<!", ValueError only for a decimal
    # reference beyond the digit limit inside a tag
    rec["tok_fact"] = None
    if tok == "assert" and "<!" not in text:
        rec["tok_fact"] = "AssertionError without any '<!' in the text"
    if tok == "value" and not re.search(r"<[^<>]*&#[0-9]{4301,}", text):
        rec["tok_fact"] = "ValueError without a decimal reference of more than 4300 digits inside a tag"
    rec["names_ok"] = all(NAME_RE.match(n) for n in names)
    rec["nrefs"] = len(names)
    rec["longref"] = any(len(n) > 4300 for n in names)
    units = list(markup) if isinstance(markup, bytes) else [ord(c) for c in markup]
    kind = "b" if isinstance(markup, bytes) else "s"
    lines = []
    enc = None if st is None else st[1]
    need_table = enc is not None and bool(names)
    tab = orig_table(enc) if need_table else "-"
    tokc = tok if tok in ("ok", "assert", "value") else "other"
    model_kind = "ctor"
    lines.append((f"c06 {model_kind} {kind} {cps_tok(units[:300])} {'some' if has_text else 'none'} {tokc} {tab} "
                  f"{';'.join(cps_tok([ord(c) for c in n]) for n in names) if names else '-'}",
                  {"tree": "tree", "prm": "prm"}.get(rec["outcome"], "err " + rec["outcome"].split(":")[-1]), "outcome"))
    if len(units) <= 300 and not rec["outcome"].startswith("other"):
        lines.append((f"c06 heur {kind} {cps_tok(units)}", "ok " + rec["warn"], "warning"))
    seen = set()
    for name, oe, data in rec["calls"]:
        key = (name, oe)
        if key in seen or data is None:
            continue
        seen.add(key)
        lines.append((f"c06 charref {orig_table(oe)} {cps_tok([ord(c) for c in name])}", "ok " + cps_tok([ord(c) for c in data]), "charref"))
    rec["calls"] = [(n if len(n) < 40 else n[:20] + f"..({len(n)})", oe, d) for n, oe, d in rec["calls"][:6]]
    return rec, lines


def dammit_has_text(markup, kwargs):
    """Does UnicodeDammit itself end with text for these bytes (independently of how prepare_markup reads its result)?"""
    from bs4.dammit import UnicodeDammit
    if markup == b"":
        return True
    fe = kwargs.get("from_encoding") or None
    try:
        with warnings.catch_warnings():
            warnings.simplefilter("ignore")
            d = UnicodeDammit(markup, known_definite_encodings=[fe] if fe else [], user_encodings=[], is_html=True,
                              exclude_encodings=kwargs.get("exclude_encodings"))
        return getattr(d, "unicode_markup", None) is not None
    except Exception:  # noqa (the constructor raises the same: reported by the outcome oracle)
        return None


def eval_chunk(chunk):
    """worker: the cases of one chunk, with every primitive of the call path recorded (exact classes raised)"""
    from . import c06_envelope as E
    seen = {}
    with E.record(seen):
        out = [eval_case(c) for c in chunk]
    return out, {pt: sorted(E.proto_name(c) for c in cs) for pt, cs in seen.items()}


# --------------------------------------------------------------------------------------------
# generators
# --------------------------------------------------------------------------------------------
def gen_truncations(ctx):
    """every prefix of every corpus document (str); thorough: also every suffix, and every prefix as UTF-8 bytes"""
    out = []
    for d in DOCS:
        for i in range(len(d) + 1):
            out.append(("trunc", d[:i], {}, True))
        if ctx.thorough:
            for i in range(1, len(d)):
                out.append(("trunc-suffix", d[i:], {}, True))
            for i in range(0, len(d) + 1, 1):
                out.append(("trunc-bytes", d[:i].encode("utf-8"), {}, True))
    return out


def gen_surrogates(ctx):
    """lone surrogates in every position of short tag-less strings (the heuristics path), and inside documents"""
    out = []
    bases = ["", "a", "ab", "a.html", "x.txt", "http://a", "https:b", "C:/a.xml", "a b", "&#65;", "a\x00b"]
    for b in bases:
        for s in SURR:
            for i in range(len(b) + 1):
                out.append(("surrogate-short", b[:i] + chr(s) + b[i:], {}, True))
        out.append(("surrogate-short", b + "\ud800\udc00", {}, True))
        out.append(("surrogate-short", b + "\udc00\ud800", {}, True))
    r = ctx.rng("surrogate")
    for _ in range(ctx.n(300, 4000)):
        d = r.choice(DOCS)
        k = r.randint(1, 3)
        for _ in range(k):
            i = r.randint(0, len(d))
            d = d[:i] + chr(r.choice(SURR + [r.randint(0xD800, 0xDFFF)])) + d[i:]
        out.append(("surrogate-doc", d, {}, True))
    # boundary of the guard: 255/256/257 units with a surrogate
    for n in (254, 255, 256, 257):
        out.append(("surrogate-short", "a" * n + "\udfff", {}, True))
        out.append(("surrogate-short", "a" * n + "\udfff" + "<", {}, True))
        out.append(("surrogate-short", "a" * n + "\udfff" + "\n", {}, True))
    return out


def gen_charrefs(ctx):
    out = []
    r = ctx.rng("charref")
    lens = list(range(1, 12)) + [50, 100, 1000, 4299, 4300, 4301, 4302, 5000, 6000]
    terms = [";", "", " ", "<", "x", ";;", "&", "\n"]
    values = [0, 1, 9, 10, 13, 32, 38, 60, 65, 127, 128, 129, 141, 143, 144, 150, 157, 159, 160, 255, 256, 0xD7FF, 0xD800, 0xDFFF, 0xE000,
              0xFFFD, 0xFFFE, 0xFFFF, 0x10000, 0x10FFFF, 0x110000, 2 ** 31 - 1, 2 ** 31, 2 ** 32, 2 ** 63, 2 ** 64, 10 ** 30]
    ctxs = ["%s", "<p>%s</p>", "<a href=\"%s\">t</a>", "<a href=%s>t</a>", "<script>%s</script>", "<!--%s-->", "<textarea>%s</textarea>",
            "<title>%s</title>", "<p a='%s'>"]
    for n in lens:
        for digit in "190":
            for hexa in (False, True):
                for t in (";", ""):
                    body = ("x" if hexa else "") + digit * n
                    for c in (ctxs if n in (1, 4300, 4301, 5000) else ctxs[:3]):
                        out.append(("charref-len", c % ("&#" + body + t), {}, True))
    for v in values:
        for form in ("%d", "x%x", "X%X", "0%d", "x0%x", "x%x".replace("%x", "00000%x")):
            for t in terms[:4]:
                out.append(("charref-val", "<p>&#" + (form % v) + t + "</p>", {}, True))
                out.append(("charref-val", ("&#" + (form % v) + t), {}, True))
    for bad in ["&#;", "&#x;", "&#xg;", "&#-1;", "&#+1;", "&# 1;", "&#1_0;", "&#x0x41;", "&#xx41;", "&#Xx41;", "&#1x;", "&#\u0663;", "&#x\uff21;",
                "&#0x41;", "&#1e3;", "&#" , "&#x", "&", "&#65", "&#x41", "&#\x00;", "&#\udfff;"]:
        out.append(("charref-bad", bad, {}, True))
        out.append(("charref-bad", "<p>" + bad + "z</p>", {}, True))
        out.append(("charref-bad", "<a b=\"" + bad + "\">", {}, True))
    # bytes documents with every reference below 256 under many document encodings (the Windows-1252 detour)
    encs = REAL_CODECS + PY_CODECS
    for e in encs:
        nums = sorted(set(r.sample(range(256), 12) + r.sample(range(128, 160), 8) + [0, 1, 43, 45, 92, 255]))
        refs = "".join("&#%d;" % n for n in nums)
        for doc in (refs, "<p>" + refs + "</p>-", "+AGE-" + refs, "\\u1234" + refs):
            for mode in (0, 1):
                try:
                    b = doc.encode(e)
                except Exception:  # noqa
                    b = doc.encode("ascii")
                if mode == 0:
                    out.append(("charref-enc", doc.encode("ascii"), {"from_encoding": e}, True))
                    if b != doc.encode("ascii"):
                        out.append(("charref-enc", b, {"from_encoding": e}, True))
                else:
                    out.append(("charref-enc", ("<meta charset='%s'>" % e).encode("ascii", "replace") + doc.encode("ascii"), {}, True))
    for _ in range(ctx.n(300, 5000)):
        n = r.choice([r.randint(1, 12), r.randint(1, 6000), r.choice([4299, 4300, 4301])])
        hexa = r.random() < 0.4
        alphabet = "0123456789abcdefABCDEF" if hexa else "0123456789"
        body = ("xX"[r.randint(0, 1)] if hexa else "") + "".join(r.choice(alphabet) for _ in range(n))
        out.append(("charref-rand", (r.choice(ctxs) % ("&#" + body + r.choice(terms))), {}, True))
    return out


SPECIAL = list("<>!?/-[]'\"=&#;x \n\t\x00\x0c\r%") + ["<!", "<![", "<!--", "-->", "]]>", "<?", "?>", "</", "/>", "<![CDATA[", "<!DOCTYPE", "<a b='",
                                                      "&#", "&#x", "\x85", "\u2028", "\ufeff", "\ufffd", "\U0010ffff", "<script>", "</script>",
                                                      "<textarea>", "<![if", "<!ELEMENT", "<!ENTITY", "[<!", "]>", "\x1f", "\x7f"]


def mutate(r, d, n):
    for _ in range(n):
        op = r.random()
        i = r.randint(0, len(d))
        if op < 0.45:
            d = d[:i] + r.choice(SPECIAL) + d[i:]
        elif op < 0.7:
            j = min(len(d), i + r.randint(1, 6))
            d = d[:i] + d[j:]
        elif op < 0.85:
            j = min(len(d), i + r.randint(1, 20))
            d = d[:i] + d[i:j] * 2 + d[j:]
        elif op < 0.93:
            d = d[:i] + chr(r.choice(SURR)) + d[i:]
        else:
            d = d[:i] + chr(r.randint(0, 0x10FFFF)) + d[i:]
    return d


def gen_fuzz_str(ctx):
    r = ctx.rng("fuzz-str")
    out = []
    for _ in range(ctx.n(12000, 400000)):
        d = r.choice(DOCS)
        if r.random() < 0.3:
            a, b = sorted((r.randint(0, len(d)), r.randint(0, len(d))))
            d = d[a:b]
        out.append(("fuzz-str", mutate(r, d, r.randint(1, 6)), {}, True))
    # markup made only of special tokens
    for _ in range(ctx.n(5000, 100000)):
        out.append(("fuzz-tokens", "".join(r.choice(SPECIAL + ["a", "b", "html", "p ", "1"]) for _ in range(r.randint(1, 14))), {}, True))
    return out


def gen_structural(ctx):
    r = ctx.rng("structural")
    out = []
    for n in (1, 10, 100, 199):
        out.append(("deep", "<a>" * n + "x", {}, True))
        out.append(("deep", "<a>" * n + "x" + "</a>" * n, {}, True))
        out.append(("deep", "<b><i>" * (n // 2 + 1) + "</b></i>" * (n // 2 + 1), {}, True))
    for n in (1000, 5000, 20000):
        out.append(("deep-nesting", "<a>" * n, {}, n <= 5000))
        out.append(("deep-nesting", "<p>t" * n, {}, n <= 5000))
        out.append(("deep-nesting", "<a>x" * (n // 2) + "</a>y" * (n // 2), {}, n <= 5000))
        out.append(("deep-nesting", "</a>" * n, {}, True))
    # nesting around and above the interpreter's recursion limit involving whitespace-preserving elements and string containers
    # (pre, textarea; template, rt, rp): nested in each other, as the one ancestor of a deep nest of any tags, at its bottom; left open or closed
    for n in ((600, 1500) if not ctx.thorough else (250, 600, 1100, 3000)):
        for w in ("pre", "textarea"):
            out.append(("deep-ws", ("<%s>x" % w) * n, {}, True))
            out.append(("deep-ws", ("<%s>\n " % w) * n + ("</%s> " % w) * n, {}, True))
        out.append(("deep-ws", "<pre><textarea>" * (n // 2) + "t", {}, True))
        for w in ("pre", "textarea", "template", "rt", "rp"):
            out.append(("deep-ws", "<%s>" % w + "<b>" * n + "x", {}, True))
            out.append(("deep-ws", "<%s>" % w + "<b><i>" * (n // 2) + " x " + "</i></b>" * (n // 2) + "</%s>t" % w, {}, True))
            out.append(("deep-ws", "<b>" * n + "<%s> x </%s>" % (w, w), {}, True))
            out.append(("deep-ws", ("<%s>" % w) * n + "x", {}, True))
        out.append(("deep-ws", "<ruby>" + "<rt><rp>" * (n // 2) + "x", {}, True))
        out.append(("deep-ws", "<pre>" + "<i>t" * n, {}, True))
        out.append(("deep-ws", ("<pre>x" * n).encode(), {}, True))
    for n in (100, 1000, 70000):
        out.append(("long", "<" + "a" * n + ">", {}, True))
        out.append(("long", "<a " + "b" * n + "=1>", {}, True))
        out.append(("long", "<a b='" + "c" * n + "'>", {}, True))
        out.append(("long", "<a " + " ".join("k%d=v" % i for i in range(min(n, 3000))) + ">", {}, True))
        out.append(("long", "&" + "a" * n + ";", {}, True))
        out.append(("long", "<!--" + "-" * n, {}, True))
        out.append(("long", "<!DOCTYPE " + "x" * n, {}, True))
        out.append(("long", "<?" + "x" * n, {}, True))
        out.append(("long", "<![CDATA[" + "]" * n, {}, True))
    quotes = ["<a b='", "<a b=\"", "<a b='c\"", "<a b=\"c'", "<a b='c' d=\"", "<a 'b'>", "<a \"b\">", "<a b=''' >", "<a b=\"\"\">", "<a b=c'd>", "<a =b>",
              "<a b==c>", "<a b = 'c' d>", "<a/ b>", "<a b/>", "<a b=/>", "<a b='/>'", "<a\x00b>", "<a\nb\n=\nc\n>", "<a b='c\n"]
    heads = ["<![", "<!", "<?", "</", "<", "<!-", "<!--", "<!---", "<!---->", "<!-->", "<!--->", "<![CDATA", "<![CDATA[", "<![CDATA[]", "<![CDATA[]]", "<![x",
             "<![x]", "<![x]>", "<![ x ]>", "<![if", "<![if !IE]>", "<![endif]-->", "<!DOCTYPE", "<!DOCTYPE ", "<!DOCTYPE html", "<!DOCTYPE html [",
             "<!DOCTYPE html [ ]", "<!DOCTYPE html [ <", "<!DOCTYPE html [ <!", "<!DOCTYPE html [ <!x", "<!DOCTYPE html [ <!ELEMENT",
             "<!DOCTYPE html [ <!ELEMENT >", "<!DOCTYPE html [ <!ELEMENT x>", "<!DOCTYPE html [ <!FOO x>", "<!DOCTYPE html [ <!FOO x>]>",
             "<!DOCTYPE html [ <?", "<!DOCTYPE html [ %", "<!DOCTYPE html [ %x", "<!DOCTYPE html [ %x;", "<!DOCTYPE html [ x", "<!DOCTYPE html [ ]x",
             "<!DOCTYPE html [ <!-- ", "<!DOCTYPE html [ <!ATTLIST a", "<!DOCTYPE html [ <!ATTLIST a b (c|d", "<!DOCTYPE html [ <!ATTLIST a b (c|d)",
             "<!DOCTYPE html [ <!ATTLIST a b c #", "<!DOCTYPE html [ <!ATTLIST a b c #x", "<!DOCTYPE html [ <!ATTLIST a b c 'd", "<!DOCTYPE html [ <!NOTATION",
             "<!DOCTYPE html [ <!NOTATION x", "<!DOCTYPE html [ <!ENTITY", "<!DOCTYPE html [ <!ENTITY %", "<!DOCTYPE html [ <!ENTITY % x", "<!DOCTYPE html [ <!ENTITY x 'y",
             "<!DOCTYPE html \"", "<!DOCTYPE html '", "<!DOCTYPE html 'x'", "<!DOCTYPE html -", "<!DOCTYPE html ]", "<!DOCTYPE>", "<!doctype x [ <!element",
             "<!ELEMENT", "<!ATTLIST x", "<!x", "<!1", "<! ", "<!>", "<!->", "<!a'", "<!a\"", "<!a[", "<!a[b", "<!a[b]", "<!a-", "<!a--", "<!a-- --", "<!a-- -->", "</>", "</ ", "</a", "</a ", "</a b", "</a/>", "</1>", "</\x00>",
             "<?>", "<??>", "<?x?", "<?x>", "< a>", "<1>", "<a", "<a ", "<a b", "<a b=", "<a b=c", "<a/", "<a/>", "<a//>", "<a/b/c>"]
    tails = ["", ">", "x", " ", "]>", "]]>", "-->", "?>", "<p>t</p>", "'", "\"", "\n", "\x00", "\udfff", "&#65;", "<"]
    for h in heads + quotes:
        for t in tails:
            out.append(("heads", h + t, {}, True))
            out.append(("heads", "<p>x" + h + t, {}, True))
    for _ in range(ctx.n(500, 8000)):
        out.append(("heads-rand", r.choice(heads + quotes) + "".join(r.choice(SPECIAL + tails + heads) for _ in range(r.randint(0, 4))), {}, True))
    for c in list(range(0, 33)) + [0x7f, 0x80, 0x85, 0x9f, 0xa0, 0xad, 0x2028, 0x2029, 0xfeff, 0xfffe, 0xffff, 0x10ffff]:
        ch = chr(c)
        for tpl in ("%s", "a%sb", "<a%sb='c'>", "<a b='%s'>", "<%sa>", "</a%s>", "<!--%s-->", "&%s;", "&#%s65;", "<p>%s</p>"):
            out.append(("control", tpl % ch, {}, True))
    return out


def gen_heuristics(ctx):
    """short tag-less strings around the URL / filename tests, str and bytes"""
    r = ctx.rng("heur")
    out = []
    exts = [".html", ".htm", ".xml", ".xhtml", ".txt", ".HTML", ".Htm", ".css", ".html ", ".htmlx", "html", ".txt.", ".\u0131html", ".tx\u0074", ".xht\u212a"]
    stems = ["", "a", "index", "C:/x/y", "c:\\x\\y", "/usr/a b", "a//b", "a  b", ":a", "a:b", "ab:c", "a:", "1:2:3", "x?y", "a*", "a#b", "a&b", "a;b", "a>b", "a$b",
             "a|b", "http://x/y", "https://x/y", "http:", "https:", "HTTP://x", "http //x", " http://x", "ftp://x", "\u00e9t\u00e9", "\U0001f600", "a\x00b",
             "a\tb", "//", " ", "a/ /b", "a:/b", "\\\\share\\f"]
    for s in stems:
        for e in exts:
            m = s + e
            out.append(("heur", m, {}, True))
            try:
                out.append(("heur", m.encode("utf-8"), {}, True))
            except UnicodeEncodeError:
                pass
    for s in ["http://x", "https://x", "http:x y", "https: ", "http:/", "http", "https", "httpx://", "a http://x"]:
        for suf in ["", "/a.html", " ", "\t", "?q=1", "\n", "<"]:
            out.append(("heur", s + suf, {}, True))
            out.append(("heur", (s + suf).encode(), {}, True))
    # URL-shaped text a URL *library* would choke on or read differently from the prefix test (brackets of IPv6 literals, userinfo,
    # ports, percent escapes, NFKC-unstable host characters, control characters): the heuristic only warns, whatever the text is
    for s in ["http://[", "https://[::1", "http://[::1]", "http://example.com]/index", "http://[not-an-address]/", "http://a\u2100b/", "http://a@b:c@d/",
              "http://x:99999999/", "http://x:-1/", "https://%zz/", "http://\x00/", "http://a\tb/", "http://\u3002/", "http://xn--/", "http:[", "https:]", "http://[[",
              "http://]", "http://[::1]:x/", "http://[v1.x]/", "http://a\uff0fb", "HTTP://[", "http://\udfff/"]:
        out.append(("heur-url", s, {}, True))
        try:
            out.append(("heur-url", s.encode("utf-8"), {}, True))
        except UnicodeEncodeError:
            pass
    for n in (250, 251, 252, 255, 256, 257, 300):
        for e in (".html", ".txt"):
            m = "a" * (n - len(e)) + e
            out.append(("heur-len", m, {}, True))
            out.append(("heur-len", m.encode(), {}, True))
            out.append(("heur-len", "\u00e9" * (n - len(e)) + e, {}, True))       # 256 code points but more bytes
            out.append(("heur-len", ("\u00e9" * ((n - len(e)) // 2) + e).encode(), {}, True))
        out.append(("heur-len", "http://" + "a" * (n - 7), {}, True))
    alpha = list("ab.:/ ?*#&;>$|\\hHtTmMlLxX[]@%") + ["  ", "//", ".html", ".txt", ".xml", "http:", "https:", "\u00e9", "\udfff", "\x00", ".HTM"]
    for _ in range(ctx.n(5000, 60000)):
        m = "".join(r.choice(alpha) for _ in range(r.randint(1, 8))) + r.choice(exts + ["", "", ""])
        if r.random() < 0.5:
            try:
                out.append(("heur-rand", m.encode("utf-8"), {}, True))
                continue
            except UnicodeEncodeError:
                pass
        out.append(("heur-rand", m, {}, True))
    return out


def gen_subclasses(ctx):
    """str / bytes SUBCLASS instances as markup (the heuristics, prepare_markup and UnicodeDammit test with isinstance)"""
    from bs4.element import NavigableString
    out = []
    strs = ["", "a.html", "index.HTM", "http://x/y", "a\udfffb.txt", "C:/x.xml", "plain", "<p>x</p>", "&#65;", DOCS[0], DOCS[2], "a" * 256 + ".txt"]
    for t in strs:
        out.append(("subclass", StrSub(t), {}, True))
        out.append(("subclass", NavigableString(t), {}, True))
        out.append(("subclass", StrSub(t), {"from_encoding": "utf-8"}, True))
    for b in [b"", b"a.html", b"http://x", b"<p>\xe9</p>", b"\xff\xfe<\x00", DOCS[0].encode(), b"\xef\xbb\xbf", b"x.txt"]:
        out.append(("subclass", BytesSub(b), {}, True))
        out.append(("subclass", BytesSub(b), {"from_encoding": "latin-1"}, True))
        out.append(("subclass", BytesSub(b), {"exclude_encodings": ("utf-8", "windows-1252")}, True))
    return out


def enc_args(r):
    """a constructor encoding-argument shape"""
    kw = {}
    c = r.random()
    pool = REAL_CODECS + PY_CODECS + BOGUS
    if c < 0.5:
        kw["from_encoding"] = r.choice(pool)
    c = r.random()
    if c < 0.15:
        kw["exclude_encodings"] = ["utf-8", "windows-1252"]
    elif c < 0.25:
        kw["exclude_encodings"] = ["UTF-8", "Windows-1252", "utf8", "cp1252", "ascii", "latin-1", "iso-8859-1"]
    elif c < 0.45:
        kw["exclude_encodings"] = [r.choice(pool) for _ in range(r.randint(0, 4))]
    elif c < 0.5:
        kw["exclude_encodings"] = r.choice(["utf-8", "", "windows-1252"])       # a plain string instead of a list
    elif c < 0.55:
        kw["exclude_encodings"] = tuple(r.choice(pool) for _ in range(2))
    elif c < 0.6:
        kw["exclude_encodings"] = frozenset(r.choice(pool) for _ in range(3))
    elif c < 0.63:
        kw["exclude_encodings"] = {r.choice(pool): 1 for _ in range(2)}          # a mapping: iterated by key
    return kw


def gen_bytes(ctx):
    r = ctx.rng("bytes")
    out = []
    garbage = [b"", b"a", b"<p>x</p>", b"\x00", b"\x00\x00", b"\xff", b"\xfe", b"\x80", b"\xc3", b"\xc3\x28", b"\xe2\x82", b"\xf0\x9f\x98", b"\xed\xa0\x80",
               b"\xf4\x90\x80\x80", b"\xc0\x80", b"a\x00b\x00", b"\x00a\x00b", b"a\x00b", b"\xd8\x00", b"\x00\xd8", b"\x00\xdc\x00\xd8", b"<\x00p\x00>\x00",
               b"\x00<\x00p\x00>", b"<\x00\x00\x00p\x00\x00\x00", b"\xa4\xa2", b"\x1b$B", b"\x1b$)C\x0e", b"~{", b"+AGE", b"+AGE-", b"\\u12", b"\\N{", b"\\x",
               b"xn--", b"-", b"abc-", "\u00e9\u2603".encode("utf-8"), "\u00e9".encode("latin-1"), b"\x93quoted\x94", b"\x81\x8d\x8f\x90\x9d"]
    for b in BOMS:
        for g in garbage:
            out.append(("bom", b + g, {}, True))
        out.append(("bom", b, {"from_encoding": "utf-8"}, True))
        out.append(("bom", b, {"exclude_encodings": ["utf-8", "windows-1252"]}, True))
        out.append(("bom", b + b"<p>\xe9</p>", {"exclude_encodings": ["utf-16le", "utf-16be", "utf-8", "utf-32le", "utf-32be"]}, True))
    # documents that are EMPTY once the byte-order mark is stripped x encoding names that are no text codec here (unknown, Windows-only,
    # bytes-to-bytes / str-to-str codecs, bogus): original_encoding must still name the encoding the document was read as
    not_text = ["nosuch", "mbcs", "oem", "base64", "rot13", "hex", "zlib", "bz2", "uu", "quopri", "no-such", "utf-9", "x" * 40, "\u00e9",
                "string-escape", "unicode_internal", "8", "undefined"]
    for bom in [b"\xef\xbb\xbf", b"\xff\xfe", b"\xfe\xff", b"\xff\xfe\x00\x00", b"\x00\x00\xfe\xff", b""]:
        for name in not_text + ["utf-8", "latin-1", "idna", "utf-16"]:
            out.append(("empty-after-bom", bom, {"from_encoding": name}, True))
            out.append(("empty-after-bom", bom, {"from_encoding": name, "exclude_encodings": ["utf-8", "windows-1252"]}, True))
        for name in not_text[:6]:
            out.append(("empty-after-bom", bom + b"x", {"from_encoding": name}, True))        # contrast: one character after the mark
    for g in garbage:
        out.append(("garbage", g, {}, True))
        for _ in range(3):
            out.append(("garbage", g, enc_args(r), True))
    for name in PY_CODECS + BOGUS + REAL_CODECS:
        try:
            nb = name.encode("utf-8")
        except UnicodeEncodeError:
            nb = name.encode("utf-8", "replace")
        for tpl in (b"<meta charset=\"%s\"><p>\xe9 &#150;</p>", b"<meta http-equiv='Content-Type' content='text/html; charset=%s'><p>x</p>-",
                    b"<?xml version='1.0' encoding='%s'?><p>\xc3\xa9</p>", b"<meta charset=%s>"):
            out.append(("declared", tpl % nb, {}, True))
            out.append(("declared", tpl % nb, enc_args(r), True))
        out.append(("from-enc", b"<p>\xe9 &#150; caf\xc3\xa9</p>-", {"from_encoding": name}, True))
        out.append(("from-enc", b"plain", {"from_encoding": name}, True))
        out.append(("from-enc", b"<p>\xe9</p>", {"from_encoding": name, "exclude_encodings": ["utf-8", "windows-1252"]}, True))
        out.append(("from-enc", b"<p>x</p>", {"exclude_encodings": [name, "utf-8", "windows-1252"]}, True))
        out.append(("from-enc", "<p>str with from_encoding</p>", {"from_encoding": name}, True))
    for _ in range(ctx.n(6000, 200000)):
        c = r.random()
        if c < 0.35:
            b = bytes(r.randint(0, 255) for _ in range(r.randint(0, 24)))
        elif c < 0.7:
            d = r.choice(DOCS)
            e = r.choice(["utf-8", "utf-16", "utf-16le", "utf-16be", "utf-32", "latin-1", "cp1252", "shift_jis", "utf-7", "idna", "cp037"])
            try:
                b = d.encode(e, "replace")
            except Exception:  # noqa
                b = d.encode("utf-8")
            b = bytearray(b)
            for _ in range(r.randint(0, 4)):
                if b:
                    i = r.randrange(len(b))
                    if r.random() < 0.5:
                        b[i] = r.randint(0, 255)
                    else:
                        del b[i]
            b = bytes(b)
            if r.random() < 0.3:
                b = r.choice(BOMS) + b
            if r.random() < 0.3:
                b = b[: r.randint(0, len(b))]
        else:
            b = r.choice(BOMS + [b""]) + r.choice(garbage) + r.choice(garbage)
        out.append(("fuzz-bytes", b, enc_args(r) if r.random() < 0.6 else {}, True))
    return out


# --------------------------------------------------------------------------------------------
# direct streams
# --------------------------------------------------------------------------------------------
def stream_charref_direct(ctx, drv):
    """handle_charref called directly: names over [0-9a-fA-FxX] (ill-formed ones included) x document encoding shapes"""
    from bs4 import BeautifulSoup
    from bs4.builder._htmlparser import BeautifulSoupHTMLParser
    r = ctx.rng("charref-direct")
    names = ["", "x", "X", "xx41", "XX41", "xX41", "Xx41", "x0x41", "x0X41", "X0x41", "0x41", "1x", "x1x", "x0x", "x00x41", "00", "000065", "x000041", "x0",
             "X0", "xg", "a", "xa", "Xa", "xA", "xfffd", "xFFFE", "x10FFFF", "x110000", "1114111", "1114112", "x" + "0" * 5000 + "41", "0" * 4299 + "7",
             "0" * 4300, "0" * 4301, "9" * 4300, "9" * 4301, "x" + "f" * 6000, "X" + "F" * 6000]
    names += [str(n) for n in range(0, 300)] + ["x%x" % n for n in range(0, 300)] + ["X%X" % n for n in range(120, 170)]
    names += [str(n) for n in (0xD7FF, 0xD800, 0xDBFF, 0xDC00, 0xDFFF, 0xE000, 0xFFFF, 0x10000, 0x10FFFF, 0x110000, 2 ** 32, 2 ** 64, 10 ** 100)]
    alpha = "0123456789abcdefABCDEFxX"
    for _ in range(ctx.n(1500, 20000)):
        k = r.choice([1, 2, 3, 4, 5, 8])
        names.append("".join(r.choice(alpha if r.random() < 0.5 else "0123456789") for _ in range(k)))
    encs = [None, "utf-8", "windows-1252", "latin-1", "ascii", "utf-16le", "utf-7", "punycode", "idna", "cp037", "shift_jis", "iso2022_kr", "koi8-r",
            "unicode_escape", "raw_unicode_escape", "charmap", "cp1251", "hz", "utf-32be"]
    soup = BeautifulSoup("", "html.parser")
    lines, impl, cases = [], [], []
    for name in names:
        wellformed = bool(NAME_RE.match(name))
        for enc in (encs if (wellformed and len(name) <= 3) else encs[:2] + ["punycode"] + (r.sample(encs[2:], 3) if wellformed and len(name) <= 5 else [])):
            soup.original_encoding = enc
            got = []
            p = BeautifulSoupHTMLParser(soup)
            p.handle_data = got.append
            try:
                p.handle_charref(name)
                reply = "ok " + cps_tok([ord(c) for c in got[0]]) if len(got) == 1 and isinstance(got[0], str) else f"bad-calls {got!r}"[:80]
            except Exception as e:  # noqa
                reply = "err " + type(e).__name__
            case = {"op": "charref-direct", "name": name if len(name) < 60 else {"repeat": name[:2], "len": len(name), "full": name}, "encoding": enc}
            ctx.case(("CD", name, enc) if wellformed else None)
            ctx.count("charref-direct:" + ("wellformed" if wellformed else "illformed") + ":" + reply.split()[0])
            if reply.startswith("err") and not wellformed:
                # names the tokenizer's regex cannot deliver: outside the property (recorded, compared once they return)
                ctx.count("charref-direct:illformed-raises(outside the quantifier)")
                continue
            if reply.startswith("err") or reply.startswith("bad-calls"):
                if capped(ctx, "charref-direct", reply):
                    continue
                doc = reproduce_charref(name, enc)
                shown = "&#" + (name if len(name) < 30 else name[:12] + "…(%d chars)" % len(name))
                real = None
                if doc is not None:
                    m = dec_markup(doc if "markup" not in doc else doc["markup"])
                    kw = {"from_encoding": enc} if enc else {}
                    real = run_constructor(m, kw, post=False)["outcome"]
                if real is not None and real.startswith("other"):
                    ctx.violation(f"BeautifulSoup({describe(m)}, 'html.parser'{', from_encoding=%r' % enc if enc else ''}) raised {real[6:]} "
                                  f"(handle_charref({shown}) under document encoding {enc!r})",
                                  case={"op": "construct", "markup": enc_markup(m), "kwargs": enc_kwargs(kw), "shown": describe(m)},
                                  expected="a tree or ParserRejectedMarkup", observed=real[6:], stream="charref-direct")
                else:
                    ctx.violation(f"handle_charref({shown}) under document encoding {enc!r}: {reply} (through the constructor: {real}); the model of the "
                                  "repaired code hands a text to handle_data", case=case | {"markup_reproducing": doc},
                                  expected="a non-empty text handed to handle_data", observed=reply, stream="charref-direct", no_failing_input=True)
                continue
            lines.append(f"c06 charref {orig_table(enc)} {cps_tok([ord(c) for c in name])}")
            impl.append(reply)
            cases.append(case)
            if not got[0]:
                ctx.violation("handle_charref handed an empty text to handle_data", case=case, observed=reply, stream="charref-direct")
    soup.original_encoding = None
    rep = drv.ask(lines)
    for l, a, b, c in zip(lines, impl, rep, cases):
        if a != b:
            ctx.corr_disagreements += 1
            ctx.violation("model and implementation disagree on a character reference", case=c, observed=a, model=b, stream="charref-direct",
                          no_failing_input=True)
    ctx.count("charref-direct:requests", len(lines))


def reproduce_charref(name, enc):
    """an input to the constructor that reaches handle_charref(name) under document encoding `enc`, if there is one"""
    if not NAME_RE.match(name):
        return None
    if enc is None:
        return enc_markup("&#" + name + ";")
    return {"markup": enc_markup(b"<p>&#" + name.encode() + b";</p>-"), "from_encoding": enc}


def stream_dammit(ctx, drv, byte_cases):
    """the real UnicodeDammit on the bytes inputs of the construct stream, against the model of its two passes"""
    from bs4.dammit import UnicodeDammit
    lines, impl, cases = [], [], []
    for stream, markup, kwargs, _ in byte_cases:
        if not isinstance(markup, bytes) or markup == b"":
            continue
        fe = kwargs.get("from_encoding") or None
        ex = kwargs.get("exclude_encodings")
        try:
            with warnings.catch_warnings():
                warnings.simplefilter("ignore")
                d = UnicodeDammit(markup, known_definite_encodings=[fe] if fe else [], user_encodings=[], is_html=True, exclude_encodings=ex)
                encs = list(d.detector.encodings)
        except Exception as e:  # noqa
            ctx.violation(f"UnicodeDammit raised {type(e).__name__}: {str(e)[:100]}", case={"op": "dammit", "markup": enc_markup(markup), "kwargs": enc_kwargs(kwargs)},
                          expected="text or None", observed=type(e).__name__, stream="dammit")
            continue
        names, codecs = {}, {}
        table = {}
        for e in encs:
            names.setdefault(e, len(names) + 1)
            c = d.find_codec(e)
            if c is not None:
                codecs.setdefault(c, len(codecs) + 1)
                if c not in table:
                    row = []
                    for errors in ("strict", "replace"):
                        try:
                            u = d._to_unicode(d.markup, c, errors)      # the live one-line wrapper around str(data, codec, errors)
                            row.append("z" if u == "" else "t")
                        except Exception:  # noqa
                            row.append("n")
                    table[c] = row
        codec_of = ";".join(f"{names[e]}:{codecs[d.find_codec(e)]}" for e in names if d.find_codec(e) is not None) or "-"
        ascii_ids = ",".join(str(names[e]) for e in names if e == "ascii") or "-"
        tab = ";".join(f"{codecs[c]}:{row[0]}:{row[1]}" for c, row in table.items()) or "-"
        lines.append(f"c06 dammit {','.join(str(names[e]) for e in encs) or '-'} {codec_of} {ascii_ids} {tab}")
        if d.unicode_markup is None:
            got = f"none repl={1 if d.contains_replacement_characters else 0}"
        else:
            got = (f"some enc={codecs.get(d.original_encoding, 0)} repl={1 if d.contains_replacement_characters else 0} "
                   f"empty={1 if d.unicode_markup == '' else 0}")
        impl.append(got)
        cases.append({"op": "dammit", "markup": enc_markup(markup), "kwargs": enc_kwargs(kwargs), "encodings": encs})
        nontrivial = len(encs) >= 2 and (got.startswith("none") or "repl=1" in got or not got.startswith("some enc=1 "))
        ctx.case(("D", markup, repr(kwargs)) if nontrivial else None)
        ctx.count("dammit:" + got.split(" empty")[0].split(" enc")[0] + (":repl" if "repl=1" in got else ""))
        # direct oracle: None only if no candidate decodes even with replacement
        if (d.unicode_markup is None and any(row[1] != "n" for c, row in table.items() if any(e != "ascii" and d.find_codec(e) == c for e in encs))
                and not capped(ctx, "dammit", "gave-up")):
            ctx.violation("UnicodeDammit gave up although a candidate decodes with errors='replace'", case=cases[-1], observed=got, stream="dammit")
    rep = drv.ask(lines)
    for l, a, b, c in zip(lines, impl, rep, cases):
        if a != b:
            ctx.corr_disagreements += 1
            if capped(ctx, "dammit", "disagree"):
                continue
            ctx.violation("model and implementation disagree on UnicodeDammit's passes", case=c | {"line": l}, observed=a, model=b, stream="dammit",
                          no_failing_input=True)
    ctx.count("dammit:requests", len(lines))


# --------------------------------------------------------------------------------------------
# fault injection
# --------------------------------------------------------------------------------------------
POISONS = ["<html><head><title>poison</title></head><body class='p'><pre> p\n<b>q<i>r</i></b><!--c--><script>s</script>&#65;<ruby><rt>t",
           "<!DOCTYPE poison><a><b><c><d><e><f>deep</f>",
           "<table><tr><td>1<td>2<textarea>\n x", "plain text poison &amp; more",
           "<p id=1><p id=2><br><br/><svg:x xmlns:svg='u'>"]
FINALS = ["<p>final</p>", "", "<p>  </p>\n<b> \n </b> t", "<html><body><pre>\n a</pre><b>x<i>y</b>z</i><!--k--></body></html>", "text", "<a href='1'><br/>&#150;<script>1</script>"]


def _fault_builder_class():
    from bs4.builder import HTMLParserTreeBuilder
    from bs4.builder._htmlparser import BeautifulSoupHTMLParser
    from bs4.exceptions import ParserRejectedMarkup

    class Stop(Exception):
        pass

    class CountingParser(BeautifulSoupHTMLParser):
        """raises after j handler events"""
        budget = 0

        def _tick(self):
            if self.budget <= 0:
                raise Stop()
            self.budget -= 1

    for meth in ("handle_starttag", "handle_endtag", "handle_data", "handle_comment", "handle_decl", "handle_pi", "unknown_decl"):
        def mk(meth):
            base = getattr(BeautifulSoupHTMLParser, meth)

            def f(self, *a, **k):
                # nested handler calls (startendtag -> starttag/endtag, charref -> data) count once
                if getattr(self, "_in", False):
                    return base(self, *a, **k)
                self._tick()
                self._in = True
                try:
                    return base(self, *a, **k)
                finally:
                    self._in = False
            return f
        setattr(CountingParser, meth, mk(meth))

    class FaultBuilder(HTMLParserTreeBuilder):
        """prepare_markup yields the planned strategies; feed follows the plan: ('natural', text) feeds a text the real tokenizer
        rejects part-way, ('counted', text, j) feeds j events then raises ParserRejectedMarkup, ('raise', exc) raises, ('accept',)"""

        def __init__(self, plan, **kw):
            super().__init__(**kw)
            self.plan = plan
            self.attempts = 0
            self.log = []

        def prepare_markup(self, markup, *a, **k):
            for (m, oe, de, cr, _) in self.plan:
                yield (m, oe, de, cr)

        def feed(self, markup):
            action = self.plan[self.attempts][4]
            self.attempts += 1
            self.log.append(markup)
            if action[0] == "accept":
                return HTMLParserTreeBuilder.feed(self, markup)
            if action[0] == "natural":
                return HTMLParserTreeBuilder.feed(self, action[1])
            if action[0] == "counted":
                args, kwargs = self.parser_args
                p = CountingParser(self.soup, *args, **kwargs)
                p.budget = action[2]
                try:
                    p.feed(action[1])
                    p.close()
                except Stop:
                    pass
                raise ParserRejectedMarkup("injected rejection after %d events" % action[2])
            if action[0] == "raise":
                raise action[1]("injected")
            raise AssertionError("bad plan")
    return FaultBuilder


def run_fault(plan):
    """-> (outcome, attempts, dump or None)"""
    from bs4 import BeautifulSoup
    from bs4.exceptions import ParserRejectedMarkup
    FB = _fault_builder_class()
    b = FB(plan)
    try:
        with warnings.catch_warnings():
            warnings.simplefilter("ignore")
            soup = BeautifulSoup("ignored", builder=b)
    except ParserRejectedMarkup as e:
        return "prm", b.attempts, None, str(e)
    except Exception as e:  # noqa
        return "other:" + type(e).__name__, b.attempts, None, str(e)
    prob, _, _ = well_linked(soup)
    return "tree", b.attempts, dump(soup) | {"link": prob}, None


def fault_expect(plan):
    """the property, directly: the first strategy that is not rejected decides, nothing after it is tried"""
    for i, st in enumerate(plan):
        a = st[4][0]
        if a == "accept":
            return "tree", i
        if a == "raise":
            return "raise", i
    return "prm", len(plan) - 1


def check_fault(plan, outcome, attempts, d, msg):
    """-> None or (what, expected, observed)"""
    want, idx = fault_expect(plan)
    if want == "raise":
        if outcome != "other:KeyError" or attempts != idx + 1:
            return ("a foreign exception raised by the builder part-way did not reach the caller (or strategies after it were tried)",
                    f"KeyError after {idx + 1} attempts", f"{outcome} after {attempts}")
        return None
    if want == "prm":
        if outcome != "prm" or attempts != len(plan):
            return ("every strategy rejected but the constructor did not raise ParserRejectedMarkup after trying each once",
                    f"ParserRejectedMarkup after {len(plan)} attempts", f"{outcome} after {attempts}")
        # (the WORDING of the final ParserRejectedMarkup - whether it lists every rejection, once or de-duplicated - is free: the property
        #  fixes the class of the exception only; an earlier version of this oracle demanded one mention per rejection: a false alarm)
        return None
    if outcome != "tree":
        return ("k rejections followed by acceptance did not yield a tree", "tree", f"{outcome}: {msg}")
    if attempts != idx + 1:
        return (f"the loop did not stop at the first accepted strategy: {attempts} strategies were fed, the accepted one is #{idx + 1}",
                f"{idx + 1} attempts", f"{attempts} attempts")
    clean_outcome, _, clean, _ = run_fault([plan[idx]])
    if d["link"]:
        return ("tree after rejected attempts is not well linked: " + d["link"], None, None)
    if clean_outcome != "tree" or d != clean:
        diff = [k2 for k2 in d["state"] if clean and d["state"][k2] != clean["state"].get(k2)] if clean else []
        return ("the final object is not the clean parse of the FIRST accepted strategy: something of another attempt (rejected before it, or "
                "offered after it) is in it, or it is half-built",
                {"state_fields_differing": diff, "nodes_equal": bool(clean) and d["nodes"] == clean["nodes"]},
                {k2: d["state"][k2] for k2 in diff[:6]} | {"nodes": [n[1] for n in d["nodes"][:8]]})
    return None


def stream_fault(ctx, drv):
    r = ctx.rng("fault")
    lines, impl, cases = [], [], []
    plans = []
    for k in range(0, 4):
        for j in range(0, 7):
            for pi, poison in enumerate(POISONS):
                for fi, final in enumerate(FINALS):
                    if not ctx.thorough and (pi + fi + j + k) % 3 and not (k == 1 and j in (0, 3)):
                        continue
                    rej = [("rejected-%d" % i, ["koi8-r", "cp1251", "shift_jis"][i], "decl-r%d" % i, bool(i % 2), ("counted", poison, j)) for i in range(k)]
                    plans.append((rej + [(final, "iso-8859-5", "decl-final", False, ("accept",))], "counted", k, j))
                    plans.append((rej, "all-reject", k, j))
            # natural rejections: the real tokenizer gives up part-way (AssertionError wrapped by feed)
            for poison in POISONS:
                cuts = [i for i, ch in enumerate(poison) if ch == "<"] + [len(poison)]
                cut = cuts[min(j, len(cuts) - 1)]
                text = poison[:cut] + "<![x]" + poison[cut:]
                if plain_tokenize(text)[0] != "assert":
                    ctx.count("fault:natural-poison-not-rejected-by-tokenizer(skipped)")
                    continue
                rej = [("rejected-%d" % i, None, None, True, ("natural", text)) for i in range(k)]
                plans.append((rej + [(FINALS[j % len(FINALS)], None, "d", True, ("accept",))], "natural", k, j))
    # a foreign exception part-way is not swallowed
    for k in range(0, 3):
        rej = [("r", None, None, False, ("counted", POISONS[0], 3)) for _ in range(k)]
        plans.append((rej + [("x", None, None, False, ("raise", KeyError)), ("<p>never</p>", None, None, False, ("accept",))], "foreign", k, 0))
    # the builder offers MORE strategies after the one that is accepted (as the lxml builders do: one per plausible encoding): the loop stops
    # at the first acceptance, they are never tried
    nat = POISONS[0] + "<![x]" + POISONS[0]
    tails = [[("<p>later accepted</p>", "koi8-r", "dl", True, ("accept",))],
             [("later-rejected", "cp1251", "dl", True, ("counted", POISONS[0], 4))],
             [("later-rejected", None, None, False, ("natural", nat))],
             [("later-crash", None, None, False, ("raise", KeyError))],
             [("later-rejected", None, None, False, ("counted", POISONS[2], 2)), ("<i>later accepted</i>", None, None, False, ("accept",))]]
    for k in range(0, 3):
        for j in (0, 3):
            for pi in (0, 2, 3):
                for fi in range(len(FINALS)):
                    if not ctx.thorough and (pi + fi + j + k) % 2:
                        continue
                    rej = [("rejected-%d" % i, ["koi8-r", "cp1251", "shift_jis"][i], "decl-r%d" % i, bool(i % 2), ("counted", POISONS[pi], j)) for i in range(k)]
                    for tail in tails:
                        plans.append((rej + [(FINALS[fi], "iso-8859-5", "decl-final", False, ("accept",))] + tail, "more-after-accept", k, j))
    for plan, kind, k, j in plans:
        outcome, attempts, d, msg = run_fault(plan)
        outs = []
        for st in plan:
            a = st[4][0]
            outs.append("a" if a == "accept" else ("x1" if a == "raise" else "r"))
        lines.append("c06 retry " + (",".join(outs) if outs else "-"))
        impl.append({"tree": f"ok {attempts - 1}", "prm": "prm"}.get(outcome, f"err Other1 {attempts - 1}"))
        case = {"op": "fault", "kind": kind, "k": k, "j": j,
                "plan": [[st[0], st[1], st[2], st[3], [st[4][0]] + [x if isinstance(x, (str, int)) else x.__name__ for x in st[4][1:]]] for st in plan]}
        cases.append(case)
        ctx.case(("F", kind, k, j, repr(plan)[:300]) if (k > 0 or kind == "more-after-accept") else None,
                 sample={"fault": kind, "k": k, "j": j, "outcome": outcome} if k == 2 and j == 3 and len(ctx.samples) < 10 else None)
        ctx.count(f"fault:{kind}:k={k}:{outcome}")
        problem = check_fault(plan, outcome, attempts, d, msg)
        if problem and not capped(ctx, "fault", problem[0][:50]):
            ctx.violation(problem[0], case=case, expected=problem[1], observed=problem[2], stream="fault")
    rep = drv.ask(lines)
    for l, a, b, c in zip(lines, impl, rep, cases):
        if a != b:
            ctx.corr_disagreements += 1
            ctx.violation("model and implementation disagree on the retry loop (which attempt decides / how many are made)", case=c | {"line": l},
                          observed=a, model=b, stream="fault", no_failing_input=True)
    ctx.count("fault:requests", len(lines))


# --------------------------------------------------------------------------------------------
# the envelope: recorded kinds, injection at the primitives, the class hierarchy
# --------------------------------------------------------------------------------------------
def recorded_kinds():
    """translate/parts_c06.py RECORDED as protocol names per harness point"""
    import importlib.util
    path = os.path.join(os.path.dirname(os.path.dirname(os.path.abspath(__file__))), "translate", "parts_c06.py")
    src = open(path).read()
    a = src.index("RECORDED = {")
    b = src.index("}\n", a) + 1
    rec = eval(src[a + len("RECORDED = "):b], {})
    from . import c06_envelope as E
    table = E.class_table()
    names = {k: [E.proto_name(table[c]) for c in v] for k, v in rec.items()}
    per_point = {}
    for pt in E.POINTS:
        key = {"tokFeed": "tokenizer", "tokClose": "tokenizer", "applyData": "callbacks", "applyOther": "callbacks", "endOfInput": "callbacks"}.get(pt, pt)
        per_point[pt] = names[key]
    return per_point


def check_recorded(ctx, observed, cases):
    """the trusted residue, measured: every exception class a primitive raised during the construct stream is a recorded kind"""
    rec = recorded_kinds()
    for pt, names in sorted(observed.items()):
        ctx.count(f"primitive-raised:{pt}:" + ",".join(sorted(names)))
        extra = sorted(set(names) - set(rec.get(pt, [])))
        if extra:
            # find an input: re-run the cases with recording until the class shows up at that point
            from . import c06_envelope as E
            found = None
            for (stream, markup, kwargs, post) in cases:
                seen = {}
                with E.record(seen):
                    run_constructor(markup, kwargs, post=False)
                if any(E.proto_name(c) in extra for c in seen.get(pt, ())):
                    found = (stream, markup, kwargs)
                    break
            case = {"op": "recorded", "point": pt, "classes": extra}
            if found:
                case |= {"markup": enc_markup(found[1]), "kwargs": enc_kwargs(found[2]), "shown": describe(found[1])}
            ctx.violation(f"measured hypothesis broken: the primitive '{pt}' raised {extra}, not among the recorded kinds {rec.get(pt)} "
                          "(translate/parts_c06.py RECORDED, hypothesis `Prims.Within Gen.C06.recorded` of envelope_live)",
                          case=case, expected=rec.get(pt), observed=extra, stream="recorded", no_failing_input=True)
    ctx.extra["primitives_observed_raising"] = {pt: sorted(v) for pt, v in sorted(observed.items())}


INJECT_DOCS = {
    "str": ["<p>&#65;&#x42;&#150;&#300;</p>tail", "<a href='x'>&#7;&#x100;</a><br/>t<b", "t&#129;<i>&#1114112;</i><!--c-->&#x41"],
    "bytes": [b"<p>caf\xc3\xa9 &#65;&#150;&#300;</p>", b"<html><body>\xe2\x98\x83 &#200;&#x2603;</body></html>", b"plain &#65;&#999; \xc3\xa9 <p>x"],
    "log": [b"<p>\x81 &#65;</p>", b"\x81\x8d<b>x</b>", b"<i>\xc3\x28\x8f</i>"],
    "url": ["http://example.com/", "https://x/y.html", "index.html"],
}


def inject_docs(point):
    if point == "warn":
        return INJECT_DOCS["url"]
    if point in ("cands", "lookup", "decode", "declaredProp", "dec1"):
        return INJECT_DOCS["bytes"]
    if point == "logWarning":
        return INJECT_DOCS["log"]
    return INJECT_DOCS["str"]


_HOOKED_DOC = {}


def hooked_doc(E, pt, doc):
    k = (pt, doc)
    if k not in _HOOKED_DOC:
        _HOOKED_DOC[k] = E.hooked(pt, doc)
    return _HOOKED_DOC[k]


def stream_inject(ctx, drv):
    """every primitive x every class x several documents that reach it: what the caller sees, against the model (`predict`) and against the
    envelope itself (a recorded kind never escapes)"""
    from . import c06_envelope as E
    table = E.class_table()
    classes = list(table.values()) + [E.HarnessError, E.HarnessBaseError]
    rec = recorded_kinds()
    lines, impl, cases = [], [], []
    hooked = E.hooked_points()
    ctx.extra["injection_points_hooked"] = hooked
    for pt in E.POINTS:
        if pt not in hooked:
            ctx.count(f"inject:unhooked:{pt}")
            ctx.notes.append(f"injection point '{pt}' could not be hooked in this working tree (the code no longer reaches it through the patched "
                             "name): not compared on this run")
            continue
        for cls in classes:
            name = E.proto_name(cls)
            for doc in inject_docs(pt):
                if not hooked_doc(E, pt, doc):
                    continue
                with E.inject(pt, cls):
                    v = E.verdict(doc)
                case = {"op": "inject", "point": pt, "class": name, "markup": enc_markup(doc), "shown": describe(doc)}
                ctx.case(("I", pt, name, doc))
                ctx.count(f"inject:{pt}:{v.split()[0]}")
                lines.append(f"c06 inject live {pt} {name}")
                impl.append(v)
                cases.append(case)
                if name in rec[pt] and v.startswith("escapes"):
                    ctx.violation(f"{name}, a recorded kind of '{pt}', raised there escapes the constructor as {v[8:]} (document {describe(doc)})",
                                  case=case, expected="a tree or ParserRejectedMarkup", observed=v, stream="inject")
    # the class hierarchy the clauses rely on
    hl, hi = [], []
    for a in classes:
        for b in classes:
            hl.append(f"c06 issub {E.proto_name(a)} {E.proto_name(b)}")
            hi.append("1" if issubclass(a, b) else "0")
    rep = drv.ask(lines + hl)
    for l, a, b, c in zip(lines, impl, rep, cases):
        if a != b:
            ctx.corr_disagreements += 1
            if not capped(ctx, "inject", c["point"]):
                ctx.violation(f"model and implementation disagree on what the caller sees when '{c['point']}' raises {c['class']}",
                              case=c | {"line": l}, observed=a, model=b, stream="inject", no_failing_input=True)
    for l, a, b in zip(hl, hi, rep[len(lines):]):
        if a != b:
            ctx.corr_disagreements += 1
            ctx.violation("model and CPython disagree on issubclass", case={"op": "issub", "line": l}, observed=a, model=b, stream="inject",
                          no_failing_input=True)
    ctx.count("inject:requests", len(lines))
    ctx.count("issub:requests", len(hl))
    ctx.exhaustive_parts.append(f"injection: all {len(E.POINTS)} primitives x all {len(classes)} classes x 3 documents; issubclass on all class pairs")


def stream_dammit_raising(ctx, drv, byte_cases):
    """UnicodeDammit with individual primitive calls made to raise (a spelling's codecs.lookup, one (codec, errors) decoding, the
    declaration search inside the candidate generator, the log call) against `dammitE`: which exceptions `_codec` and
    `_convert_from` absorb, what leaves, and how the two passes go on afterwards"""
    import bs4.dammit as D
    from bs4.dammit import UnicodeDammit, EncodingDetector
    from . import c06_envelope as E
    table = E.class_table()
    pool = [UnicodeDecodeError, LookupError, ValueError, TypeError, UnicodeError, E.HarnessError, KeyboardInterrupt, E.HarnessBaseError,
            StopIteration, table["parserRejectedMarkup"], AssertionError, RecursionError, UnicodeEncodeError]
    hooked = set(E.hooked_points())      # a primitive the code no longer reaches through the patched name gets no injections
    r = ctx.rng("dammit-raising")
    sample = [c for c in byte_cases if isinstance(c[1], bytes) and c[1] != b""]
    r.shuffle(sample)
    sample = sample[: ctx.n(1200, 20000)]
    log = logging.getLogger("bs4.dammit")
    lines, impl, cases = [], [], []

    class Sentinel(Exception):
        pass

    real_fde = EncodingDetector.__dict__["find_declared_encoding"]
    real_to_unicode = UnicodeDammit._to_unicode
    real_codecs = D.codecs
    for stream, markup, kwargs, _ in sample:
        fe = kwargs.get("from_encoding") or None
        ex = kwargs.get("exclude_encodings")

        def make():
            return UnicodeDammit(markup, known_definite_encodings=[fe] if fe else [], user_encodings=[], is_html=True, exclude_encodings=ex)
        try:
            with warnings.catch_warnings():
                warnings.simplefilter("ignore")
                d0 = make()
                encs = list(d0.detector.encodings)
                # the candidates yielded before the declaration is looked for
                det = EncodingDetector(markup, [fe] if fe else [], True, ex, [])
                pre = []
                EncodingDetector.find_declared_encoding = classmethod(lambda cls, *a, **k: (_ for _ in ()).throw(Sentinel()))
                try:
                    for e in det.encodings:
                        pre.append(e)
                except Sentinel:
                    pass
                finally:
                    EncodingDetector.find_declared_encoding = real_fde
        except Exception:  # noqa (reported by the other streams)
            continue
        sp_id, codec_id, name_id = {}, {}, {}

        def spellings(e):
            if not e:
                return []
            return [x for x in (UnicodeDammit.CHARSET_ALIASES.get(e, e), e.replace("-", ""), e.replace("-", "_")) if x]
        plan_lookup, plan_decode = {}, {}
        gen_raise = r.choice(pool) if r.random() < 0.12 else None
        log_raise = r.choice(pool) if r.random() < 0.12 else None
        if "cands" not in hooked:
            gen_raise = None
        if "logWarning" not in hooked:
            log_raise = None
        spell_rows, look_rows, canon_rows, low_rows, tab_rows = [], [], [], [], []
        for e in encs:
            name_id.setdefault(e, len(name_id) + 1)
            sps = spellings(e)
            for x in sps:
                if x not in sp_id:
                    sp_id[x] = len(sp_id) + 1
                    if r.random() < 0.15 and "lookup" in hooked:
                        plan_lookup[x] = r.choice(pool)
                        look_rows.append(f"{sp_id[x]}:!{E.proto_name(plan_lookup[x])}")
                    else:
                        try:
                            real_codecs.lookup(x)
                            look_rows.append(f"{sp_id[x]}:ok")
                        except Exception as exn:  # noqa
                            look_rows.append(f"{sp_id[x]}:!{E.proto_name(type(exn))}")
                    codec_id.setdefault(x.lower(), len(codec_id) + 1)
                    canon_rows.append(f"{sp_id[x]}:{codec_id[x.lower()]}")
            spell_rows.append(f"{name_id[e]}:{'.'.join(str(sp_id[x]) for x in sps)}")
            if e:
                codec_id.setdefault(e.lower(), len(codec_id) + 1)
                low_rows.append(f"{name_id[e]}:{codec_id[e.lower()]}")
        for c, cid in codec_id.items():
            row = []
            for errors in ("strict", "replace"):
                if r.random() < 0.25 and "decode" in hooked:
                    plan_decode[(c, errors)] = r.choice(pool)
                    row.append("!" + E.proto_name(plan_decode[(c, errors)]))
                else:
                    try:
                        u = real_to_unicode(d0, d0.markup, c, errors)
                        row.append("z" if u == "" else "t")
                    except Exception as exn:  # noqa
                        row.append("!" + E.proto_name(type(exn)))
            tab_rows.append(f"{cid}:{row[0]}:{row[1]}")
        if gen_raise is not None:
            cand_tok = ",".join([str(name_id[e]) for e in pre] + ["!" + E.proto_name(gen_raise)])
        else:
            cand_tok = ",".join(str(name_id[e]) for e in encs) or "-"
        # ---- the real code under the same plan
        D.codecs = E._Shim(real_codecs, lookup=lambda nm: (_ for _ in ()).throw(E.make_exc(plan_lookup[nm])) if nm in plan_lookup else real_codecs.lookup(nm))
        UnicodeDammit._to_unicode = (lambda self, data, encoding, errors="strict":
                                     (_ for _ in ()).throw(E.make_exc(plan_decode[(encoding, errors)])) if (encoding, errors) in plan_decode
                                     else real_to_unicode(self, data, encoding, errors))
        if gen_raise is not None:
            EncodingDetector.find_declared_encoding = classmethod(lambda cls, *a, **k: (_ for _ in ()).throw(E.make_exc(gen_raise)))
        if log_raise is not None:
            log.warning = lambda *a, **k: (_ for _ in ()).throw(E.make_exc(log_raise))
        try:
            with warnings.catch_warnings():
                warnings.simplefilter("ignore")
                d = make()
            if d.unicode_markup is None:
                got = f"none repl={1 if d.contains_replacement_characters else 0}"
            else:
                got = (f"some enc={codec_id.get(d.original_encoding, 0)} repl={1 if d.contains_replacement_characters else 0} "
                       f"empty={1 if d.unicode_markup == '' else 0}")
        except BaseException as exn:  # noqa
            got = "escapes " + E.proto_name(type(exn))
        finally:
            D.codecs = real_codecs
            UnicodeDammit._to_unicode = real_to_unicode
            EncodingDetector.find_declared_encoding = real_fde
            if "warning" in vars(log):
                del log.warning
        ascii_ids = ",".join(str(name_id[e]) for e in name_id if e == "ascii") or "-"
        line = (f"c06 dammite live {cand_tok} {';'.join(spell_rows) or '-'} {';'.join(look_rows) or '-'} {';'.join(canon_rows) or '-'} "
                f"{';'.join(low_rows) or '-'} {';'.join(tab_rows) or '-'} {ascii_ids} {'ok' if log_raise is None else '!' + E.proto_name(log_raise)}")
        lines.append(line)
        impl.append(got)
        cases.append({"op": "dammit-raising", "markup": enc_markup(markup), "kwargs": enc_kwargs(kwargs), "encodings": encs,
                      "lookup_raises": {k: v.__name__ for k, v in plan_lookup.items()},
                      "decode_raises": {f"{k[0]}/{k[1]}": v.__name__ for k, v in plan_decode.items()},
                      "generator_raises": gen_raise.__name__ if gen_raise else None, "log_raises": log_raise.__name__ if log_raise else None})
        ctx.case(("DR", markup, repr(sorted(kwargs.items(), key=str)), line) if (plan_lookup or plan_decode or gen_raise or log_raise) else None)
        ctx.count("dammit-raising:" + got.split()[0])
    rep = drv.ask(lines)
    for l, a, b, c in zip(lines, impl, rep, cases):
        if a != b:
            ctx.corr_disagreements += 1
            if capped(ctx, "dammit-raising", "disagree"):
                continue
            ctx.violation("model and implementation disagree on UnicodeDammit under raising primitives (which exceptions are absorbed / leave)",
                          case=c | {"line": l}, observed=a, model=b, stream="dammit-raising", no_failing_input=True)
    ctx.count("dammit-raising:requests", len(lines))


# first documents / attempts: unclosed void elements, open pre/script/textarea contexts, buffered text — rejected part-way, or accepted
SEQUEL_FIRST = [
    ("rejected", "<div>x<br>y<br>z<hr><img src=a><![bad]> never seen"),
    ("rejected", "<br><p>a<![x]>"),
    ("rejected", "<pre>\n k<b><input><wbr><![x]"),
    ("rejected", "<p>text only <![x]"),
    ("rejected", "<a href=\"&#" + "9" * 4301 + ";\">x</a>"),
    ("accepted", "<div>x<br>y<hr>z<img><input><meta><link><wbr><col><embed><area><base><source><track><param>"),
    ("accepted", "<br><br><br><hr><hr>"),
    ("accepted", "<pre> <script>1<2</script><textarea>\n t"),
]
# sequels: stray end tags of void names between text runs (text-node boundaries, whitespace-only text), ordinary content
SEQUEL_DOCS = ["<p>one</br>two</p><i> </br> </i>", "x</br>y", "a</hr> </hr>b", "<b>1</img>2</input>3</meta>4</link>5</wbr>6</b>",
               "<p>a</br>b</p>", "x</br></p>y<br>z</br>w</br>v", "<pre>\n p</pre> <b> </b>", "<br/></br><hr></hr>t</hr>u", "text",
               "<td>1</col>2</area>3</base>4</source>5</track>6</param>7</embed>8</td>"]


def tree_nodes(soup):
    """the tree node by node (class, name/text, attributes, linkage by pre-order index), JSON-normalised"""
    return json.loads(json.dumps(dump(soup)["nodes"]))


_FRESH_SCRIPT = r"""
import sys, json, warnings
sys.path.insert(0, sys.argv[1]); sys.path.insert(0, sys.argv[2])
import logging; logging.disable(logging.CRITICAL)
from harness import c06
from bs4 import BeautifulSoup
docs = json.load(sys.stdin)
out = []
warnings.simplefilter("ignore")
for d in docs:
    out.append(c06.tree_nodes(BeautifulSoup(d, "html.parser")))
json.dump(out, sys.stdout)
"""


def fresh_process_trees(docs):
    """the tree of each document parsed ALONE, each in its own fresh interpreter (nothing parsed before it in that process)"""
    import subprocess
    import sys
    from .common import VERIF, REPO
    out = []
    procs = [subprocess.Popen([sys.executable, "-B", "-c", _FRESH_SCRIPT, str(VERIF), str(REPO)], stdin=subprocess.PIPE,
                              stdout=subprocess.PIPE, stderr=subprocess.PIPE, text=True) for _ in docs]
    for d, pr in zip(docs, procs):
        o, e = pr.communicate(json.dumps([d]))
        if pr.returncode != 0:
            raise RuntimeError("fresh-process reference failed: " + e[-400:])
        out.append(json.loads(o)[0])
    return out


def run_history(first, doc, shared, k):
    """one history in THIS interpreter: the first document (or k rejected strategies) and then the sequel; -> (how the first ended, tree)"""
    from bs4 import BeautifulSoup
    from bs4.builder import HTMLParserTreeBuilder
    from bs4.exceptions import ParserRejectedMarkup
    with warnings.catch_warnings():
        warnings.simplefilter("ignore")
        if k:
            FB = _fault_builder_class()
            plan = [("r%d" % i, None, None, False, ("natural", first)) for i in range(k)] + [(doc, None, None, False, ("accept",))]
            return "retry", tree_nodes(BeautifulSoup("ignored", builder=FB(plan)))
        b = HTMLParserTreeBuilder() if shared else None
        try:
            BeautifulSoup(first, "html.parser") if b is None else BeautifulSoup(first, builder=b)
            ended = "accepted"
        except ParserRejectedMarkup:
            ended = "rejected"
        except Exception:  # noqa (reported by the construct stream)
            ended = "crashed"
        soup = BeautifulSoup(doc, "html.parser") if b is None else BeautifulSoup(doc, builder=b)
        return ended, tree_nodes(soup)


_HISTORY_SCRIPT = r"""
import sys, json
sys.path.insert(0, sys.argv[1]); sys.path.insert(0, sys.argv[2])
import logging; logging.disable(logging.CRITICAL)
from harness import c06
h = json.load(sys.stdin)
try:
    ended, nodes = c06.run_history(c06.dec_markup(h["first"]), h["doc"], h["shared"], h["k"])
    json.dump({"ended": ended, "nodes": nodes}, sys.stdout)
except Exception as e:
    json.dump({"ended": "error:" + type(e).__name__ + ": " + str(e)[:200], "nodes": None}, sys.stdout)
"""


def run_histories_fresh(histories, width=16):
    """each history in its own fresh interpreter (so a reported history is its own complete replay), `width` at a time"""
    import subprocess
    import sys
    from .common import VERIF, REPO
    out = [None] * len(histories)
    for s0 in range(0, len(histories), width):
        batch = list(range(s0, min(len(histories), s0 + width)))
        procs = [subprocess.Popen([sys.executable, "-B", "-c", _HISTORY_SCRIPT, str(VERIF), str(REPO)], stdin=subprocess.PIPE,
                                  stdout=subprocess.PIPE, stderr=subprocess.PIPE, text=True) for _ in batch]
        for i, pr in zip(batch, procs):
            o, e = pr.communicate(json.dumps(histories[i]))
            if pr.returncode != 0:
                raise RuntimeError("history subprocess failed: " + e[-400:])
            out[i] = json.loads(o)
    return out


def stream_sequel(ctx):
    """Nothing of an earlier document or of a rejected attempt survives into the next tree: the tree of the sequel (node by node, text
    node boundaries and whitespace-only text included) must be the tree of the same markup parsed alone in a FRESH interpreter. Histories,
    each run in its own fresh interpreter: a rejected or accepted first document then a second constructor call (fresh builder object /
    one shared builder instance), and k rejected strategies then acceptance inside one constructor call (the real tokenizer rejecting
    part-way). Quick tier: a seeded half of the grid; thorough: all of it."""
    ref = dict(zip(SEQUEL_DOCS, fresh_process_trees(SEQUEL_DOCS)))
    hs = []
    for how, first in SEQUEL_FIRST:
        for shared in (False, True):
            for doc in SEQUEL_DOCS:
                hs.append({"first": enc_markup(first), "doc": doc, "shared": shared, "k": None})
        if how == "rejected":
            for k in (1, 2):
                for doc in SEQUEL_DOCS:
                    hs.append({"first": enc_markup(first), "doc": doc, "shared": True, "k": k})
    if not ctx.thorough:
        r = ctx.rng("sequel")
        must = [h for h in hs if h["doc"] in SEQUEL_DOCS[:3] and dec_markup(h["first"]) in (SEQUEL_FIRST[0][1], SEQUEL_FIRST[5][1])]
        rest = [h for h in hs if h not in must]
        r.shuffle(rest)
        hs = must + rest[: len(rest) // 3]
    ctx.exhaustive_parts.append(f"sequel: {len(hs)} histories (first document or k<=2 rejected strategies, then one of {len(SEQUEL_DOCS)} sequels; "
                                "fresh/shared builder), each in its own interpreter, against trees from fresh interpreters")
    results = run_histories_fresh(hs)

    def texts(ns):
        return [n[1] if n[0] != "tag" else "<%s>" % n[1] for n in ns]
    for h, res in zip(hs, results):
        first = dec_markup(h["first"])
        kind = (f"{h['k']} rejected attempt(s)" if h["k"] else f"a first document ({res['ended']})")
        ctx.count(f"sequel:{'retry' if h['k'] else res['ended']}:{'shared' if h['shared'] else 'fresh'}-builder")
        ctx.case(("S", first, h["doc"], h["shared"], h["k"]))
        want = ref[h["doc"]]
        if res["nodes"] is None:
            ctx.violation(f"the history {kind} {ascii(first)[:70]} then {ascii(h['doc'])} did not yield a tree: {res['ended']}",
                          case={"op": "sequel"} | h, stream="sequel")
        elif res["nodes"] != want and not capped(ctx, "sequel", h["doc"]):
            ctx.violation(f"after {kind} {ascii(first)[:70]} the markup {ascii(h['doc'])} gives the tree {texts(res['nodes'])} but parsed alone in a "
                          f"fresh interpreter it gives {texts(want)}" + (" (shared builder instance)" if h["shared"] and not h["k"] else ""),
                          case={"op": "sequel"} | h, expected={"nodes": want[:12]}, observed={"nodes": res["nodes"][:12]}, stream="sequel")


META_SHAPES = [
    '<meta http-equiv="Content-Type" content="text/html; charset=%s">', "<meta http-equiv='content-type' content='text/html;charset=%s'>",
    '<meta HTTP-EQUIV="CONTENT-TYPE" CONTENT="text/html; CHARSET = %s ; x=y">', '<meta http-equiv="Content-Type" content="charset=%s">',
    '<meta http-equiv="Content-Type" content="text/html; charset=%s; charset=other">', '<meta http-equiv="Content-Type" content="text/html">',
    '<meta http-equiv="Content-Type" content="a;\ncharset=%s">', '<meta http-equiv="Content-Type" content="">',
    '<meta http-equiv="Content-Type" content=";charset=">', '<meta charset="%s">', '<meta charset="%s" http-equiv="Content-Type" content="t; charset=%s">',
    '<meta http-equiv="refresh" content="5; charset=%s">', '<meta name="x" content="text/html; charset=%s">',
]
RENDER_AS = ["utf-8", "ascii", "latin-1", "ISO-8859-1", "windows-1252", "utf-16", "shift_jis", "koi8-r", "idna", "punycode", "unicode_escape",
             "raw_unicode_escape", "undefined", "utf-7", "\\1", "\\g<1>", "\\g<0>x", "a\\nb", "\\", "1\\2", "0", "00", "$1", "%s", "{0}"]


def ref_substitution(value, encoding):
    """what a charset-bearing attribute value becomes for an output encoding, stated directly: each declaration the live pattern finds keeps
    its prefix and gets the new name (the whole declaration goes for a Python-specific codec); the name is taken literally"""
    import bs4.element as el
    if isinstance(value, el.CharsetMetaAttributeValue):
        return "" if encoding in el.PYTHON_SPECIFIC_ENCODINGS else encoding
    orig = value.original_value
    out, pos = [], 0
    for m in el.ContentMetaAttributeValue.CHARSET_RE.finditer(orig):
        out.append(orig[pos:m.start()])
        if encoding not in el.PYTHON_SPECIFIC_ENCODINGS:
            out.append(orig[m.start():m.start(3)] + encoding)
        pos = m.end()
    out.append(orig[pos:])
    return "".join(out)


def render_case(markup, kwargs, encodings):
    """-> (problem or None, number of charset-bearing attribute values)"""
    from bs4 import BeautifulSoup
    import bs4.element as el
    with warnings.catch_warnings():
        warnings.simplefilter("ignore")
        soup = BeautifulSoup(markup, "html.parser", **kwargs)
    vals = [(t.name, k, v) for t in soup.find_all(True) for k, v in t.attrs.items() if isinstance(v, el.AttributeValueWithCharsetSubstitution)]
    encs = ([soup.original_encoding] if soup.original_encoding else []) + list(encodings)
    for e in encs:
        for tn, k, v in vals:
            try:
                got = v.substitute_encoding(e)
            except Exception as ex:  # noqa
                return f"<{tn} {k}={str(v)!r}>.substitute_encoding({e!r}) raised {type(ex).__name__}: {str(ex)[:100]}", len(vals)
            want = ref_substitution(v, e)
            if got != want:
                return f"<{tn} {k}={str(v)!r}> rendered for encoding {e!r} becomes {got!r}, not {want!r}", len(vals)
        try:
            soup.decode(eventual_encoding=e)
        except Exception as ex:  # noqa
            return f"decode(eventual_encoding={e!r}) raised {type(ex).__name__}: {str(ex)[:100]}", len(vals)
        for name, fn in (("encode", lambda: soup.encode(e)), ("prettify", lambda: soup.prettify(encoding=e)),
                         ("encode_contents", lambda: soup.encode_contents(encoding=e))):
            try:
                fn()
            except (UnicodeError, LookupError):
                pass            # not an encoder / the codec refuses: CPython's
            except Exception as ex:  # noqa
                return f"{name}({e!r}) raised {type(ex).__name__}: {str(ex)[:100]}", len(vals)
    return None, len(vals)


def stream_render(ctx):
    """'a tree that can be rendered': every constructed tree holding charset declarations, rendered for every output-encoding name shape —
    the tree's own original_encoding (digit-named codec aliases given as from_encoding or declared by the page included), ordinary and
    Python-specific codecs, and names that are special in regex replacement templates / format strings. No exception from the
    repository's substitution; each declaration keeps its prefix and gets the name literally."""
    r = ctx.rng("render")
    cases = []
    names = DIGIT_CODECS + ["utf-8", "latin-1", "cp1252", "koi8-r"]
    for shape in META_SHAPES:
        n = shape.count("%s")
        for name in (names if ctx.thorough else ["8859", "1252", "646", "037", "utf-8", "koi8-r"] + r.sample(DIGIT_CODECS, 3)):
            doc = "<html><head>" + (shape % ((name,) * n)) + "</head><body><p>café &amp; x</p></body></html>"
            cases.append((doc, {}))                                                  # str: no original encoding
            try:
                b = doc.encode(name)
            except Exception:  # noqa
                b = doc.encode("ascii", "replace")
            cases.append((b, {}))                                                    # the page declares it
            cases.append((doc.encode("ascii", "xmlcharrefreplace"), {"from_encoding": name}))   # the caller says so
    pool = DIGIT_CODECS + RENDER_AS
    for doc, kw in cases:
        encs = (DIGIT_CODECS if ctx.thorough else ["8859", "1252"] + r.sample(DIGIT_CODECS, 4)) + RENDER_AS
        try:
            problem, nvals = render_case(doc, kw, encs)
        except Exception as ex:  # noqa (a constructor failure is the construct stream's business; still a failure here)
            problem, nvals = f"construction raised {type(ex).__name__}: {str(ex)[:100]}", 0
        ctx.case(("R", doc, repr(kw)) if nvals else None)
        ctx.count("render:" + ("charset-values" if nvals else "no-charset-values"))
        if problem and not capped(ctx, "render", problem[:40]):
            ctx.violation(f"BeautifulSoup({describe(doc)}, 'html.parser'{''.join(', %s=%r' % kv for kv in kw.items())}): " + problem,
                          case={"op": "render", "markup": enc_markup(doc), "kwargs": enc_kwargs(kw), "encodings": encs, "shown": describe(doc)},
                          expected="renders for every output-encoding name; charset declarations keep their prefix and get the name literally",
                          observed=problem, stream="render")
    ctx.count("render:cases", len(cases))


# --------------------------------------------------------------------------------------------
# stream tokenizer-pipeline: the real constructor against text -> tokenizer MODEL -> handlers -> construction machine
# --------------------------------------------------------------------------------------------
MS_KNOWN = {"temp", "cdata", "ignore", "include", "rcdata", "if", "else", "endif"}
# `RaisesAt` (Model/EnvelopeTokenizer.lean) written down independently: `<![` + (a character that is no ASCII letter | a name and whitespace,
# both taken greedily without giving back, + one more character, the lowered name no known keyword)
RAISES_AT = re.compile(r"<!\[(?:[^a-zA-Z]|([a-zA-Z][-_.a-zA-Z0-9]*+)\s*+.)", re.S)
MS_KEYWORDS = ["CDATA", "cdata", "CdAtA", "temp", "TEMP", "ignore", "include", "INCLUDE", "rcdata", "RCDATA", "if", "IF", "else", "endif", "EndIf",
               "foo", "x", "cdatax", "CDATA1", "if-x", "if.x_y", "i", "ifx", "e", "İf", "ſ", "Kif", "data", "1", "", " ", " if", "-", "_a", "é", "[",
               "]", ">", "\x00", "\n", "cdata ", "doctype", "--"]
MS_TAILS = ["", " ", "[", "[x", "[x]]>", "[x]>", " x]>", "]>", "]]>", "]", ">", "\n", "\n]>", "[x] ]>", "[x]\n]\n>", "[x]]", " ]>", "\x0c", "<p>", "&amp;"]
MS_CONTEXTS = [lambda s: "a" + s, lambda s: s + "<p>z", lambda s: "<p>" + s + "</p>", lambda s: "<!--" + s + "-->", lambda s: "<!--" + s,
               lambda s: "<![CDATA[" + s + "]]>", lambda s: "<![CDATA[" + s, lambda s: "<script>" + s + "</script>", lambda s: "<script>" + s,
               lambda s: "<style>" + s + "</style>x", lambda s: "<STYLE>" + s + "</sTyle >" + s, lambda s: "<!" + s, lambda s: "<!" + s + ">",
               lambda s: "<a b='" + s + "'>", lambda s: "<a b=" + s + ">", lambda s: "<a " + s + ">", lambda s: "<?" + s + "?>", lambda s: "<?" + s,
               lambda s: "</" + s + ">", lambda s: "&" + s, lambda s: "&amp;" + s, lambda s: "&#65" + s, lambda s: "<!DOCTYPE " + s + ">",
               lambda s: "<!DOCTYPE " + s, lambda s: "<textarea>" + s + "</textarea>", lambda s: "<title>" + s, lambda s: s + s,
               lambda s: "<![if x]>" + s + "<![endif]>", lambda s: "<p>a</p>\n" + s, lambda s: "<" + s, lambda s: "<!-" + s, lambda s: "﻿ \n" + s,
               lambda s: "<script/>" + s, lambda s: "<br/>" + s + "<br>", lambda s: "<a b='x" + s, lambda s: "</p " + s]


def raises_at(text):
    """indices i at which `<![` stands and `RaisesAt (text.drop i)` holds (Python statement of the Lean predicate)"""
    out = []
    i = text.find("<![")
    while i >= 0:
        m = RAISES_AT.match(text, i)
        if m and (m.group(1) is None or m.group(1).lower() not in MS_KNOWN):
            out.append(i)
        i = text.find("<![", i + 1)
    return out


def pipeline_real(text):
    from bs4.exceptions import ParserRejectedMarkup
    from . import c04
    try:
        return "tree|" + c04.shape(c04.real_parse(text, {}))
    except ParserRejectedMarkup:
        return "prm"
    except Exception as ex:  # noqa: BLE001
        return f"other:{type(ex).__name__}"


def pipeline_model(drv, texts):
    """[(model reply of `c06 pipe` or 'unescape-raises', reply of `c06 raises`)]"""
    from . import c04, tk
    from .common import cps
    needs = drv.ask([f"tk needs {cps(t) or '-'}" for t in texts])
    cfg = c04.cfg_tokens({})
    tabs = []
    for n in needs:
        try:
            tabs.append(tk._tab(n))
        except ValueError:          # html.unescape on an attribute value with an over-long decimal reference: outside the model (measured)
            tabs.append(None)
    live = [(t, tb) for t, tb in zip(texts, tabs) if tb is not None]
    reps = iter(drv.ask([f"c06 pipe {cfg} {tb} {cps(t) or '-'}" for t, tb in live]))
    pipe = [next(reps) if tb is not None else "unescape-raises" for tb in tabs]
    rz = drv.ask([f"c06 raises {cps(t) or '-'}" for t in texts])
    return list(zip(pipe, rz))


def gen_marked_sections(ctx):
    out = []
    for kw in MS_KEYWORDS:
        for tail in MS_TAILS:
            out.append(("ms-alone", "<![" + kw + tail))
    rest = [(ci, kw, tail) for ci in range(len(MS_CONTEXTS)) for kw in MS_KEYWORDS for tail in MS_TAILS]
    r = ctx.rng("tokenizer-pipeline", "contexts")
    if not ctx.thorough:
        rest = r.sample(rest, 3000)
    for ci, kw, tail in rest:
        out.append((f"ms-context", MS_CONTEXTS[ci]("<![" + kw + tail)))
    return out


def stream_tokenizer_pipeline(ctx, drv, cases):
    """`Props/C06.lean`, section TokenizerModel, against the real constructor: for str texts of every C06 generator (bytes inputs as their latin-1
    text) and a directed family around `<![`, BeautifulSoup(text, 'html.parser') and `feedClose` (Lean: tokenizer model -> handlers -> machine)
    must agree on the outcome class and on the tree; the Python statement of `RaisesAt` must agree with the model's (`c06 raises`); and the two
    directions proved are checked on the real code directly: rejected => some index has RaisesAt (`rejected_only_if_marked_section`); RaisesAt at
    the first `<`/`&` of the text => rejected (`rejected_if_plain_prefix`)."""
    name = "tokenizer-pipeline"
    seen, texts = set(), []

    def add(kind, t):
        if len(t) <= 3000 and t.count("<") <= 250 and t not in seen:
            seen.add(t)
            texts.append((kind, t))
        else:
            ctx.count(f"{name}:skipped:" + ("duplicate" if t in seen else "too-long-or-deep"))

    for kind, t in gen_marked_sections(ctx):
        add(kind, t)
    # html.unescape raising inside parse_starttag (over-long decimal reference in an attribute value): outside the model, rejected by the code
    for t in ('<a b="&#' + "9" * 4301 + ';">x', "<p>ok</p><a b=&#" + "1" * 5000 + ";>", "<a b='&#" + "9" * 4300 + ";'>fine"):
        seen.add(t)
        texts.append(("unescape-longref", t))
    pool = []
    for c in cases:
        m = c[1]
        if isinstance(m, str):
            pool.append(("gen:" + str(c[0]), str.__str__(m)))
        elif isinstance(m, (bytes, bytearray)):
            pool.append(("gen-bytes-as-latin1:" + str(c[0]), bytes(m).decode("latin-1")))
    r = ctx.rng(name, "sample")
    limit = ctx.n(7000, 120000)
    if len(pool) > limit:
        pool = [pool[i] for i in sorted(r.sample(range(len(pool)), limit))]
    for kind, t in pool:
        add(kind, t)
    # every generated text once more with an offending / a harmless section spliced in at a random position
    for i, (kind, t) in enumerate(list(texts[-ctx.n(1500, 30000):])):
        rr = ctx.rng(name, "splice", i)
        sec = "<![" + rr.choice(MS_KEYWORDS) + rr.choice(MS_TAILS)
        p = rr.randint(0, len(t))
        add("spliced", t[:p] + sec + t[p:])
    B = 4000
    for off in range(0, len(texts), B):
        chunk = texts[off:off + B]
        reps = pipeline_model(drv, [t for _, t in chunk])
        for (kind, t), (model, mraises) in zip(chunk, reps):
            real = pipeline_real(t)
            cls = real.split("|", 1)[0].split(":")[0]
            ctx.count(f"{name}:texts")
            ctx.count(f"{name}:kind:{kind.split(':')[0]}")
            ctx.count(f"{name}:real:{cls}")
            py = raises_at(t)
            case = {"op": "pipe", "text": t, "kind": kind}
            ctx.case(("TP", t) if ("<![" in t or cls != "tree") else None, sample={"text": t[:80], "real": real[:80]})
            if cls == "other":
                if not capped(ctx, name, real):
                    ctx.violation(f"BeautifulSoup({t[:60]!r}, 'html.parser') raised {real[6:]}", case=case, expected="a tree or ParserRejectedMarkup",
                                  observed=real, stream=name)
                continue
            if model == "unescape-raises":
                ctx.count(f"{name}:html.unescape-raises(measured, outside the model)")
                if cls != "prm":
                    ctx.violation("html.unescape raises ValueError on an attribute value of this text but the constructor did not reject it",
                                  case=case, observed=real[:300], stream=name, no_failing_input=True)
                continue
            want = ",".join(map(str, py)) or "-"
            if mraises != want:
                ctx.corr_disagreements += 1
                ctx.violation("Lean parseMarkedSection/RaisesAt and the Python statement of RaisesAt disagree on where a marked section raises",
                              case=case, expected=want, model=mraises, stream=name, no_failing_input=True)
            if py:
                ctx.count(f"{name}:has-RaisesAt-index:" + cls)
            if cls == "prm" and not py:
                ctx.violation("rejected although no index carries `<![` + non-letter / unknown complete keyword (rejected_only_if_marked_section "
                              "fails of the real tokenizer)", case=case, observed=real, stream=name, no_failing_input=True)
            first = min((i for i in (t.find("<"), t.find("&")) if i >= 0), default=-1)
            if first >= 0 and first in py:
                ctx.count(f"{name}:RaisesAt-at-first-markup")
                if cls != "prm":
                    ctx.violation("the first markup of the text is a raising marked section but the constructor returned a tree "
                                  "(rejected_if_plain_prefix fails of the real tokenizer)", case=case, observed=real[:300], stream=name,
                                  no_failing_input=True)
            if model.split("|", 1)[0] != cls:
                ctx.corr_disagreements += 1
                if not capped(ctx, name, "class"):
                    ctx.violation("the constructor and the model pipeline (tokenizer model -> handlers -> machine) disagree on tree / ParserRejectedMarkup",
                                  case=case, observed=real[:300], model=model[:300], stream=name, no_failing_input=True)
            elif model != real:
                ctx.corr_disagreements += 1
                if not capped(ctx, name, "tree"):
                    ctx.violation("the constructor and the model pipeline build different trees", case=case, observed=real[:2000], model=model[:2000],
                                  stream=name, no_failing_input=True)


# --------------------------------------------------------------------------------------------
# outside the quantifier: recorded only
# --------------------------------------------------------------------------------------------
def record_outside(ctx):
    from bs4 import BeautifulSoup
    for x in (1, False, 1.5, len, object(), None):
        try:
            with warnings.catch_warnings():
                warnings.simplefilter("ignore")
                BeautifulSoup(x, "html.parser")
            out = "tree"
        except Exception as e:  # noqa
            out = type(e).__name__
        ctx.count(f"outside:markup={type(x).__name__}:{out}")
    for kw in ({"from_encoding": 5}, {"from_encoding": b"utf-8"}, {"exclude_encodings": [5]}, {"exclude_encodings": 5}, {"exclude_encodings": [b"utf-8"]},
               {"from_encoding": ["utf-8"]}):
        try:
            with warnings.catch_warnings():
                warnings.simplefilter("ignore")
                BeautifulSoup(b"<p>\xe9</p>", "html.parser", **kw)
            out = "tree"
        except Exception as e:  # noqa
            out = type(e).__name__
        ctx.count(f"outside:{list(kw)[0]}={type(list(kw.values())[0]).__name__}:{out}")
    ctx.notes.append("non-str/bytes markup (TypeError by design for 1, False, callables; None has no len()) and non-str encoding arguments are outside "
                     "the property's quantifier: outcomes recorded under distribution 'outside:*', never reported")


# --------------------------------------------------------------------------------------------
_CAP = {}


def capped(ctx, stream, cls, limit=30):
    """list at most `limit` violations per (stream, exception class); the rest are counted in the distribution"""
    k = (stream, cls)
    _CAP[k] = _CAP.get(k, 0) + 1
    if _CAP[k] > limit:
        ctx.count(f"violations-not-listed:{stream}:{cls}(same stream and exception class as {limit} listed ones)")
        return True
    return False


ATTR_LONGREF = re.compile(r"<[^<>]*&#[0-9]{4301,}")


def classify_known(markup, kwargs, rec):
    """Every C06 defect found so far is repaired (fixes/C06-*.diff), so nothing is listed as known. Should the
    tokenizer's own ValueError (html.unescape of an attribute value holding a decimal reference beyond
    sys.int_max_str_digits) ever be kept as a known finding instead of being wrapped by feed, this recognises exactly that
    class from the case: the plain tokenizer run alone raised ValueError and the text has such a reference inside a tag."""
    if rec["outcome"] == "other:ValueError" and rec["tok"] == "value":
        text = markup if isinstance(markup, str) else markup.decode("latin-1")
        if ATTR_LONGREF.search(text):
            return "C06-attr-charref-digit-limit"
    return None


def describe(markup):
    if isinstance(markup, bytes):
        s = repr(markup)
    else:
        s = ascii(markup)
    return s if len(s) <= 90 else s[:60] + f"…({len(markup)} units)"


def aggregate(ctx, drv, cases, results):
    lines, impl, meta = [], [], []
    for (stream, markup, kwargs, post), (rec, ls) in zip(cases, results):
        case = {"op": "construct", "markup": enc_markup(markup) if len(markup) <= 20000 else {"too_long": describe(markup)}, "kwargs": enc_kwargs(kwargs),
                "shown": describe(markup)}
        is_str = isinstance(markup, str)
        surr = is_str and any(0xD800 <= ord(c) <= 0xDFFF for c in markup)
        nontrivial = (rec["outcome"] != "tree" or surr or rec["nrefs"] > 0 or rec["warn"] != "none" or stream.startswith(("trunc", "heads", "bom", "garbage",
                      "declared", "from-enc", "control", "long", "deep")) or (is_str and "\x00" in markup) or bool(kwargs) or
                      (not is_str and rec.get("orig") not in ("utf-8", None)))
        ctx.case(("C", markup if len(markup) < 400 else hash(markup), repr(sorted(kwargs.items()))) if nontrivial else None,
                 sample={"markup": describe(markup), "kwargs": {k: (v if len(repr(v)) < 60 else repr(v)[:40] + "…") for k, v in kwargs.items()},
                         "outcome": rec["outcome"], "stream": stream}
                 if (len(ctx.samples) < 8 and stream in ("surrogate-short", "charref-len", "bom", "declared", "heads", "fuzz-bytes", "trunc", "heur")
                     and not any(s.get("stream") == stream for s in ctx.samples if isinstance(s, dict))) else None)
        ctx.count("outcome:" + rec["outcome"])
        ctx.count(f"stream:{stream}")
        ctx.count("tok:" + rec["tok"])
        ctx.count("warn:" + rec["warn"])
        if surr:
            ctx.count("input:lone-surrogate")
        if rec["nrefs"]:
            ctx.count("input:numeric-references", rec["nrefs"])
        if rec["longref"]:
            ctx.count("input:reference-longer-than-4300-digits")
        if not is_str:
            ctx.count("bytes:original_encoding=" + str(rec.get("orig")) if rec["outcome"] == "tree" else "bytes:" + rec["outcome"])
            if rec.get("repl"):
                ctx.count("bytes:contains_replacement_characters")
        if rec["outcome"] == "prm":
            ctx.count("prm:" + ("tokenizer" if rec["tok"] in ("assert", "value") else "undecodable"))
        # ---- direct oracle ----
        if rec["outcome"].startswith("other") and not capped(ctx, stream, rec["outcome"]):
            ctx.violation(f"BeautifulSoup({describe(markup)}, 'html.parser'{''.join(', %s=%r' % kv for kv in kwargs.items())[:120]}) raised "
                          f"{rec['outcome'][6:]}: {rec['exc']}", case=case, expected="a tree or ParserRejectedMarkup", observed=rec["outcome"][6:],
                          stream=stream, kf=classify_known(markup, kwargs, rec))
        if rec.get("has_text") and rec["tok"] == "ok" and rec["outcome"] == "prm" and not capped(ctx, stream, "prm-without-cause"):
            ctx.violation(f"BeautifulSoup({describe(markup)}, ...) raised ParserRejectedMarkup although UnicodeDammit produced text and the tokenizer "
                          "alone accepts it: " + str(rec["exc"]), case=case, expected="a tree", observed="ParserRejectedMarkup", stream=stream)
        if rec.get("orig_not_codec") and not capped(ctx, stream, "orig-not-codec"):
            ctx.violation(f"BeautifulSoup({describe(markup)}, 'html.parser'{''.join(', %s=%r' % kv for kv in kwargs.items())[:120]}) returns a tree "
                          f"whose original_encoding {rec['orig']!r} is not a text codec ({rec['orig_not_codec']}): the document cannot have been read as that",
                          case=case, expected="original_encoding names the codec the document was decoded with", observed=rec["orig"], stream=stream,
                          kf=classify_known(markup, kwargs, rec))
        if rec["link"] and not capped(ctx, stream, "link"):
            ctx.violation("the constructed tree is not well linked: " + rec["link"], case=case, stream=stream)
        if rec["post"] and not capped(ctx, stream, "post:" + rec["post"][:30]):
            ctx.violation("the constructed tree cannot be rendered/searched/copied: " + rec["post"], case=case, stream=stream)
        if rec["half_built"] and not capped(ctx, "half-built", "not-cleared"):
            ctx.violation(rec["half_built"], case=case, stream=stream)
        if rec["tok"].startswith("other"):
            ctx.violation("measured hypothesis broken: CPython's tokenizer alone raised " + rec["tok"][6:], case=case, stream=stream,
                          no_failing_input=not rec["outcome"].startswith("other"))
        if rec.get("tok_fact"):
            ctx.violation("recorded fact about CPython's tokenizer broken: " + rec["tok_fact"], case=case, stream=stream, no_failing_input=True)
        if not rec["names_ok"]:
            ctx.violation("measured hypothesis broken: the tokenizer delivered a charref name outside [0-9]+|[xX][0-9a-fA-F]+", case=case, stream=stream,
                          no_failing_input=True)
        for l, a, what in ls:
            lines.append(l)
            impl.append(a)
            meta.append((case, what, rec))
    rep = drv.ask(lines)
    nd = 0
    for l, a, b, (case, what, rec) in zip(lines, impl, rep, meta):
        ctx.count("model:" + what)
        if a != b:
            nd += 1
            ctx.corr_disagreements += 1
            already = rec["outcome"].startswith("other")
            if what == "outcome" and already:
                continue  # reported above with the real exception
            if what == "warning" and a.startswith("ok ") and b.startswith("ok "):
                # WHICH short tag-less inputs draw a MarkupResemblesLocatorWarning is behaviour the property leaves free (it only demands
                # that the heuristic never makes the constructor fail): a difference of warning KIND between model and code is recorded,
                # not reported (false alarm found by the free-behaviour round: more URL schemes / extensions recognised)
                ctx.count("free:locator-warning-kind-differs")
                continue
            if capped(ctx, "construct-correspondence", what):
                continue
            ctx.violation(f"model and implementation disagree on the {what}", case=case | {"line": l if len(l) < 400 else l[:400] + '…'}, observed=a, model=b,
                          stream="construct-correspondence", no_failing_input=True)
    ctx.count("construct:requests", len(lines))
    ctx.count("construct:disagreements", nd)



def run(ctx: Ctx):
    _CAP.clear()
    ctx.rule = ("construct: generated str/bytes x encoding arguments; non-trivial = the input exercises a modelled branch: it is rejected, or holds a "
                "lone surrogate / NUL / numeric reference, or is bytes that are not plain UTF-8 without arguments, or triggers a locator warning, or "
                "ends inside a construct (truncation streams); charref-direct: well-formed names; dammit: >= 2 candidates and not simply the first; "
                "fault: k >= 1 rejected strategies")
    ctx.assumptions = [
        "CPython's html.parser tokenizer raises nothing but AssertionError/ValueError: measured on every generated input by a plain HTMLParser run "
        "(distribution tok:*), hypothesis of constructor_outcome; for the Lean tokenizer model it is proved (section TokenizerModel) and the model is "
        "tied to the real constructor by stream tokenizer-pipeline (outcome class and tree) and to html.parser's callbacks by ./check TK",
        "stream tokenizer-pipeline: html.unescape, str.lower and the html5 entity table are parameters of the model answered by the standard library per "
        "text; texts longer than 3000 characters or with more than 250 '<' are left to the construct stream (the tree printer recurses)",
        "handle_charref is only called with names matching [0-9]+|[xX][0-9a-fA-F]+ (measured: names_ok)",
        "the handlers other than handle_charref do not raise (C04's models); measured by the outcome oracle",
        "feed writes only attributes that reset()/initialize_soup/the loop header re-assign: instrumented into Gen.feedTouches on every run and measured "
        "by the fault-injection stream (canonical dump incl. every attribute of the object and of the builder)",
        "post-construction checks (decode/get_text/prettify/encode/copy/find_all) for nesting depth <= 6000 (copy is quadratic in depth beyond)",
    ]
    drv = Driver()
    cases = []
    # corpus first
    cdir = os.path.join(os.path.dirname(os.path.dirname(os.path.abspath(__file__))), "corpus", "C06")
    if os.path.isdir(cdir):
        for f in sorted(os.listdir(cdir)):
            if f.endswith(".json"):
                c = json.load(open(os.path.join(cdir, f)))
                cases.append(("corpus", dec_markup(c["markup"]), dec_kwargs(c.get("kwargs", {})), True))
    cases += gen_truncations(ctx)
    ctx.exhaustive_parts.append("every prefix of every corpus document (%d documents)" % len(DOCS))
    cases += gen_surrogates(ctx)
    ctx.exhaustive_parts.append("a lone surrogate (D800, DBFF, DC00, DFFF) at every position of 11 short tag-less strings")
    cases += gen_charrefs(ctx)
    cases += gen_structural(ctx)
    cases += gen_heuristics(ctx)
    cases += gen_subclasses(ctx)
    bytes_cases = gen_bytes(ctx)
    cases += bytes_cases
    cases += gen_fuzz_str(ctx)

    # run (forked workers; results in input order, so the run is deterministic for a seed), in segments to bound memory
    nproc = min(16, os.cpu_count() or 1)
    observed = {}
    pool = None
    if nproc > 1 and len(cases) > 400:
        import multiprocessing as mp
        pool = mp.get_context("fork").Pool(nproc)
    try:
        SEG = 16000
        for s0 in range(0, len(cases), SEG):
            seg = cases[s0:s0 + SEG]
            chunks = [seg[i:i + 100] for i in range(0, len(seg), 100)]
            results = pool.map(eval_chunk, chunks, chunksize=1) if pool else [eval_chunk(c) for c in chunks]
            for _, seen in results:
                for pt, names in seen.items():
                    observed.setdefault(pt, set()).update(names)
            results = [x for ch, _ in results for x in ch]
            aggregate(ctx, drv, seg, results)
    finally:
        if pool:
            pool.close()
            pool.join()

    check_recorded(ctx, observed, cases)
    stream_charref_direct(ctx, drv)
    stream_dammit(ctx, drv, bytes_cases)
    stream_dammit_raising(ctx, drv, bytes_cases)
    stream_fault(ctx, drv)
    stream_sequel(ctx)
    stream_render(ctx)
    stream_tokenizer_pipeline(ctx, drv, cases)
    stream_inject(ctx, drv)
    record_outside(ctx)

    # list one violation of every (stream, observation) class before the second of any: the replays written first are varied
    seen = {}
    order = []
    for i, v in enumerate(ctx.violations):
        k = (v.get("stream"), str(v.get("observed"))[:40])
        seen[k] = seen.get(k, 0) + 1
        order.append((seen[k], i))
    ctx.violations[:] = [ctx.violations[i] for _, i in sorted(order)]

    if ctx.lean is not None and not ctx.lean.ok:
        ctx.notes.append("Lean obligations did not check: the direct oracle above ran over every stream (incl. the exhaustive truncation and surrogate "
                         "parts) and the fault-injection grid, which is where a changed field table or literal would show as a failing input")


def replay(path):
    v = json.load(open(path))
    c = v["case"]
    if c.get("op") == "construct" and "markup" in c and "too_long" not in c["markup"]:
        markup, kwargs = dec_markup(c["markup"]), dec_kwargs(c.get("kwargs", {}))
        rec = run_constructor(markup, kwargs)
        print("input:", describe(markup), kwargs)
        print("outcome:", rec["outcome"], rec["exc"] or "", "| link:", rec["link"], "| post:", rec["post"])
        print("property demands: a tree (well linked, renderable, searchable, copyable) or ParserRejectedMarkup")
        return 0 if (rec["outcome"] in ("tree", "prm") and not rec["link"] and not rec["post"]) else 1
    if c.get("op") == "inject":
        from . import c06_envelope as E
        table = E.class_table()
        cls = {E.proto_name(k): k for k in list(table.values()) + [E.HarnessError, E.HarnessBaseError]}[c["class"]]
        doc = dec_markup(c["markup"])
        with E.inject(c["point"], cls):
            got = E.verdict(doc)
        print(f"every call of '{c['point']}' raises {c['class']} while constructing {describe(doc)}: the caller sees: {got}")
        print("model / property:", v.get("model_reply") or v.get("expected"))
        want = v.get("model_reply")
        return 0 if (got == want if want else not got.startswith("escapes")) else 1
    if c.get("op") == "render":
        markup, kwargs = dec_markup(c["markup"]), dec_kwargs(c.get("kwargs", {}))
        problem, nvals = render_case(markup, kwargs, c["encodings"])
        print("input:", describe(markup), kwargs, "| charset-bearing attribute values:", nvals)
        print("problem:", problem)
        return 1 if problem else 0
    if c.get("op") == "pipe":
        t = c["text"]
        (model, mraises), = pipeline_model(Driver(), [t])
        real = pipeline_real(t)
        print("text :", ascii(t))
        print("real constructor               :", real[:600])
        print("model (tokenizer -> handlers -> machine):", model[:600])
        print("RaisesAt indices: python", raises_at(t), "| lean", mraises)
        ok = real.split("|")[0] in ("tree", "prm") and (model == real or model == "unescape-raises")
        return 0 if ok else 1
    if c.get("op") == "sequel":
        first, doc = dec_markup(c["first"]), c["doc"]
        want = fresh_process_trees([doc])[0]
        ended, got = run_history(first, doc, c["shared"], c["k"])

        def texts(ns):
            return [n[1] if n[0] != "tag" else "<%s>" % n[1] for n in ns]
        print("history:", (f"{c['k']} rejected strategies" if c["k"] else f"first document ({ended})"), describe(first), "then", ascii(doc),
              "| shared builder" if c["shared"] else "| fresh builder")
        print("tree now:               ", texts(got))
        print("tree in a fresh process:", texts(want))
        return 0 if got == want else 1
    if c.get("op") == "recorded" and "markup" in c:
        from . import c06_envelope as E
        seen = {}
        with E.record(seen):
            run_constructor(dec_markup(c["markup"]), dec_kwargs(c.get("kwargs", {})), post=False)
        print("primitives raising on this input:", {k: sorted(x.__name__ for x in v2) for k, v2 in seen.items()})
        return 1
    if c.get("op") == "charref-direct":
        from bs4 import BeautifulSoup
        from bs4.builder._htmlparser import BeautifulSoupHTMLParser
        name = c["name"] if isinstance(c["name"], str) else c["name"]["full"]
        soup = BeautifulSoup("", "html.parser")
        soup.original_encoding = c["encoding"]
        p = BeautifulSoupHTMLParser(soup)
        got = []
        p.handle_data = got.append
        try:
            p.handle_charref(name)
            print("handle_charref ->", got)
            return 0 if got and got[0] else 1
        except Exception as e:  # noqa
            print("handle_charref raised", type(e).__name__, str(e)[:100])
            return 1
    if c.get("op") == "fault":
        excs = {"KeyError": KeyError}
        plan = []
        for m, oe, de, cr, act in c["plan"]:
            a = tuple(act) if act[0] != "raise" else ("raise", excs.get(act[1], KeyError))
            plan.append((m, oe, de, cr, a))
        outcome, attempts, d, msg = run_fault(plan)
        print(f"plan of {len(plan)} strategies {[st[4][0] for st in plan]} -> {outcome} after {attempts} attempts", msg or "")
        problem = check_fault(plan, outcome, attempts, d, msg)
        if problem:
            print("PROBLEM:", problem[0])
            print("  expected:", problem[1])
            print("  observed:", str(problem[2])[:600])
            return 1
        print("the first strategy that is not rejected decided, nothing after it was tried, the object is its clean parse")
        return 0
    if c.get("op") == "dammit-raising":
        print("UnicodeDammit on", describe(dec_markup(c["markup"])), dec_kwargs(c.get("kwargs", {})))
        print("  codecs.lookup raises:", c["lookup_raises"], "| str() raises:", c["decode_raises"], "| generator raises:", c["generator_raises"],
              "| log raises:", c["log_raises"])
        print("  implementation:", v.get("observed"), "| model (dammitE):", v.get("model_reply"))
        return 1
    if c.get("op") == "dammit":
        from bs4.dammit import UnicodeDammit
        markup, kw = dec_markup(c["markup"]), dec_kwargs(c.get("kwargs", {}))
        fe = kw.get("from_encoding") or None
        d = UnicodeDammit(markup, known_definite_encodings=[fe] if fe else [], user_encodings=[], is_html=True, exclude_encodings=kw.get("exclude_encodings"))
        print("UnicodeDammit:", None if d.unicode_markup is None else repr(d.unicode_markup[:60]), d.original_encoding, d.contains_replacement_characters,
              "| model:", v.get("model_reply"))
        return 1
    print(json.dumps(v, indent=1)[:3000])
    return 1
