"""C06 — fault injection and recording at the *primitives* of the constructor's call path (harness code only; the
patches live in this process' loaded modules, never in /repo).

A *point* is one operation outside the repository (or one of the tree-building callbacks) reached from
`BeautifulSoup(markup, "html.parser", ...)`; `inject(point, cls)` makes every call of it raise `cls`, `record()`
lets the calls through and notes the exact class of whatever they raise. The Lean model (`BS.Construct.Prims`,
`Point`, `predict`) has the same points; `verdict()` is the observable compared with it."""
import contextlib
import logging
import warnings
from html.parser import HTMLParser

POINTS = ["warn", "cands", "lookup", "decode", "logWarning", "declaredProp", "resetAll", "newParser", "tokFeed", "tokClose",
          "intOf", "dec1", "chrOf", "applyData", "applyOther", "endOfInput"]

# Lean constructor of BS.Construct.Err -> live class
def class_table():
    from bs4.exceptions import ParserRejectedMarkup, FeatureNotFound, StopParsing
    return {
        "baseException": BaseException, "exception": Exception, "keyboardInterrupt": KeyboardInterrupt, "systemExit": SystemExit,
        "generatorExit": GeneratorExit, "arithmeticError": ArithmeticError, "overflowError": OverflowError,
        "zeroDivisionError": ZeroDivisionError, "assertionError": AssertionError, "attributeError": AttributeError,
        "lookupError": LookupError, "indexError": IndexError, "keyError": KeyError, "valueError": ValueError,
        "unicodeError": UnicodeError, "unicodeDecodeError": UnicodeDecodeError, "unicodeEncodeError": UnicodeEncodeError,
        "unicodeTranslateError": UnicodeTranslateError, "typeError": TypeError, "runtimeError": RuntimeError,
        "recursionError": RecursionError, "notImplementedError": NotImplementedError, "memoryError": MemoryError,
        "stopIteration": StopIteration, "osError": OSError, "importError": ImportError, "nameError": NameError,
        "parserRejectedMarkup": ParserRejectedMarkup, "featureNotFound": FeatureNotFound, "stopParsing": StopParsing,
        "warningClass": Warning,
    }


class HarnessError(Exception):
    """`.other 0`: a direct subclass of Exception nobody knows"""


class HarnessBaseError(BaseException):
    """`.otherBase 0`: a direct subclass of BaseException nobody knows"""


def lean_name(cls, table=None):
    """Lean term for a live class (exact class), or None"""
    table = table or class_table()
    for k, v in table.items():
        if v is cls:
            return "." + k
    if cls is HarnessError:
        return "(.other 0)"
    if cls is HarnessBaseError:
        return "(.otherBase 0)"
    return None


def proto_name(cls):
    """class name in the driver protocol (Python's own name; the two harness classes are the open families)"""
    if cls is HarnessError:
        return "Other0"
    if cls is HarnessBaseError:
        return "OtherBase0"
    if cls is Warning:
        return "Warning"
    return cls.__name__


def make_exc(cls):
    if cls is UnicodeDecodeError:
        return cls("injected", b"\xff", 0, 1, "injected")
    if cls is UnicodeEncodeError:
        return cls("injected", "\udfff", 0, 1, "injected")
    if cls is UnicodeTranslateError:
        return cls("\udfff", 0, 1, "injected")
    return cls("injected")


class _Shim:
    """stands in for a module: one attribute replaced, the rest delegated"""

    def __init__(self, real, **over):
        self.__dict__["_real"] = real
        self.__dict__.update(over)

    def __getattr__(self, k):
        return getattr(self.__dict__["_real"], k)


# the scenario document for each point: chosen so that the point is reached (the Lean side has the same scenarios)
STR_DOC = "<p>&#65;&#x42;&#150;&#300;</p>tail"
BYTES_DOC = b"<p>caf\xc3\xa9 &#65;&#150;&#300;</p>"
LOG_DOC = b"<p>\x81 &#65;</p>"          # neither UTF-8 nor Windows-1252 strictly: the replace pass and its log call
URL_DOC = "http://example.com/"


def scenario(point):
    if point == "warn":
        return URL_DOC
    if point in ("cands", "lookup", "decode", "declaredProp", "dec1"):
        return BYTES_DOC
    if point == "logWarning":
        return LOG_DOC
    return STR_DOC


@contextlib.contextmanager
def patched(point, on_call):
    """Route every call of `point` through on_call(point, thunk): thunk() performs the real operation."""
    import bs4
    import bs4.dammit as D
    import bs4.builder as B
    from bs4.builder import _htmlparser as HP
    undo = []

    def setattr_(obj, name, val):
        had = name in vars(obj)
        old = vars(obj).get(name)
        setattr(obj, name, val)
        undo.append((obj, name, had, old))

    if point == "warn":
        real = bs4.warnings
        setattr_(bs4, "warnings", _Shim(real, warn=lambda *a, **k: on_call(point, lambda: real.warn(*a, **k))))
    elif point == "cands":
        real = D.EncodingDetector.__dict__["find_declared_encoding"].__func__
        setattr_(D.EncodingDetector, "find_declared_encoding",
                 classmethod(lambda cls, *a, **k: on_call(point, lambda: real(cls, *a, **k))))
    elif point == "lookup":
        real = D.codecs
        setattr_(D, "codecs", _Shim(real, lookup=lambda name: on_call(point, lambda: real.lookup(name))))
    elif point == "decode":
        real = D.UnicodeDammit._to_unicode
        setattr_(D.UnicodeDammit, "_to_unicode", lambda self, *a, **k: on_call(point, lambda: real(self, *a, **k)))
    elif point == "logWarning":
        log = logging.getLogger("bs4.dammit")
        real = logging.Logger.warning
        setattr_(log, "warning", lambda *a, **k: on_call(point, lambda: real(log, *a, **k)))
    elif point == "declaredProp":
        real = D.UnicodeDammit.__dict__["declared_html_encoding"]
        setattr_(D.UnicodeDammit, "declared_html_encoding", property(lambda self: on_call(point, lambda: real.fget(self))))
    elif point == "resetAll":
        real = B.TreeBuilder.initialize_soup
        setattr_(B.TreeBuilder, "initialize_soup", lambda self, soup: on_call(point, lambda: real(self, soup)))
    elif point == "newParser":
        real = HP.BeautifulSoupHTMLParser.__init__
        setattr_(HP.BeautifulSoupHTMLParser, "__init__", lambda self, *a, **k: on_call(point, lambda: real(self, *a, **k)))
    elif point in ("tokFeed", "tokClose"):
        want = 0 if point == "tokFeed" else 1
        prev = vars(HP.BeautifulSoupHTMLParser).get("goahead", HTMLParser.goahead)   # chain with the other phase's patch

        def goahead(self, end):
            if bool(end) == bool(want):
                return on_call(point, lambda: prev(self, end), after=True)
            return prev(self, end)
        setattr_(HP.BeautifulSoupHTMLParser, "goahead", goahead)
    elif point == "intOf":
        setattr_(HP, "int", lambda *a: on_call(point, lambda: int(*a)))
    elif point == "dec1":
        class B_:
            def __init__(self, x):
                self.x = bytearray(x)

            def decode(self, *a):
                return on_call(point, lambda: self.x.decode(*a))
        setattr_(HP, "bytearray", B_)
    elif point == "chrOf":
        setattr_(HP, "chr", lambda n: on_call(point, lambda: chr(n)))
    elif point == "applyData":
        real = bs4.BeautifulSoup.handle_data
        setattr_(bs4.BeautifulSoup, "handle_data", lambda self, *a, **k: on_call(point, lambda: real(self, *a, **k)))
    elif point == "applyOther":
        real = bs4.BeautifulSoup.handle_starttag
        setattr_(bs4.BeautifulSoup, "handle_starttag", lambda self, *a, **k: on_call(point, lambda: real(self, *a, **k)))
    elif point == "endOfInput":
        # endData() as called by _feed after builder.feed has returned (bs4/__init__.py:667), not the calls made by handlers
        real_feed = HP.HTMLParserTreeBuilder.feed
        real_end = bs4.BeautifulSoup.endData
        state = {"after": False}

        def feed(self, markup):
            state["after"] = False
            real_feed(self, markup)
            state["after"] = True

        def endData(self, *a, **k):
            if state["after"]:
                state["after"] = False
                return on_call(point, lambda: real_end(self, *a, **k))
            return real_end(self, *a, **k)
        setattr_(HP.HTMLParserTreeBuilder, "feed", feed)
        setattr_(bs4.BeautifulSoup, "endData", endData)
    else:
        raise ValueError(point)
    try:
        yield
    finally:
        for obj, name, had, old in reversed(undo):
            if had:
                setattr(obj, name, old)
            else:
                delattr(obj, name)


def inject(point, cls):
    """every call of `point` raises `cls` (the tokenizer phases: after the real work, so the events are delivered first)"""
    def on_call(pt, thunk, after=False):
        if after:
            thunk()
        raise make_exc(cls)
    return patched(point, on_call)


def verdict(markup, kwargs=None):
    """'tree' | 'prm' | 'escapes <protocol class name>' for BeautifulSoup(markup, 'html.parser', **kwargs)"""
    from bs4 import BeautifulSoup
    from bs4.exceptions import ParserRejectedMarkup
    try:
        with warnings.catch_warnings():
            warnings.simplefilter("ignore")
            BeautifulSoup(markup, "html.parser", **(kwargs or {}))
        return "tree"
    except ParserRejectedMarkup:
        return "prm"
    except BaseException as e:  # noqa: the injected classes include BaseException-only ones
        return "escapes " + proto_name(type(e))


def hooked(point, doc=None):
    """Does the patch for `point` take in this working tree, i.e. is the patched name really what the code calls on the scenario
    document? (An import-style refactoring, e.g. `from warnings import warn`, would leave the hook dangling.)"""
    n = [0]

    def on_call(pt, thunk, after=False):
        n[0] += 1
        return thunk()
    try:
        with patched(point, on_call):
            verdict(scenario(point) if doc is None else doc)
    except Exception:  # noqa
        return False
    return n[0] > 0


def hooked_points():
    return [pt for pt in POINTS if hooked(pt)]


def injection_matrix(classes=None, points=None):
    """[(point, class, verdict)] on the scenario documents, for the points whose hook takes"""
    table = class_table()
    classes = classes or (list(table.values()) + [HarnessError, HarnessBaseError])
    rows = []
    for pt in (points if points is not None else hooked_points()):
        for cls in classes:
            with inject(pt, cls):
                v = verdict(scenario(pt))
            rows.append((pt, cls, v))
    return rows


RECORD_POINTS = ["lookup", "decode", "tokFeed", "tokClose", "intOf", "dec1", "chrOf", "warn", "cands", "logWarning", "declaredProp",
                 "resetAll", "newParser", "applyData", "applyOther", "endOfInput"]


@contextlib.contextmanager
def record(seen):
    """let every primitive through and note into seen[point] the exact classes it raises"""
    def on_call(pt, thunk, after=False):
        try:
            return thunk()
        except BaseException as e:  # noqa
            # attribute an exception to the innermost point it passes (callbacks run inside the tokenizer phases)
            if not getattr(e, "_c06_seen", False):
                try:
                    e._c06_seen = True
                except Exception:  # noqa
                    pass
                seen.setdefault(pt, set()).add(type(e))
            raise
    with contextlib.ExitStack() as st:
        for pt in RECORD_POINTS:
            try:
                st.enter_context(patched(pt, on_call))
            except Exception:  # noqa: a name the hook needs is gone in this tree: that primitive is not recorded on this run
                seen.setdefault("unpatchable", set()).add(type(pt))
        yield seen
