"""C07 — encoding detection precedence. Differential runs of UnicodeDammit / EncodingDetector / the BeautifulSoup
constructor against (a) a direct Python oracle of the property statement using the real codecs and (b) the Lean model
(BS.EncodingIn), whose codec oracle is tabulated per case and shipped on the protocol line."""
import codecs, hashlib, json, logging, os, warnings
from collections import Counter

from .common import Ctx, Driver, rng_for

MANIFEST = dict(
    text=("Lean theorems, for every input and every codec oracle (codecs.lookup / strict decode / replace decode / the chardet guess are parameters): "
          "the EncodingDetector.encodings generator with its mutable `tried` set yields exactly the documented candidate list "
          "(known definite, BOM, user, declared, chardet, utf-8, windows-1252; minus excluded; each once ignoring case; also for str markup); "
          "UnicodeDammit's result is the strict decoding of the BOM-stripped bytes under the first candidate that decodes, original_encoding its "
          "resolved codec name (find_codec spelled out); contains_replacement_characters iff no candidate decodes strictly and a non-ascii one "
          "decodes with replacement, and which candidate wins that pass; the result always comes from a candidate; for lawful codecs (laws are "
          "hypotheses, tested per case) a text always exists unless both last-ditch encodings are excluded and prepare_markup never rejects; "
          "BOM table for every payload; str pass-through; UTF-8 whenever every present indication says UTF-8; every (codec, mode) attempted at most "
          "once. Declaration regexes: the two patterns are DATA generated from the live sources through re._parser; Rx.search mirrors re's "
          "backtracking on that fragment; PROVED: regex search over the generated patterns (bytes) = the hand-written matcher used by the model, "
          "on every input; well-formed <meta charset>, <meta content>, <?xml encoding?> declarations inside the window are found (general shapes); "
          "nothing is found without the markers; the result does not depend on anything after the window (both flavours). "
          "Tie: grid texts x codecs x BOMs x declarations x declared-name classes x known/user/exclude/from_encoding/chardet arguments through "
          "UnicodeDammit, EncodingDetector (bytes and str), prepare_markup and the BeautifulSoup constructor, real codecs tabulated per case; window "
          "sweeps with an independent oracle; token soups (bytes, str); random patterns of the fragment versus Python's re; argument forms; history."),
    design="7/C07",
    note=("Model mirrors the repaired code (fixes/C07-*.diff; encoding arguments are lists). The chardet step is a parameter (absent in this environment; "
          "exercised through a stand-in module). Encoding names are ASCII. smart_quotes_to=None. tried_encodings and warning texts are not compared. "
          "Outside the statement, observed only: bytearray/memoryview markup raises TypeError in find_declared_encoding (markup is typed bytes); a plain "
          "str passed as exclude_encodings/known_definite_encodings is iterated character by character (the parameters are iterables of names). "
          "Rx.search = CPython's re on the supported fragment is tied by the rx stream, not proved."),
    technique="Lean 4 refinement proof (generator/two-pass loop = documented meaning, for all codec oracles) + differential correspondence with real codecs + direct oracle",
)

# ----------------------------------------------------------------------------------------------------------------------
# the grid of the quantifier
# ----------------------------------------------------------------------------------------------------------------------
TEXTS = {
    "ascii": "Hello, world",
    "latin": "café déjà vu naïve über",
    "greek": "Καλημέρα κόσμε",
    "hebrew": "שלום עולם",
    "cyrillic": "Привет мир",
    "japanese": "こんにちは世界",
    "chinese": "你好世界",
    "korean": "안녕 세계",
    "mixed": "aéαאж世한 z",
    "empty": "",
    "smart": "“quoted” ‘text’ – dash… €5",
    "central": "Příliš žluťoučký kůň",
    "astral": "math \U0001d400 emoji \U0001f600",
}
CODECS = ["utf-8", "utf-16-le", "utf-16-be", "utf-32-le", "utf-32-be", "latin-1", "windows-1252", "iso-8859-2", "iso-8859-5",
          "iso-8859-7", "iso-8859-8", "koi8-r", "cp1251", "shift_jis", "euc-jp", "big5", "gb2312", "euc-kr", "mac-roman", "ascii",
          "cp437", "iso-8859-15", "gb18030"]
ASCII_OPAQUE = {"utf-16-le", "utf-16-be", "utf-32-le", "utf-32-be"}
BOMS = {"none": b"", "utf-8": b"\xef\xbb\xbf", "utf-16le": b"\xff\xfe", "utf-16be": b"\xfe\xff", "utf-32le": b"\xff\xfe\x00\x00",
        "utf-32be": b"\x00\x00\xfe\xff"}
BOM_FOR = {"utf-8": "utf-8", "utf-16-le": "utf-16le", "utf-16-be": "utf-16be", "utf-32-le": "utf-32le", "utf-32-be": "utf-32be"}
UNKNOWN = ["x-unknown", "utf-9", "no-such-codec", "iso-8859-99", "utf8mb4", "-", "x--y"]
PYSPECIFIC = ["unicode_escape", "idna", "punycode", "raw_unicode_escape", "utf-7", "rot13", "hex", "undefined", "string-escape",
              "unicode-escape", "base64", "charmap"]
SPELLINGS = {
    "utf-8": ["utf-8", "UTF-8", "utf8", "Utf_8", "UTF8", "u8", "u-tf8", "UTF-8-"],
    "latin-1": ["latin-1", "Latin1", "iso-8859-1", "ISO-8859-1", "l1", "iso8859-1", "l-atin1", "Lat-in-1"],
    "windows-1252": ["windows-1252", "Windows-1252", "cp1252", "CP1252", "windows_1252", "cp-1252", "CP-12-52"],
    "shift_jis": ["shift_jis", "x-sjis", "Shift-JIS", "sjis", "shift-jis", "s-jis", "X-SJIS"],
    "mac-roman": ["mac-roman", "macintosh", "MacRoman", "mac_roman", "Macintosh"],
    "ascii": ["ascii", "ASCII", "us-ascii", "646"],
    "utf-16-le": ["utf-16le", "UTF-16LE", "utf-16-le", "utf_16_le"],
    "utf-16-be": ["utf-16be", "UTF-16BE", "utf-16-be"],
    "utf-32-le": ["utf-32le", "UTF-32LE", "utf-32-le"],
    "utf-32-be": ["utf-32be", "utf-32-be"],
    "euc-jp": ["euc-jp", "EUC-JP", "eucjp", "euc_jp"],
    "koi8-r": ["koi8-r", "KOI8-R", "koi8_r", "ko-i8-r"],
    "big5": ["big5", "Big5", "big-5"],
    "gb2312": ["gb2312", "GB2312", "gb-2312"],
}
GENERIC = ["utf-16", "utf-32", "UTF-16", "utf-8-sig", "cp437", "iso-8859-15", "gb18030", "utf-8", "windows-1252", "WINDOWS-1252", "Utf-8", "ascii"]


def spell(rng, codec):
    return rng.choice(SPELLINGS.get(codec, [codec, codec.upper(), codec.replace("-", "_")]))


def pick_name(rng, right):
    """A name for an encoding argument / declaration and its class."""
    r = rng.random()
    if r < 0.34:
        return spell(rng, right), "right"
    if r < 0.62:
        return spell(rng, rng.choice(CODECS)), "wrong"
    if r < 0.74:
        return rng.choice(GENERIC), "generic"
    if r < 0.86:
        return rng.choice(UNKNOWN), "unknown"
    if r < 0.97:
        return rng.choice(PYSPECIFIC), "pyspecific"
    return "", "emptyname"


def make_declaration(rng, kind, name):
    if kind == "meta-charset":
        return rng.choice(['<meta charset="%s">', "<meta charset='%s'>", '<meta charset="%s"/>', "<META CHARSET=\"%s\">", "<meta charset=%s>",
                           '<meta  charset = "%s" >']) % name
    if kind == "meta-content":
        return rng.choice(['<meta http-equiv="Content-Type" content="text/html; charset=%s">',
                           "<meta http-equiv='content-type' content='text/html;charset=%s'>",
                           '<meta content="text/html; charset=%s" http-equiv="Content-Type" />',
                           '<META HTTP-EQUIV="Content-Type" CONTENT="text/html; CHARSET=%s">']) % name
    if kind == "xml":
        return rng.choice(['<?xml version="1.0" encoding="%s"?>', "<?xml version='1.0' encoding='%s'?>",
                           '<?xml version="1.0" encoding="%s" standalone="yes"?>', '<?XML VERSION="1.0" ENCODING="%s"?>']) % name
    return ""


def truth_of_declaration(kind, name, is_html):
    """What a reader of the document would say it declares (the generator knows what it wrote)."""
    if kind == "none" or not name:
        return None
    if kind == "xml":
        return name.lower()
    return name.lower() if is_html else None


MUT_TOKENS = [b"<", b">", b"?", b"<?", b"?>", b"<?xml ", b"xml", b"meta", b"META", b" ", b"\t", b"\n", b"\r", b"charset", b"CharSet", b"=", b"'", b'"',
              b"/", b";", b"encoding=", b"ENCODING=", b"encoding", b"utf-8", b"x", b"content=", b"text/html", b"http-equiv", b"\xe9", b"a",
              b"<meta ", b"<meta charset=", b"<?xml version='1.0' encoding='", b"\x0b", b"\x0c", b"\x1c", b"\x85", b"\xa0", b"Latin-1", b"<!--", b"-->",
              b"<html>", b"<head>", b"<p>", b"koi8-r", b"\xff", b"\x00"]


def mutate(rng, b: bytes) -> bytes:
    b = bytearray(b)
    for _ in range(rng.randint(1, 3)):
        op = rng.randint(0, 4)
        pos = rng.randint(0, len(b)) if b else 0
        if op == 0 and b:
            del b[pos - 1 if pos else 0]
        elif op == 1:
            b[pos:pos] = rng.choice(MUT_TOKENS)
        elif op == 2 and b:
            i = min(pos, len(b) - 1)
            b[i] = rng.choice(b" \t\n'\"=>/;<?x\xe9A")
        elif op == 3 and b:
            i = min(pos, len(b) - 1)
            b[i:i + 1] = bytes([b[i]]).swapcase()
        else:
            b[pos:pos] = bytes(rng.choice(b" \n\t\r"))
    return bytes(b)


def gen_case(rng, stream):
    """One case of the grid. Returns a JSON-able dict."""
    c = {"stream": stream}
    if stream == "str":
        text = rng.choice(list(TEXTS.values()))
        kind = rng.choice(["none", "meta-charset", "meta-content", "xml"])
        name, _ = pick_name(rng, "utf-8")
        c.update(markup_str=make_declaration(rng, kind, name) + "<p>" + text + "</p>" if rng.random() < 0.8 else text,
                 is_html=rng.random() < 0.7, known=[pick_name(rng, "utf-8")[0]] if rng.random() < 0.5 else [],
                 user=[pick_name(rng, "utf-8")[0]] if rng.random() < 0.3 else [], exclude=[rng.choice(["utf-8", "UTF-8", "windows-1252", "koi8-r"])] if rng.random() < 0.3 else [], override=[])
        return c
    tkey = rng.choice(list(TEXTS))
    codec = rng.choice(CODECS) if rng.random() < 0.8 else rng.choice(["utf-8", "windows-1252", "latin-1", "utf-16-le", "shift_jis"])
    r = rng.random()
    if r < 0.5:
        bom = "none"
    elif r < 0.8 and codec in BOM_FOR:
        bom = BOM_FOR[codec]
    else:
        bom = rng.choice(list(BOMS))
    kind = rng.choice(["none", "none", "meta-charset", "meta-content", "xml"])
    dname, dclass = pick_name(rng, codec) if kind != "none" else ("", "nodecl")
    is_html = rng.random() < 0.75
    decl = make_declaration(rng, kind, dname)
    if kind == "xml":
        doc = decl + rng.choice(["", "\n"]) + "<html><body><p>" + TEXTS[tkey] + "</p></body></html>"
    elif kind == "none":
        doc = rng.choice(["<p>%s</p>", "%s", "<html><body>%s</body></html>"]) % TEXTS[tkey]
    else:
        doc = rng.choice(["<html><head>%s</head><body><p>%s</p></body></html>", "%s<p>%s</p>", "<!DOCTYPE html>\n<head><title>t</title>%s</head>%s"]) % (decl, TEXTS[tkey])
    body = doc.encode(codec, "ignore")
    truth = None
    have_truth = True
    if kind != "none":
        if codec in ASCII_OPAQUE:
            have_truth = False  # declaration invisible at byte level; only model and code are compared
        else:
            truth = truth_of_declaration(kind, dname, is_html)
    if stream == "malformed":
        have_truth = False
        m = rng.random()
        if m < 0.35:
            body = mutate(rng, body)
        elif m < 0.55:
            k = rng.randint(0, len(body))
            body = body[:k] + bytes(rng.randrange(256) for _ in range(rng.randint(1, 4))) + body[k:]
        elif m < 0.7:
            body = body[:rng.randint(0, len(body))]
        elif m < 0.8:
            body = bytes(rng.randrange(256) for _ in range(rng.randint(0, 12)))
        elif m < 0.9:
            body = b"".join(rng.choice(MUT_TOKENS) for _ in range(rng.randint(0, 14)))
        else:
            pad = rng.choice([900, 1000, 1015, 1024, 2030, 2047, 2048, 2100])
            filler = rng.choice([b" ", b"\n", b"<p>x</p>", b"x"])
            body = filler * (pad // len(filler) // rng.choice([1, 1, 2])) + body
    markup = BOMS[bom] + body
    nk = rng.choice([0, 0, 0, 1, 1, 2])
    nu = rng.choice([0, 0, 0, 1, 1, 2])
    nx = rng.choice([0, 0, 0, 1, 1, 2, 3])
    known = [pick_name(rng, codec)[0] for _ in range(nk)]
    user = [pick_name(rng, codec)[0] for _ in range(nu)]
    pool = known + user + ["utf-8", "windows-1252", "UTF-8", "Windows-1252", dname or "utf-8", BOM_FOR.get(codec, "utf-8"), "utf-16le", "ascii"]
    exclude = [rng.choice(pool) if rng.random() < 0.8 else pick_name(rng, codec)[0] for _ in range(nx)]
    exclude = [rng.choice([e, e.upper(), e.lower()]) for e in exclude]
    if rng.random() < 0.15 and known:
        user.append(rng.choice([known[0], known[0].upper(), known[0].swapcase()]))
    override = [pick_name(rng, codec)[0]] if rng.random() < 0.05 else []
    soup = is_html and not user and not override and len(known) <= 1 and len(markup) < 5000
    if rng.random() < 0.12:
        c["chardet"] = pick_name(rng, codec)[0] if rng.random() < 0.85 else rng.choice(["", "UTF-8", "Windows-1252", "ascii"])
    c["builder"] = is_html and not override and len(known) <= 1 and len(user) <= 1 and len(markup) < 5000
    c["ctor_style"] = rng.choice([0, 0, 0, 1, 3])
    c.update(markup_hex=markup.hex(), is_html=is_html, known=known, user=user, exclude=exclude, override=override, soup=soup,
             text=tkey, codec=codec, bom=bom, decl=kind, declname=dname, declclass=dclass)
    if have_truth:
        c["truth_declared"] = truth
    return c


# ----------------------------------------------------------------------------------------------------------------------
# the direct oracle: the property statement with the real codecs
# ----------------------------------------------------------------------------------------------------------------------
def oracle_bom(data: bytes):
    """BOM table of the documentation. A UTF-16 BOM is one followed by a code unit other than 00 00 (FF FE 00 00 is the
    UTF-32LE mark), whatever the length of the input: b"\xff\xfe" alone is an empty UTF-16 document (the unrepaired code
    also demanded len(data) >= 4 — fixes/C07-utf16-bom-short-input.diff)."""
    if data[:2] == b"\xfe\xff" and data[2:4] != b"\x00\x00":
        return data[2:], "utf-16be"
    if data[:2] == b"\xff\xfe" and data[2:4] != b"\x00\x00":
        return data[2:], "utf-16le"
    if data[:3] == b"\xef\xbb\xbf":
        return data[3:], "utf-8"
    if data[:4] == b"\x00\x00\xfe\xff":
        return data[4:], "utf-32be"
    if data[:4] == b"\xff\xfe\x00\x00":
        return data[4:], "utf-32le"
    return data, None


def _exists(name):
    try:
        codecs.lookup(name)
        return True
    except (LookupError, ValueError):
        return False


def oracle_resolve(name):
    """Documented name resolution of find_codec: alias table, dashes removed, dashes as underscores, else as is."""
    from bs4.dammit import UnicodeDammit
    if not name:
        return None
    for v in (UnicodeDammit.CHARSET_ALIASES.get(name, name), name.replace("-", ""), name.replace("-", "_")):
        if v and _exists(v):
            return v.lower()
    return name.lower()


def _decode(data, name, errors):
    """"The bytes decode without error under this name": the name must be a TEXT ENCODING this Python knows, and its decoder must accept
    the bytes. For the empty byte string CPython's `str(b"", name)` returns "" without ever looking the name up (so it "succeeds" for
    'nosuch', 'hex', 'undefined', ...); the statement is evaluated with the codec's own decoder instead, which is what `str()` consults
    for every non-empty input."""
    try:
        info = codecs.lookup(name)
    except Exception:
        return None
    if not getattr(info, "_is_text_encoding", True):
        return None
    try:
        if data:
            return str(data, name, errors)
        out = info.decode(data, errors)[0]
        return out if isinstance(out, str) else None
    except Exception:
        return None


def oracle_candidates(known, bomname, user, declared, exclude, chardet=None):
    ex = {e.lower() for e in exclude}
    seen, out = set(), []
    for e in list(known) + ([bomname] if bomname else []) + list(user) + ([declared] if declared else []) + ([chardet] if chardet is not None else []) + ["utf-8", "windows-1252"]:
        k = e.lower()
        if k in ex or k in seen:
            continue
        seen.add(k)
        out.append(e)
    return out


def oracle(markup, known, user, exclude, is_html, declared_of, chardet=None):
    """Expected (text, original_encoding, declared_html_encoding, contains_replacement, candidates, winner index / pass)."""
    if isinstance(markup, str):
        return dict(text=markup, enc=None, decl=None, repl=False, cands=None, how="str")
    data, bomname = oracle_bom(markup)
    declared = declared_of(data)
    decl_html = declared if is_html else None
    if markup == b"":
        return dict(text="", enc=None, decl=decl_html, repl=False, cands=oracle_candidates(known, bomname, user, declared, exclude, chardet), how="empty")
    cands = oracle_candidates(known, bomname, user, declared, exclude, chardet)
    for i, c in enumerate(cands):
        r = oracle_resolve(c)
        if r is None:
            continue
        t = _decode(data, r, "strict")
        if t is not None:
            return dict(text=t, enc=r, decl=decl_html, repl=False, cands=cands, how="strict", winner=c, index=i)
    for i, c in enumerate(cands):
        if c == "ascii":
            continue
        r = oracle_resolve(c)
        if r is None:
            continue
        t = _decode(data, r, "replace")
        if t is not None:
            return dict(text=t, enc=r, decl=decl_html, repl=True, cands=cands, how="replace", winner=c, index=i)
    return dict(text=None, enc=None, decl=decl_html, repl=False, cands=cands, how="nothing")


# ----------------------------------------------------------------------------------------------------------------------
# protocol encoding
# ----------------------------------------------------------------------------------------------------------------------
def p_name(n: str) -> str:
    return ".".join(str(ord(ch)) for ch in n) if n else "e"


def p_names(ns) -> str:
    return ";".join(p_name(n) for n in ns) if ns else "-"


def p_opt(n) -> str:
    return "none" if n is None else p_name(n)


def p_bytes(b: bytes) -> str:
    return ",".join(map(str, b)) if b else "-"


def p_text(t) -> str:
    if t is None:
        return "none"
    return ",".join(str(ord(ch)) for ch in t) if t else "-"


LAW = Counter()   # per-process tally of the codec laws (`Lawful` of the Lean model) tested on real data


def test_laws(data: bytes, names):
    """The hypotheses of the totality theorems, tested on the real codecs with this case's data."""
    for n in names:
        if n:
            LAW["law:lookup-ignores-case:" + ("ok" if _exists(n) == _exists(n.lower()) else "BROKEN")] += 1
    for n in ("utf-8", "windows-1252"):
        LAW[f"law:{n}-exists:" + ("ok" if _exists(n) else "BROKEN")] += 1
        LAW[f"law:{n}-replace-total:" + ("ok" if _decode(data, n, "replace") is not None else "BROKEN")] += 1


def codec_table(data: bytes, names):
    """exists / strict / replace for every name the model can ask about, for this case's BOM-stripped data."""
    from bs4.dammit import UnicodeDammit
    need = set()
    for c in names:
        if c is None:
            continue
        vs = {UnicodeDammit.CHARSET_ALIASES.get(c, c), c.replace("-", ""), c.replace("-", "_"), c}
        for v in vs:
            need.add(v)
            need.add(v.lower())
    texts, tid, entries = [], {}, []

    def idx(t):
        if t is None:
            return "x"
        if t not in tid:
            tid[t] = len(texts)
            texts.append(t)
        return str(tid[t])
    for n in sorted(need):
        if n == "":
            continue
        entries.append(f"{p_name(n)}|{1 if _exists(n) else 0}|{idx(_decode(data, n, 'strict'))}|{idx(_decode(data, n, 'replace'))}")
    test_laws(data, sorted(need))
    tab = ";".join(entries) if entries else "-"
    txt = ";".join(p_name(t) for t in texts) if texts else "-"
    return tab, txt


BOM_NAMES = ["utf-16be", "utf-16le", "utf-8", "utf-32be", "utf-32le"]


# ----------------------------------------------------------------------------------------------------------------------
# running one case on the real code
# ----------------------------------------------------------------------------------------------------------------------
_FED = []
_PATCHED = False


def _patch_feed():
    """Record what the constructor hands to the parser (in-process wrapper; nothing on disk changes)."""
    global _PATCHED
    if _PATCHED:
        return
    from bs4.builder._htmlparser import HTMLParserTreeBuilder
    orig = HTMLParserTreeBuilder.feed

    def feed(self, markup):
        _FED.append(markup)
        return orig(self, markup)
    HTMLParserTreeBuilder.feed = feed
    _PATCHED = True
    logging.getLogger("bs4.dammit").setLevel(logging.CRITICAL)


def case_markup(c):
    return c["markup_str"] if "markup_str" in c else bytes.fromhex(c["markup_hex"])


class _FakeChardet:
    """Stand-in for chardet / cchardet / charset_normalizer: `detect(bytes)["encoding"]` is the case's `chardet` name.
    Installed as bs4.dammit.chardet_module for the duration of a call, so the real `_chardet_dammit` runs."""
    def __init__(self, name):
        self.name = name

    def detect(self, s):
        assert isinstance(s, (bytes, bytearray)), "chardet consulted for a str"
        return {"encoding": self.name, "confidence": 0.5}


class chardet_as:
    def __init__(self, c):
        self.name = c.get("chardet")

    def __enter__(self):
        import bs4.dammit as bd
        self.saved = bd.chardet_module
        bd.chardet_module = _FakeChardet(self.name) if self.name is not None else None

    def __exit__(self, *a):
        import bs4.dammit as bd
        bd.chardet_module = self.saved


def real_dammit(c):
    from bs4.dammit import UnicodeDammit
    m = case_markup(c)
    kw = {}
    if c.get("override"):
        kw["override_encodings"] = list(c["override"])
    with warnings.catch_warnings(), chardet_as(c):
        warnings.simplefilter("ignore")
        d = UnicodeDammit(m, known_definite_encodings=list(c["known"]), is_html=c["is_html"], exclude_encodings=list(c["exclude"]),
                          user_encodings=list(c["user"]), **kw)
        # read declared_html_encoding LAST and contains_replacement first (attribute order must not matter)
        return dict(text=d.unicode_markup, enc=d.original_encoding, repl=d.contains_replacement_characters, decl=d.declared_html_encoding)


def real_detector(c):
    from bs4.dammit import EncodingDetector
    m = case_markup(c)
    kw = {}
    if c.get("override"):
        kw["override_encodings"] = list(c["override"])
    with warnings.catch_warnings(), chardet_as(c):
        warnings.simplefilter("ignore")
        det = EncodingDetector(m, known_definite_encodings=list(c["known"]), is_html=c["is_html"], exclude_encodings=list(c["exclude"]),
                               user_encodings=list(c["user"]), **kw)
        return list(det.encodings), det.markup, det.sniffed_encoding


class _Reader:
    """the least a file-like object can be: something with read()"""
    def __init__(self, content):
        self._c = content

    def read(self):
        return self._c


def as_markup_argument(m, form):
    """The documented input forms of the constructor: the text/bytes themselves, or an open filehandle / file-like object.
    Returns (argument, cleanup)."""
    import io
    import tempfile
    if form == "direct":
        return m, None
    if form == "reader":
        return _Reader(m), None
    if isinstance(m, bytes):
        if form == "bytesio":
            return io.BytesIO(m), None
        f = tempfile.TemporaryFile("w+b")      # an open binary file
        f.write(m)
        f.seek(0)
        return f, f.close
    if form == "stringio":
        return io.StringIO(m, newline=""), None
    f = tempfile.TemporaryFile("w+", encoding="utf-8", errors="surrogatepass", newline="")   # an open text file
    f.write(m)
    f.seek(0)
    return f, f.close


FILE_FORMS_BYTES = ["bytesio", "file", "reader"]
FILE_FORMS_STR = ["stringio", "file", "reader"]


def extra_form(c, m):
    """Which file-like form (if any) this case is ALSO run through: always when a from_encoding is given, else one case in three."""
    h = int(hashlib.sha256((repr(m[:200]) + repr(c.get("known")) + repr(c.get("exclude"))).encode("utf-8", "replace")).hexdigest()[:8], 16)
    forms = FILE_FORMS_BYTES if isinstance(m, bytes) else FILE_FORMS_STR
    if c.get("known") or h % 3 == 0:
        return forms[(h // 3) % 3]
    return None


def real_soup(c, form="direct"):
    from bs4 import BeautifulSoup
    from bs4.exceptions import ParserRejectedMarkup
    _patch_feed()
    m = case_markup(c)
    m_arg, cleanup = as_markup_argument(m, form)
    fe = c["known"][0] if c["known"] else None
    del _FED[:]
    kw = {"from_encoding": fe}
    style = c.get("ctor_style", 0)
    if style == 1:      # the deprecated keyword alone
        kw = {"fromEncoding": fe}
    elif style == 3:    # empty from_encoding falls back to the deprecated keyword
        kw = {"from_encoding": "", "fromEncoding": fe}
    with warnings.catch_warnings(), chardet_as(c):
        warnings.simplefilter("ignore")
        try:
            s = BeautifulSoup(m_arg, "html.parser", exclude_encodings=list(c["exclude"]) or None, **kw)
        except ParserRejectedMarkup:
            return "rejected"
        finally:
            if cleanup:
                cleanup()
    return dict(text=_FED[-1] if _FED else None, enc=s.original_encoding, decl=s.declared_html_encoding, repl=s.contains_replacement_characters)


def real_prepare(c):
    """HTMLParserTreeBuilder.prepare_markup called directly, with the case's single user encoding as document_declared_encoding."""
    from bs4.builder._htmlparser import HTMLParserTreeBuilder
    from bs4.exceptions import ParserRejectedMarkup
    m = case_markup(c)
    fe = c["known"][0] if c["known"] else None
    dd = c["user"][0] if c["user"] else None
    with warnings.catch_warnings(), chardet_as(c):
        warnings.simplefilter("ignore")
        try:
            out = list(HTMLParserTreeBuilder().prepare_markup(m, fe, dd, exclude_encodings=list(c["exclude"]) or None))
        except ParserRejectedMarkup:
            return "rejected"
    if len(out) != 1:
        return {"text": None, "enc": f"{len(out)} strategies", "decl": None, "repl": False}
    t, e, d, r = out[0]
    return dict(text=t, enc=e, decl=d, repl=r)


def fmt_res(r):
    if r == "rejected":
        return "rejected"
    return f"text={p_text(r['text'])} enc={p_opt(r['enc'])} decl={p_opt(r['decl'])} repl={1 if r['repl'] else 0}"


def short(r):
    if isinstance(r, dict):
        return {k: (v if not isinstance(v, str) or len(v) < 200 else v[:200] + "...") for k, v in r.items() if k in ("text", "enc", "decl", "repl", "how", "winner", "cands")}
    return r


def kf_of(c, what):
    """Known-finding classifier, from the case alone. C07 has no open known finding: the short-input UTF-16 BOM
    defect (C07-utf16-bom-short-input) is repaired, a fixed entry suppresses nothing, so every failure is a VIOLATION."""
    return None


def eval_case(c):
    """Run real code + oracle; returns (violations, model_lines, model_expect, meta)."""
    from bs4.dammit import EncodingDetector
    viol, lines, expect, tags = [], [], [], []
    m = case_markup(c)
    is_html = c["is_html"]
    known_all = list(c["known"]) + list(c.get("override") or [])

    def declared_of(data):
        if "truth_declared" in c:
            return c["truth_declared"]
        return EncodingDetector.find_declared_encoding(data, is_html)

    ch = c.get("chardet") if isinstance(m, bytes) else None
    o = oracle(m, known_all, c["user"], c["exclude"], is_html, declared_of, ch)
    rd = real_dammit(c)
    for field in ("text", "enc", "repl", "decl"):
        if rd[field] != o[field]:
            viol.append(dict(what=f"UnicodeDammit.{ {'text': 'unicode_markup', 'enc': 'original_encoding', 'repl': 'contains_replacement_characters', 'decl': 'declared_html_encoding'}[field]} differs from the property statement",
                             expected=short(o), observed=short(rd), stream=c["stream"] + "/dammit"))
            break
    if isinstance(m, bytes):
        encs, stripped, sniffed = real_detector(c)
        ob = oracle_bom(m)
        if (stripped, sniffed) != ob:
            viol.append(dict(what="strip_byte_order_mark differs from the BOM table", expected=[ob[0].hex(), ob[1]], observed=[stripped.hex(), sniffed],
                             stream=c["stream"] + "/bom"))
        if encs != o["cands"]:
            viol.append(dict(what="EncodingDetector.encodings differs from the documented candidate list", expected=o["cands"], observed=encs,
                             stream=c["stream"] + "/detector"))
        if "truth_declared" in c:
            fd = EncodingDetector.find_declared_encoding(stripped, is_html)
            if fd != c["truth_declared"]:
                viol.append(dict(what="find_declared_encoding does not report the document's declaration", expected=c["truth_declared"], observed=fd,
                                 stream=c["stream"] + "/declared"))
        # the model: same request through code-mirror and spec
        real_decl = EncodingDetector.find_declared_encoding(stripped, is_html)
        light = bool(c.get("light"))   # long documents: only the byte-level ops go to the model (no codec table / decoded texts)
        names = known_all + list(c["user"]) + BOM_NAMES + ["utf-8", "windows-1252", real_decl, c.get("truth_declared"), ch]
        tab, txt = ("-", "-") if light else codec_table(stripped, names)
        args = f"{1 if is_html else 0} {p_names(c['known'])} {p_names(c.get('override') or [])} {p_names(c['user'])} {p_names(c['exclude'])} {p_opt(ch)}"
        mb = "b:" + (",".join(map(str, m)))
        lines.append(f"c07 dammit {mb} {args} {p_bytes(stripped)} {tab} {txt}")
        expect.append(fmt_res(rd) if not light else None)
        tags.append("dammit")
        lines.append(f"c07 dammitspec {mb} {args} {p_bytes(stripped)} {tab} {txt}")
        expect.append(f"text={p_text(rd['text'])} enc={p_opt(rd['enc'])} repl={1 if rd['repl'] else 0}" if m != b"" and not light else None)
        tags.append("dammitspec")
        lines.append(f"c07 encodings {p_bytes(m)} {args}")
        expect.append(p_names(encs))
        tags.append("encodings")
        lines.append(f"c07 candidates {p_bytes(m)} {args}")
        expect.append(p_names(encs) if not light else None)
        tags.append("candidates")
        lines.append(f"c07 declared {p_bytes(stripped)} {1 if is_html else 0}")
        expect.append(p_opt(real_decl))
        tags.append("declared")
        lines.append(f"c07 declaredrx 0 {p_bytes(stripped)} {1 if is_html else 0} 0")
        expect.append(p_opt(real_decl))
        tags.append("declaredrx")
        lines.append(f"c07 bom {p_bytes(m)}")
        expect.append(f"{p_bytes(stripped)} {p_opt(sniffed)}" if not light else None)
        tags.append("bom")
        if c.get("soup"):
            rs = real_soup(c)
            fe = c["known"][0] if c["known"] else None
            style = c.get("ctor_style", 0)
            fe_new, fe_old = {0: (fe, None), 1: (None, fe), 3: ("", fe)}[style]
            fe = fe_new or fe_old     # what the documentation of the deprecated alias says: from_encoding, else fromEncoding
            os_ = oracle(m, [fe] if fe else [], [], c["exclude"], True, declared_of, ch)
            want = "rejected" if os_["text"] is None else {k: os_[k] for k in ("text", "enc", "decl", "repl")}
            if rs != want:
                viol.append(dict(what="BeautifulSoup constructor: decoded text / original_encoding / declared_html_encoding / contains_replacement_characters differ from the property statement",
                                 expected=short(want), observed=short(rs), stream=c["stream"] + "/soup"))
            lines.append(f"c07 construct d {mb} {p_opt(fe_new)} {p_opt(fe_old)} {p_names(c['exclude'])} {p_opt(ch)} {p_bytes(stripped)} {tab} {txt}")
            expect.append((("ok " + fmt_res(rs)) if rs != "rejected" else "rejected") if not light else None)
            tags.append("construct")
            xf = extra_form(c, m)
            if xf:
                # the same document handed over as an open filehandle / file-like object: same outcome demanded
                rf = real_soup(c, xf)
                if rf != want:
                    viol.append(dict(what=f"BeautifulSoup constructor with the bytes supplied as a file-like object ({xf}): decoded text / original_encoding / "
                                          "declared_html_encoding / contains_replacement_characters differ from the property statement (from_encoding, "
                                          "exclude_encodings and the document are the same as for the bytes themselves)",
                                     expected=short(want), observed=short(rf), stream=c["stream"] + "/soup-filelike", extra_case={"markup_form": xf}))
                lines.append(f"c07 construct f {mb} {p_opt(fe_new)} {p_opt(fe_old)} {p_names(c['exclude'])} {p_opt(ch)} {p_bytes(stripped)} {tab} {txt}")
                expect.append((("ok " + fmt_res(rf)) if rf != "rejected" else "rejected") if not light else None)
                tags.append("construct-filelike:" + xf)
        if c.get("builder"):
            # prepare_markup itself, with a document_declared_encoding (the builder API; the constructor never passes one)
            rp = real_prepare(c)
            fe = c["known"][0] if c["known"] else None
            dd = c["user"][0] if c["user"] else None
            op_ = oracle(m, [fe] if fe else [], [dd] if dd else [], c["exclude"], True, declared_of, ch)
            want = "rejected" if op_["text"] is None else {k: op_[k] for k in ("text", "enc", "decl", "repl")}
            if rp != want:
                viol.append(dict(what="HTMLParserTreeBuilder.prepare_markup(markup, user_specified_encoding, document_declared_encoding, exclude_encodings) differs "
                                      "from the property statement (user_specified = known definite, document_declared = user encoding)",
                                 expected=short(want), observed=short(rp), stream=c["stream"] + "/builder"))
            lines.append(f"c07 prepare {mb} {p_opt(fe)} {p_opt(dd)} {p_names(c['exclude'])} {p_opt(ch)} {p_bytes(stripped)} {tab} {txt}")
            expect.append((("ok " + fmt_res(rp)) if rp != "rejected" else "rejected") if not light else None)
            tags.append("prepare-builder")
    else:
        # str input: pass-through
        ms = "s:" + ",".join(str(ord(ch)) for ch in m)
        args = f"{1 if is_html else 0} {p_names(c['known'])} - - - none"
        lines.append(f"c07 dammit {ms} {args} - - -")
        expect.append(fmt_res(rd))
        tags.append("dammit-str")
        rs = real_soup(c)
        want = dict(text=m, enc=None, decl=None, repl=False)
        if rs != want:
            viol.append(dict(what="BeautifulSoup constructor: str markup is not passed through untouched", expected=short(want), observed=short(rs),
                             stream=c["stream"] + "/soup"))
        lines.append(f"c07 prepare {ms} {p_opt(c['known'][0] if c['known'] else None)} none - none - - -")
        expect.append("ok " + fmt_res(rs))
        tags.append("prepare-str")
        xf = extra_form(c, m)
        if xf and not any(0xD800 <= ord(x) <= 0xDFFF or x == "\r" for x in m):
            rf = real_soup(c, xf)
            if rf != want:
                viol.append(dict(what=f"BeautifulSoup constructor with the text supplied as a file-like object ({xf}): str markup is not passed through untouched",
                                 expected=short(want), observed=short(rf), stream=c["stream"] + "/soup-filelike", extra_case={"markup_form": xf}))
            lines.append(f"c07 construct f {ms} {p_opt(c['known'][0] if c['known'] else None)} none - none - - -")
            expect.append("ok " + fmt_res(rf))
            tags.append("construct-filelike-str:" + xf)
        # EncodingDetector on a str: no BOM, str flavour of the declaration patterns, chardet not consulted
        from bs4.dammit import EncodingDetector as ED
        with chardet_as({"chardet": "x-must-not-be-consulted"}):
            try:
                encs = list(ED(m, known_definite_encodings=list(c["known"]), is_html=is_html, exclude_encodings=list(c["exclude"]), user_encodings=list(c["user"])).encodings)
            except AssertionError:
                encs = ["<chardet consulted for a str>"]
        want_e = oracle_candidates(c["known"], None, c["user"], ED.find_declared_encoding(m, is_html), c["exclude"])
        if encs != want_e:
            viol.append(dict(what="EncodingDetector(str).encodings differs from the documented candidate list", expected=want_e, observed=encs, stream=c["stream"] + "/detector-str"))
        if all(ch_.lower() == "".join(chr(lo) for lo in [ord(x) + 32 if "A" <= x <= "Z" else ord(x) for x in ch_]) for ch_ in m):
            lines.append(f"c07 encodingsstr {p_text(m) if m else '-'} {1 if is_html else 0} {p_names(c['known'])} - {p_names(c['user'])} {p_names(c['exclude'])}")
            expect.append(p_names(encs))
            tags.append("encodings-str")
    return viol, lines, expect, tags, o


def classify(c, o):
    """distribution keys + non-triviality"""
    keys = [f"stream:{c['stream']}", "how:" + o["how"]]
    if "markup_hex" in c:
        keys += [f"bom:{c.get('bom')}", f"decl:{c.get('decl')}", f"declname:{c.get('declclass')}", f"codec:{c.get('codec')}",
                 f"args:k{len(c['known'])}u{len(c['user'])}x{len(c['exclude'])}", "html:%d" % c["is_html"]]
        if o.get("winner") is not None:
            sniffed = oracle_bom(bytes.fromhex(c["markup_hex"]))[1]
            srcs = ([("known", e) for e in c["known"] + (c.get("override") or [])] + ([("bom", sniffed)] if sniffed else []) + [("user", e) for e in c["user"]]
                    + ([("chardet", c["chardet"])] if c.get("chardet") is not None and o.get("winner") == c.get("chardet") and not (o.get("cands") and c.get("truth_declared") == o.get("winner")) else [])
                    + [("fallback-utf8", "utf-8"), ("fallback-1252", "windows-1252")])
            src = next((s for s, e in srcs if e == o["winner"]), "declared")
            keys.append("winner:" + src)
            keys.append("winner-index:%d" % min(o["index"], 4))
    nontrivial = o["how"] in ("replace", "nothing") or (o.get("index", 0) >= 1) or (o["how"] == "strict" and o.get("winner") not in ("utf-8",))
    return keys, nontrivial



def eval_case_safe(c):
    """eval_case, with an exception escaping from the code under test turned into a violation of this very case"""
    try:
        return eval_case(c)
    except Exception as e:   # noqa: BLE001 - whatever the mutated code raises
        import traceback
        tb = traceback.format_exc().splitlines()[-6:]
        v = [dict(what=f"evaluating the case raised {type(e).__name__}: {str(e)[:200]} (an exception the property does not allow escaped from the code under test)",
                  expected="a decoding under the first candidate that decodes cleanly, or the next candidate", observed=" | ".join(tb)[:800], stream="exception")]
        return v, [], [], [], {"how": "exception"}


def work(job):
    """One chunk: generate, run, ask the model. Runs in a worker process."""
    seed, stream, chunk, n = job
    rng = rng_for(seed, "C07", stream, chunk)
    _patch_feed()
    dist, viols, nontriv, samples = Counter(), [], [], []
    all_lines, all_expect, all_meta = [], [], []
    ncases = 0
    for i in range(n):
        c = gen_case(rng, stream)
        v, lines, expect, tags, o = eval_case_safe(c)
        ncases += 1
        keys, nt = classify(c, o)
        for k in keys:
            dist[k] += 1
        if nt:
            nontriv.append(hashlib.sha256(json.dumps(c, sort_keys=True).encode()).hexdigest()[:12])
            if chunk == 0 and len(samples) < 3:
                samples.append({k: c[k] for k in c if k not in ("markup_hex",)} | {"markup": repr(case_markup(c))[:120], "result": short(o)})
        for x in v:
            x["case"] = c | x.pop("extra_case", {})
            x["kf"] = kf_of(c, x["what"])
            viols.append(x)
        for l, e, t in zip(lines, expect, tags):
            if e is None:
                continue
            all_lines.append(l)
            all_expect.append(e)
            all_meta.append((c, t, bool(v)))
    replies = Driver().ask(all_lines)
    dis = []
    for l, e, r, (c, t, hadv) in zip(all_lines, all_expect, replies, all_meta):
        dist["model:" + t] += 1
        if e != r:
            dis.append(dict(case=c, op=t, real=e[:600], model=r[:600], line=l if len(l) < 4000 else l[:4000] + "...", had_violation=hadv))
    dist.update(LAW)
    LAW.clear()
    return dict(dist=dist, viols=viols, nontriv=nontriv, samples=samples, dis=dis, n=ncases)


# ----------------------------------------------------------------------------------------------------------------------
# fixed / exhaustive streams
# ----------------------------------------------------------------------------------------------------------------------
def edge_cases():
    """Short and boundary inputs that the grid hits only by chance."""
    out = []
    base = dict(is_html=True, known=[], user=[], exclude=[], override=[], stream="edge")
    shorts = [b"", b"a", b"\xef\xbb\xbf", b"\xef\xbb\xbfa", b"\xff\xfe", b"\xfe\xff", b"\xff\xfea", b"\xfe\xff\x00", b"\xff\xfea\x00", b"\xfe\xff\x00a",
              b"\xff\xfe\x00\x00", b"\x00\x00\xfe\xff", b"\xff\xfe\x00\x00a\x00\x00\x00", b"\x00\x00\xfe\xff\x00\x00\x00a", b"\xef\xbb", b"\xff", b"\xfe\xff\x00\x00",
              b"\xfe\xff\x00\x00\x00a", b"\xef\xbb\xbf\xff", b"\xef\xbb\xbf<meta charset='koi8-r'>\xc1", b"\xff\xfe<\x00p\x00>\x00", b"\x80", b"\x81\x8d\x8f\x90\x9d",
              b"\xe9", b"\xc3\xa9", b"\xc3", b"<meta charset=ascii>\xe9", b"<meta charset=ascii>e", b"<?xml version='1.0' encoding='ascii'?>\xe9"]
    argsets = [dict(), dict(is_html=False), dict(known=["ascii"]), dict(known=["utf-8"]), dict(exclude=["utf-8"]), dict(exclude=["utf-8", "windows-1252"]),
               dict(exclude=["UTF-8", "Windows-1252", "utf-16le", "utf-16be"]), dict(known=["ascii"], exclude=["utf-8", "windows-1252"]),
               dict(user=["ascii"], exclude=["utf-8", "windows-1252"]), dict(known=["ASCII"], exclude=["utf-8", "windows-1252"]),
               dict(known=["utf-16le"]), dict(known=["no-such"], user=["no-such", "NO-SUCH"]), dict(known=[""], user=[""]),
               dict(known=["macintosh"], exclude=["mac-roman"]), dict(known=["x-sjis"]), dict(user=["latin-1"], known=["Latin-1"]),
               dict(known=["idna"]), dict(known=["unicode_escape"]), dict(known=["hex"]), dict(known=["undefined"], exclude=["utf-8", "windows-1252"])]
    for s in shorts:
        for a in argsets:
            c = dict(base)
            c.update(a)
            c["markup_hex"] = s.hex()
            c["soup"] = c["is_html"] and not c["user"] and len(c["known"]) <= 1
            out.append(c)
    for s in ["", "abc", "<meta charset='koi8-r'>x", "\ufeffx"]:
        for h in (True, False):
            out.append(dict(markup_str=s, is_html=h, known=[], user=[], exclude=[], override=[], stream="edge"))
    return out


def empty_after_bom_cases():
    """Documents that are empty once the byte-order mark is stripped, x candidate names from every source that are unknown, python-specific,
    not text encodings, always-failing, or real. The first candidate that IS a text encoding accepting the empty input must win."""
    out = []
    boms = [b"\xef\xbb\xbf", b"\xff\xfe", b"\xfe\xff", b"\xff\xfe\x00\x00", b"\x00\x00\xfe\xff"]
    names = ["nosuch", "mbcs", "oem", "x-unknown", "base64", "rot13", "hex", "zlib", "bz2", "quopri", "uu", "undefined", "string-escape",
             "idna", "punycode", "unicode_escape", "utf-7", "charmap", "koi8-r", "ascii", "ASCII", "utf-16", "UTF-8", "Latin-1", "macintosh", "X-SJIS", "u-tf8", ""]
    for b in boms:
        for n in names:
            for where in ("known", "user", "known+user", "exclude", "override"):
                c = dict(markup_hex=b.hex(), is_html=(len(n) % 2 == 0), known=[], user=[], exclude=[], override=[], stream="empty-after-bom")
                if where == "known":
                    c["known"] = [n]
                elif where == "user":
                    c["user"] = [n]
                elif where == "known+user":
                    c["known"], c["user"] = ["no-such-codec"], [n, "hex"]
                elif where == "override":
                    c["override"] = [n]
                else:
                    c["known"], c["exclude"] = [n], [n.upper(), "utf-8"]
                c["soup"] = not c["user"] and not c["override"] and len(c["known"]) <= 1
                c["builder"] = not c["override"] and len(c["known"]) <= 1 and len(c["user"]) <= 1
                c["is_html"] = c["is_html"] or c["soup"] or c["builder"]
                out.append(c)
    return out


def alias_cases():
    from bs4.dammit import UnicodeDammit
    out = []
    names = sorted(set(UnicodeDammit.CHARSET_ALIASES) | set(UnicodeDammit.CHARSET_ALIASES.values()) | {n for v in SPELLINGS.values() for n in v}
                   | set(UNKNOWN) | set(PYSPECIFIC) | set(GENERIC))
    for n in names:
        for data in (b"abc", b"caf\xe9", b"\x82\xb1\x82\xf1"):
            for pos in ("known", "user", "declared"):
                c = dict(is_html=True, known=[], user=[], exclude=["utf-8", "windows-1252"], override=[], stream="alias")
                m = data
                if pos == "declared":
                    m = b"<meta charset=\"" + n.encode() + b"\">" + data
                else:
                    c[pos] = [n]
                c["markup_hex"] = m.hex()
                c["soup"] = pos != "user"
                out.append(c)
    return out


def work_fixed(job):
    name, cases = job
    _patch_feed()
    dist, viols, dis, nontriv = Counter(), [], [], []
    all_lines, all_expect, all_meta = [], [], []
    for c in cases:
        v, lines, expect, tags, o = eval_case_safe(c)
        if c.get("stream") == "window":
            try:
                v = v + window_direct(c)
            except Exception as e:   # noqa: BLE001
                v = v + [dict(what=f"find_declared_encoding raised {type(e).__name__}: {e}", expected=None, observed=None, stream="window/declared")]
            wx, wh = c["windows"]
            w = wx if c["decl"] == "xml" else wh
            dist["window:%s:%s" % (c["decl"], "inside" if c["decl_end"] <= w else "outside") + (":long" if c.get("light") else "")] += 1
        dist[f"stream:{name}"] += 1
        if c.get("stream") == "both":
            dist["both:%s:%s:html%d" % (c["decl"].split(":")[1], c["declclass"], c["is_html"])] += 1
        dist["how:" + o["how"]] += 1
        nontriv.append(hashlib.sha256(json.dumps(c, sort_keys=True).encode()).hexdigest()[:12])
        for x in v:
            x["case"] = c | x.pop("extra_case", {})
            x["kf"] = kf_of(c, x["what"])
            viols.append(x)
        for l, e, t in zip(lines, expect, tags):
            if e is not None:
                all_lines.append(l)
                all_expect.append(e)
                all_meta.append((c, t, bool(v)))
    replies = Driver().ask(all_lines)
    for l, e, r, (c, t, hadv) in zip(all_lines, all_expect, replies, all_meta):
        dist["model:" + t] += 1
        if e != r:
            dis.append(dict(case=c, op=t, real=e[:600], model=r[:600], line=l[:4000], had_violation=hadv))
    dist.update(LAW)
    LAW.clear()
    return dict(dist=dist, viols=viols, nontriv=nontriv, samples=[], dis=dis, n=len(cases))


# ----------------------------------------------------------------------------------------------------------------------
# the search windows of the declaration (XML declaration: first 1024 bytes; <meta>: first max(2048, 5% of the document))
# ----------------------------------------------------------------------------------------------------------------------
WINDOW_TEXTS = [("koi8-r", "Привет, мир"), ("iso-8859-7", "Καλημέρα κόσμε"), ("euc-jp", "こんにちは世界"), ("windows-1252", "café “déjà vu”"),
                ("iso-8859-2", "Příliš žluťoučký kůň"), ("shift_jis", "こんにちは"), ("cp1251", "Привет"), ("big5", "你好世界")]
META_TPL = ['<meta charset="%s">', "<meta charset='%s'/>", "<meta charset=%s>", '<META CHARSET="%s">',
            '<meta http-equiv="Content-Type" content="text/html; charset=%s">', "<meta http-equiv='content-type' content='text/html;charset=%s'>",
            '<meta content="text/html; charset=%s" http-equiv="Content-Type" />']
XML_TPL = ['<?xml version="1.0" encoding="%s"?>', "<?xml version='1.0' encoding='%s'?>", '<?xml version="1.0" encoding="%s" standalone="yes"?>']
HEAD_FILL = ['<link rel="stylesheet" href="/static/site.css">', "<script>var cfg = {a: 1, b: 'x'};</script>", "<title>A page</title>",
             "<!-- generated by a template; do not edit -->", '<link rel="icon" href="/favicon.ico" type="image/x-icon">', "\n  "]


def head_filler(rng, n):
    """exactly n ASCII characters of ordinary <head> content in front of a <meta>: no `<meta`, no `charset`, no `<?`"""
    base = "<!DOCTYPE html><html><head>"
    if n < len(base) + 7:
        return "x" * n
    out = base
    while True:
        piece = rng.choice(HEAD_FILL)
        if len(out) + len(piece) + 7 > n:
            break
        out += piece
    return out + "<!--" + "-" * (n - len(out) - 7) + "-->"


def documented_windows(length, entire):
    """what find_declared_encoding documents/implements as its search windows (independent of the model: Python arithmetic)"""
    if entire:
        return length, length
    return 1024, max(2048, int(length * 0.05))


def window_truth(kind, name, end, length, is_html, entire=False):
    """The declaration is found iff it ends inside the window (an XML declaration counts for HTML too; a <meta> only for HTML)."""
    wx, wh = documented_windows(length, entire)
    if kind == "xml":
        return name.lower() if end <= wx else None
    return name.lower() if (is_html and end <= wh) else None


def window_case(rng, kind, end, total, is_html):
    """A document whose declaration's last needed character (closing quote / `>` of the value, `?>` of the XML declaration) is
    character number `end` (1-based), padded to about `total` bytes."""
    codec, text = rng.choice(WINDOW_TEXTS)
    name = spell(rng, codec)
    if kind == "xml":
        tpl = rng.choice(XML_TPL)
        decl = tpl % name
        off = len(decl)
        if end < off:
            return None
        head = "".join(rng.choice(" \n\t") for _ in range(end - off))
        after = "\n<html><body><p>" + text + "</p>"
    else:
        tpl = rng.choice(META_TPL)
        decl = tpl % name
        off = tpl.index("%s") + len(name) + 1
        if end < off:
            return None
        head = head_filler(rng, end - off)
        after = "</head><body><p>" + text + "</p>"
    doc = head + decl + after
    body_pad = total - len(doc.encode(codec, "ignore")) - len("</body></html>")
    if body_pad > 0:
        unit = "<p>" + text + " lorem ipsum</p>\n"
        ulen = len(unit.encode(codec, "ignore"))
        doc += unit * (body_pad // ulen) + "x" * (body_pad % ulen)
    doc += "</body></html>"
    markup = doc.encode(codec, "ignore")
    r = rng.random()
    known, user, exclude = [], [], []
    if r < 0.15:
        known = [rng.choice(["ascii", "utf-8"])]
    elif r < 0.25:
        exclude = [rng.choice(["utf-8", "UTF-8", "windows-1252"])]
    elif r < 0.32:
        user = ["ascii"]
    c = dict(stream="window", markup_hex=markup.hex(), is_html=is_html, known=known, user=user, exclude=exclude, override=[],
             soup=is_html and not user and len(markup) < 120000, light=len(markup) > 6000, codec=codec, decl=kind, declname=name,
             declclass="right", bom="none", text="window", decl_end=end, windows=list(documented_windows(len(markup), False)),
             truth_declared=window_truth(kind, name, end, len(markup), is_html))
    return c


def window_cases(seed, thorough):
    rng = rng_for(seed, "C07", "window")
    out = []
    reps = 4 if thorough else 1
    for _ in range(reps):
        for is_html in (True, False):
            # short documents: the <meta> window is 2048, the XML window 1024
            for kind in ("meta", "meta", "xml"):
                ends = [w + d for w in (1024, 2048) for d in (-3, -2, -1, 0, 1, 2, 3)]
                ends += [w + rng.randint(4, 70) for w in (1024, 2048)] + [w - rng.randint(4, 70) for w in (1024, 2048)]   # straddling / wholly inside
                ends += [rng.randint(80, 1000), rng.randint(1100, 2000), rng.randint(2100, 3000)]
                for e in ends:
                    c = window_case(rng, kind, e, e + rng.randint(60, 900), is_html)
                    if c:
                        out.append(c)
        # dense sweep of the end offset around both boundaries (byte-level ops only: `light`)
        for w in (1024, 2048):
            for e in range(w - 48, w + 49):
                for kind, is_html in (("meta", True), ("xml", False)) + ((("xml", True),) if e % 4 == 0 else ()):
                    c = window_case(rng, kind, e, e + rng.randint(60, 400), is_html)
                    if c:
                        c["light"] = True
                        c["soup"] = False
                        c["builder"] = False
                        out.append(c)
        # long documents: 5% of the length exceeds 2048 from 40 980 bytes on
        for total in (40940, 40979, 40980, 41000, 41020, 60000, 100000):
            w = max(2048, int(total * 0.05))
            ends = sorted({w - 2, w - 1, w, w + 1, w + 2, w + 40, 2047, 2048, 2049, 1024, 1025, max(2050, w - rng.randint(3, 300))})
            if total >= 60000 and not thorough:
                ends = ends[::2]
            for e in ends:
                c = window_case(rng, "meta", e, total, True)
                if c:
                    out.append(c)
        for total in (41000, 60000):
            for e in (1023, 1024, 1025, 2048):
                c = window_case(rng, "xml", e, total, rng.random() < 0.5)
                if c:
                    out.append(c)
    return out


def window_direct(c):
    """find_declared_encoding itself, bytes and str, search_entire_document False and True, against the documented windows."""
    from bs4.dammit import EncodingDetector
    viol = []
    m = bytes.fromhex(c["markup_hex"])
    kind = "xml" if c["decl"] == "xml" else "meta"
    for label, doc in (("bytes", m), ("str", m.decode(c["codec"], "replace"))):
        for entire in (False, True):
            want = window_truth(kind, c["declname"], c["decl_end"], len(doc), c["is_html"], entire)
            got = EncodingDetector.find_declared_encoding(doc, c["is_html"], search_entire_document=entire)
            if got != want:
                wx, wh = documented_windows(len(doc), entire)
                viol.append(dict(what=f"find_declared_encoding({label}, is_html={c['is_html']}, search_entire_document={entire}) does not report a declaration "
                                      f"according to the documented search window (declaration ends at character {c['decl_end']}; XML window {wx}, <meta> window {wh})",
                                 expected=want, observed=got, stream="window/declared"))
    return viol


def both_cases(seed, thorough):
    """Documents carrying BOTH an XML declaration and a <meta> charset. Documented rule: the XML declaration (at the very start, within
    1024 bytes) wins when present; the <meta> is consulted only if no XML declaration was found, and only for HTML. The generator knows
    what it wrote, so the expected declaration is independent of the code and of the model."""
    rng = rng_for(seed, "C07", "both")
    out = []
    n = 1200 if thorough else 260
    for i in range(n):
        codec, text = rng.choice(WINDOW_TEXTS)
        other = rng.choice([c for c, _ in WINDOW_TEXTS if c != codec] + ["utf-8", "iso-8859-1", "ascii"])
        agree = rng.random() < 0.25
        xname = spell(rng, codec if rng.random() < 0.7 else other)
        mname = xname if agree else spell(rng, other if xname.lower().replace("_", "-") in [x.lower() for x in SPELLINGS.get(codec, [codec])] else codec)
        xml = rng.choice(XML_TPL) % xname
        meta = rng.choice(META_TPL) % mname
        is_html = rng.random() < 0.75
        order = rng.choice(["xml-first", "xml-first", "xml-first", "meta-first", "xml-late"])
        body = "<body><p>" + text + "</p></body></html>"
        if order == "xml-first":
            lead = rng.choice(["", "", " ", "\n", "\r\n  "])
            doc = lead + xml + rng.choice(["\n", "", "\n<!DOCTYPE html>\n"]) + "<html><head>" + rng.choice(["", "<title>t</title>"]) + meta + "</head>" + body
            truth = xname.lower()
        elif order == "meta-first":
            # an XML declaration that is not at the start of the document is not one
            doc = "<html><head>" + meta + "</head>" + xml + body
            truth = mname.lower() if is_html else None
        else:
            # the XML declaration ends beyond the first 1024 bytes: not found; the <meta> (inside 2048) is consulted for HTML
            pad = " " * rng.randint(1024, 1300)
            doc = pad + xml + "\n<html><head>" + meta + "</head>" + body
            truth = mname.lower() if is_html else None
        markup = doc.encode(codec, "ignore")
        r = rng.random()
        known, user, exclude = [], [], []
        if r < 0.12:
            known = [rng.choice(["ascii", "utf-8"])]
        elif r < 0.2:
            exclude = [rng.choice(["utf-8", "windows-1252", xname.upper(), mname])]
        elif r < 0.26:
            user = ["ascii"]
        out.append(dict(stream="both", markup_hex=markup.hex(), is_html=is_html, known=known, user=user, exclude=exclude, override=[],
                        soup=is_html and not user, builder=is_html and len(user) <= 1, codec=codec, decl="both:" + order, declname=xname,
                        declclass="agree" if agree else "disagree", bom="none", text="both", truth_declared=truth, xml_name=xname, meta_name=mname))
    return out


def declared_stream(seed, n):
    """find_declared_encoding alone on token soups (the regexes' corner cases) versus the model's matcher."""
    from bs4.dammit import EncodingDetector
    rng = rng_for(seed, "C07", "declared-tokens")
    lines, expect, cases = [], [], []
    hits = Counter()
    for _ in range(n):
        k = rng.randint(0, 14)
        s = b"".join(rng.choice(MUT_TOKENS) for _ in range(k))
        if rng.random() < 0.3:
            s = (rng.choice([b"", b" ", b"\n "]) + b"<?xml version='1.0' " + b"".join(rng.choice(MUT_TOKENS) for _ in range(rng.randint(0, 3))) + b"encoding="
                 + rng.choice([b"'", b'"', b""]) + rng.choice([b"utf-8", b"Latin-1", b"", b"x y"]) + rng.choice([b"'", b'"', b""]) + b"".join(rng.choice(MUT_TOKENS) for _ in range(rng.randint(0, 3)))
                 + rng.choice([b"?>", b"?", b">", b"?>\n?>"]) + s)
        if rng.random() < 0.004:
            # the html search window is max(2048, 5% of the document): declarations beyond 2048 bytes of a large document
            pad = rng.choice([40900, 40960, 40980, 41000, 45000, 60000])
            s = b"x" * rng.choice([2040, 2049, 2100, 2250, 2990]) + rng.choice([b"<meta charset=koi8-r>", b"<meta charset='big5' />"]) + s
            s = s + b"y" * max(0, pad - len(s))
        for h in (True, False):
            got = EncodingDetector.find_declared_encoding(s, h)
            hits["declared-tokens:" + ("hit" if got is not None else "miss") + (":large" if len(s) > 40000 else "")] += 1
            lines.append(f"c07 declared {p_bytes(s)} {1 if h else 0}")
            expect.append(p_opt(got))
            cases.append(dict(markup_hex=s.hex(), is_html=h, stream="declared-tokens"))
            lines.append(f"c07 declaredrx 0 {p_bytes(s)} {1 if h else 0} 0")
            expect.append(p_opt(got))
            cases.append(dict(markup_hex=s.hex(), is_html=h, stream="declared-tokens", op="declaredrx"))
            if len(s) < 4000:
                got_all = EncodingDetector.find_declared_encoding(s, h, search_entire_document=True)
                lines.append(f"c07 declaredrx 0 {p_bytes(s)} {1 if h else 0} 1")
                expect.append(p_opt(got_all))
                cases.append(dict(markup_hex=s.hex(), is_html=h, stream="declared-tokens", op="declaredrx", search_entire_document=True))
    return lines, expect, cases, hits


STR_TOKENS = ["<", ">", "?", "<?", "?>", "<?xml ", "meta", "META", " ", "\t", "\n", "\r", "charset", "CharSet", "=", "'", '"', "/", ";", "encoding=",
              "ENCODING=", "utf-8", "x", "content=", "<meta ", "<meta charset=", "<?xml version='1.0' encoding='", "\x0b", "\x0c", "\x1c", "\x1f", "\x85",
              "\xa0", "\u2003", "\u2028", "\u3000", "\u200b", "char\u017fet", "CHAR\u017fET", "encod\u0131ng=", "encod\u0130ng=", "ENCOD\u0130NG=", "\u212a",
              "m\u0435ta", "\xe9", "Latin-1", "KOI8-R", "\u0130SO", "\u017f", "<\xa0meta\u2003", "\U0001d400", "\ud800"]


def ascii_lower_model_to_python(reply: str) -> str:
    """The model lower-cases ASCII letters only; Python's str.lower() is applied on top for comparison (equal on what the model already folded)."""
    if reply in ("none", "bad-op") or reply == "e":
        return reply
    t = "".join(chr(int(x)) for x in reply.split("."))
    return p_name(t.lower())


def declared_str_stream(seed, n):
    """find_declared_encoding on str documents (the str flavour of the two patterns: Unicode white space, Unicode case folding of the
    literals) versus the regex engine of the model."""
    from bs4.dammit import EncodingDetector
    rng = rng_for(seed, "C07", "declared-str")
    lines, expect, cases = [], [], []
    hits = Counter()
    for _ in range(n):
        s = "".join(rng.choice(STR_TOKENS) for _ in range(rng.randint(0, 12)))
        if rng.random() < 0.3:
            s = (rng.choice(["", " ", "\u3000\n", "\x1c"]) + "<?xml version='1.0' " + "".join(rng.choice(STR_TOKENS) for _ in range(rng.randint(0, 2)))
                 + rng.choice(["encoding=", "ENCOD\u0130NG=", "encod\u0131ng="]) + rng.choice(["'", '"']) + rng.choice(["utf-8", "Latin-1", "", "\u0130so"])
                 + rng.choice(["'", '"', ""]) + rng.choice(["?>", "?", "?>\n"]) + s)
        for h in (True, False):
            for entire in (False, True):
                got = EncodingDetector.find_declared_encoding(s, h, search_entire_document=entire)
                hits["declared-str:" + ("hit" if got is not None else "miss")] += 1
                lines.append(f"c07 declaredrx 1 {p_text(s) if s else '-'} {1 if h else 0} {1 if entire else 0}")
                expect.append(p_opt(got))
                cases.append(dict(markup_str=s, is_html=h, stream="declared-str", search_entire_document=entire))
    return lines, expect, cases, hits


RX_ITEMS = ["a", "e", "s", "i", "t", "<", ">", "=", " ", "\\n", '"', "\\?", ".", "\\s", "[ae]", "[^a]", "[^ae]", "[ \\s=]", "[^>]", "['\"]", "[^\\s<]"]
RX_QUANT = ["", "", "", "*", "+", "?", "*?", "+?", "??"]
RX_SUBJECT = ["a", "A", "e", "E", "s", "S", "i", "I", "t", "<", ">", "=", " ", "\n", '"', "?", "x", "\t", "'"]
RX_SUBJECT_STR = RX_SUBJECT + ["\u017f", "\u0131", "\u0130", "\xa0", "\u2003", "\x1c", "\x85", "\xe9"]


def rx_stream(seed, n):
    """The regex engine of the model against Python's `re` on random patterns of the supported fragment (not only the two of dammit.py):
    re.I, bytes and str flavours, random endpos. Ties `Rx.search` to the `re` semantics it mirrors."""
    import re
    import sys
    sys.path.insert(0, os.path.join(os.path.dirname(os.path.dirname(os.path.abspath(__file__))), "translate"))
    from parts_c07 import rx_atoms
    rng = rng_for(seed, "C07", "rx")

    def enc_cls(c):
        if c[0] == "lit":
            return f"L{c[1]}"
        if c[0] == "notLit":
            return f"N{c[1]}"
        if c[0] == "any":
            return "A"
        if c[0] == "space":
            return "S"
        return f"O{1 if c[2] else 0}{1 if c[3] else 0}," + (".".join(map(str, c[1])) if c[1] else "-")

    def enc_atom(a):
        if a[0] == "gopen":
            return "("
        if a[0] == "gclose":
            return ")"
        if a[0] == "one":
            return "1/" + enc_cls(a[1])
        return f"r{1 if a[2] else 0}{1 if a[3] else 0}{1 if a[4] else 0}/" + enc_cls(a[1])
    lines, expect, cases = [], [], []
    hits = Counter()
    while len(lines) < n:
        k = rng.randint(1, 6)
        items = [rng.choice(RX_ITEMS) + rng.choice(RX_QUANT) for _ in range(k)]
        if rng.random() < 0.7:
            i = rng.randint(0, k - 1)
            j = rng.randint(i, k - 1)
            items[i] = "(" + items[i]
            items[j] = items[j] + ")"
        src = ("^" if rng.random() < 0.25 else "") + "".join(items)
        try:
            anchored, atoms = rx_atoms(src, re.I)
            cu = re.compile(src, re.I)
            cb = re.compile(src.encode("ascii"), re.I)
        except (ValueError, re.error):
            continue
        pat = ";".join(enc_atom(a) for a in atoms)
        for _ in range(4):
            flavor = rng.choice("bs")
            subj = "".join(rng.choice(RX_SUBJECT if flavor == "b" else RX_SUBJECT_STR) for _ in range(rng.randint(0, 9)))
            endpos = rng.choice([len(subj), len(subj), rng.randint(0, len(subj) + 1)])
            if flavor == "b":
                m = cb.search(subj.encode("latin-1"), endpos=endpos)
                got = None if m is None else (m.group(1) if cb.groups else b"")
                got = None if m is None else ("" if got is None else got.decode("latin-1"))
            else:
                m = cu.search(subj, endpos=endpos)
                got = None if m is None else ((m.group(1) or "") if cu.groups else "")
            hits["rx:" + ("hit" if m is not None else "miss")] += 1
            lines.append(f"c07 rx {flavor} {1 if anchored else 0} {pat} {p_text(subj)} {endpos}")
            expect.append(p_text(got))
            cases.append(dict(pattern=src, flavor=flavor, subject=subj, endpos=endpos, stream="rx"))
    return lines, expect, cases, hits


def bom_probe_stream():
    """every sequence of <= 5 bytes over {00, fe, ff, ef, bb, bf, 61}: real strip_byte_order_mark vs the model."""
    from bs4.dammit import EncodingDetector
    import itertools
    lines, expect, cases = [], [], []
    for k in range(6):
        for t in itertools.product((0x00, 0xfe, 0xff, 0xef, 0xbb, 0xbf, 0x61), repeat=k):
            b = bytes(t)
            out, enc = EncodingDetector.strip_byte_order_mark(b)
            lines.append(f"c07 bom {p_bytes(b)}")
            expect.append(f"{p_bytes(out)} {p_opt(enc)}")
            cases.append(dict(markup_hex=b.hex(), stream="bom-exhaustive"))
    return lines, expect, cases


# ----------------------------------------------------------------------------------------------------------------------

def history_stream(ctx):
    """The result of a call must not depend on earlier calls in the same process, and the caller's argument lists must not be
    modified: reference calls are evaluated on a fresh state, then again after each 'polluting' call (deprecated aliases, caller-owned
    lists, every optional argument), and compared."""
    import warnings
    from bs4.dammit import UnicodeDammit, EncodingDetector
    from bs4 import BeautifulSoup
    refs = [
        (b"caf\xc3\xa9", {}),
        (b"\xef\xbb\xbfabc", {}),
        ("Sacr\xe9 bleu".encode("latin-1"), {}),
        (b"<meta charset='iso-8859-5'>\xd0\xd1", {"is_html": True}),
        ("\u05e9\u05dc\u05d5\u05dd".encode("utf-8"), {}),
        (b"\xff\xfea\x00b\x00", {}),
        (b"plain ascii", {}),
        (b"<?xml version='1.0' encoding='koi8-r'?>\xc1\xc2", {}),
        ("na\u00efve".encode("utf-8"), {"known_definite_encodings": ["ascii"]}),
        (b"\x93quoted\x94", {"user_encodings": ["utf-8"]}),
        (b"abc \xe9", {"exclude_encodings": ["windows-1252"]}),
    ]

    def obs(markup, kw):
        with warnings.catch_warnings():
            warnings.simplefilter("ignore")
            d = UnicodeDammit(markup, **{k: list(v) if isinstance(v, list) else v for k, v in kw.items()})
            soup = BeautifulSoup(markup, "html.parser")
        return (d.unicode_markup, d.original_encoding, d.contains_replacement_characters, d.declared_html_encoding,
                list(EncodingDetector(markup, **{k: v for k, v in kw.items() if k in ("known_definite_encodings", "user_encodings", "exclude_encodings", "is_html")}).encodings),
                soup.original_encoding, soup.decode())

    _obs = obs

    def obs(markup, kw):   # noqa: F811 - guarded version: an exception is an observation too
        try:
            return _obs(markup, kw)
        except Exception as e:   # noqa: BLE001
            return ("<raised>", type(e).__name__, str(e)[:200], None, None, None, None)
    before = [obs(m, kw) for m, kw in refs]
    for (m, kw), a in zip(refs, before):
        if a[0] == "<raised>":
            ctx.violation(f"history: a plain reference call raised {a[1]}: {a[2]} (every reference input decodes under utf-8 or windows-1252; "
                          "an earlier call in this process must have left state behind)", case={"history": [], "markup": repr(m), "kwargs": dict(kw)},
                          expected="a decoded text", observed=f"{a[1]}: {a[2]}", stream="history")
    own = {"known": ["iso-8859-8"], "user": ["iso-8859-1"], "excl": ["utf-8"], "over": ["iso-8859-8", "iso-8859-1"]}
    polluters = [
        ("override_encodings alias", lambda: UnicodeDammit(b"abc", override_encodings=own["over"])),
        ("known_definite_encodings list", lambda: UnicodeDammit(b"\xe9", known_definite_encodings=own["known"])),
        ("user_encodings list", lambda: UnicodeDammit(b"\xe9", user_encodings=own["user"])),
        ("exclude_encodings list", lambda: UnicodeDammit(b"\xe9", exclude_encodings=own["excl"])),
        ("both aliases", lambda: UnicodeDammit(b"\xe9", known_definite_encodings=own["known"], override_encodings=own["over"])),
        ("smart quotes", lambda: UnicodeDammit(b"\x93x\x94", ["windows-1252"], smart_quotes_to="html")),
        ("constructor from_encoding", lambda: BeautifulSoup(b"\xe9", "html.parser", from_encoding="iso-8859-7", exclude_encodings=own["excl"])),
        ("detector", lambda: list(EncodingDetector(b"\xef\xbb\xbfx", known_definite_encodings=own["known"], user_encodings=own["user"], exclude_encodings=own["excl"]).encodings)),
        ("failing call", lambda: UnicodeDammit(b"\xff\xff", known_definite_encodings=["no-such-codec", "undefined"])),
    ]
    snapshot = {k: list(v) for k, v in own.items()}
    for name, call in polluters:
        for rep in range(2):
            try:
                with warnings.catch_warnings():
                    warnings.simplefilter("ignore")
                    call()
            except Exception as e:   # noqa: BLE001
                ctx.violation(f"history: the call '{name}' raised {type(e).__name__}: {e}", case={"history": [name]}, stream="history")
            for k, v in own.items():
                if v != snapshot[k]:
                    ctx.violation(f"history: the call '{name}' modified the caller's own list argument {k}: {snapshot[k]} -> {v}",
                                  case={"history": [name], "argument": k}, expected=snapshot[k], observed=list(v), stream="history")
                    own[k][:] = snapshot[k]
            after = [obs(m, kw) for m, kw in refs]
            ctx.case(("hist", name, rep))
            for (m, kw), a, b in zip(refs, before, after):
                if a != b:
                    j = next(i for i in range(len(a)) if a[i] != b[i])
                    fields = ["unicode_markup", "original_encoding", "contains_replacement_characters", "declared_html_encoding",
                              "EncodingDetector.encodings", "BeautifulSoup.original_encoding", "BeautifulSoup text"]
                    ctx.violation(f"history: after an earlier call ('{name}') in the same process the same input is decoded differently: {fields[j]} "
                                  f"was {a[j]!r}, now {b[j]!r}", case={"history": [name], "markup": repr(m), "kwargs": {k: v for k, v in kw.items()}},
                                  expected=repr(a[j]), observed=repr(b[j]), stream="history")
                    return
    ctx.count("history:polluters", len(polluters))


def forms_stream(ctx):
    """Argument forms: `_Encodings` is `Iterable[str]`, so lists, tuples, iterators and generators are all legal for known_definite /
    user / exclude / override encodings. The outcome must not depend on the container, and `EncodingDetector.encodings` must give the
    same list each time it is read."""
    from bs4.dammit import UnicodeDammit, EncodingDetector
    rng = ctx.rng("forms")
    forms = {"tuple": tuple, "iterator": iter, "generator": lambda l: (x for x in l)}
    cases = [dict(markup_hex=b"\x81\x00\x81".hex(), is_html=False, known=[], user=["utf-16le"], exclude=[], override=[], stream="forms"),
             dict(markup_hex=b"\x81\x00\x81".hex(), is_html=True, known=["utf-16le"], user=["utf-32"], exclude=["UTF-8"], override=["utf-16be"], stream="forms"),
             dict(markup_hex=b"abc".hex(), is_html=False, known=[], user=["koi8-r"], exclude=[], override=[], stream="forms")]
    while len(cases) < ctx.n(250, 2500):
        c = gen_case(rng, rng.choice(["grid", "malformed"]))
        if (c["known"] or c["user"] or c["exclude"] or c["override"]) and len(c["markup_hex"]) < 4000:
            c["stream"] = "forms"
            c.pop("chardet", None)
            cases.append(c)

    def run(c, conv):
        m = case_markup(c)
        kw = dict(known_definite_encodings=conv(c["known"]), user_encodings=conv(c["user"]), exclude_encodings=conv(c["exclude"]), is_html=c["is_html"])
        if c.get("override"):
            kw["override_encodings"] = conv(c["override"])
        with warnings.catch_warnings():
            warnings.simplefilter("ignore")
            d = UnicodeDammit(m, **kw)
            kw2 = dict(known_definite_encodings=conv(c["known"]), user_encodings=conv(c["user"]), exclude_encodings=conv(c["exclude"]), is_html=c["is_html"])
            if c.get("override"):
                kw2["override_encodings"] = conv(c["override"])
            det = EncodingDetector(m, **kw2)
            first, second = list(det.encodings), list(det.encodings)
        return dict(text=d.unicode_markup, enc=d.original_encoding, repl=d.contains_replacement_characters, decl=d.declared_html_encoding,
                    encodings=first, encodings_again=second)

    for c in cases:
        try:
            base = run(c, list)
        except Exception as e:   # noqa: BLE001
            ctx.violation(f"argument forms: list arguments raised {type(e).__name__}: {e}", case=c, stream="forms")
            continue
        ctx.case(("forms", c["markup_hex"][:40], tuple(c["known"]), tuple(c["user"]), tuple(c["exclude"])))
        if base["encodings"] != base["encodings_again"]:
            ctx.violation("EncodingDetector.encodings gives a different list when read a second time", case=c, expected=base["encodings"],
                          observed=base["encodings_again"], stream="forms")
        for fname, conv in forms.items():
            ctx.count("forms:" + fname)
            try:
                got = run(c, conv)
            except Exception as e:   # noqa: BLE001
                ctx.violation(f"argument forms: {fname} arguments raised {type(e).__name__}: {e}", case=c | {"form": fname}, stream="forms")
                continue
            if got != base:
                field = next(k for k in base if got[k] != base[k])
                ctx.violation(f"the outcome depends on the container type of the encoding arguments: with {fname}s instead of lists, {field} differs "
                              "(a one-shot iterable is exhausted by the first pass / first read)", case=c | {"form": fname},
                              expected=short(base) | {"encodings": base["encodings"], "encodings_again": base["encodings_again"]},
                              observed=short(got) | {"encodings": got["encodings"], "encodings_again": got["encodings_again"]}, stream="forms")


def run(ctx: Ctx):
    import multiprocessing as mp
    import bs4.dammit as bd
    ctx.rule = ("a case = one markup (text x codec x BOM x declaration kind x declared-name class, or a malformed/edge variant) with one set of "
                "known_definite/override/user/exclude/is_html arguments, run through UnicodeDammit, EncodingDetector.encodings and (when the arguments can be "
                "expressed there) the BeautifulSoup constructor; non-trivial = the result is not simply 'first candidate utf-8 decodes': a later candidate wins, "
                "or a non-utf-8 candidate wins, or the replace pass / rejection is reached")
    ctx.assumptions = ["no chardet / cchardet / charset_normalizer is installed; the chardet step of the order is exercised through a stand-in module "
                       "assigned to bs4.dammit.chardet_module for the duration of a call (12% of the grid cases)",
                       "Rx.search (Lean) = CPython's re on the supported fragment: tied by the rx stream (random patterns x subjects, bytes and str), not proved",
                       "the codec laws the totality theorems assume (lookup ignores case; utf-8 / windows-1252 exist and decode with errors='replace' "
                       "without failing) are tested on every case's data (distribution keys law:*)",
                       "encoding names are ASCII strings (str.lower() is modelled on ASCII letters)",
                       "smart_quotes_to=None (the substitution hook of _convert_from is property C19's)",
                       "int(len(markup) * 0.05) = len(markup) // 20 for the document sizes used",
                       "the codec oracle shipped to the model (and used by the direct oracle) is the real codecs' behaviour on this case's BOM-stripped bytes; "
                       "for the EMPTY byte string it is the codec's own decoder (codecs.lookup(name).decode, text encodings only), not str(b'', name), which "
                       "never looks the name up",
                       "for documents in UTF-16/UTF-32 and for mutated declarations the 'declared' input of the oracle is find_declared_encoding itself (no independent ground truth)"]
    if bd.chardet_module is not None:
        ctx.notes.append("chardet-like module present: disabled in-process for this run")
        bd.chardet_module = None
    _patch_feed()
    history_stream(ctx)
    forms_stream(ctx)
    # corpus first
    corpus_dir = os.path.join(os.path.dirname(os.path.dirname(os.path.abspath(__file__))), "corpus", "C07")
    corpus = []
    if os.path.isdir(corpus_dir):
        for f in sorted(os.listdir(corpus_dir)):
            if f.endswith(".json"):
                corpus.append(json.load(open(os.path.join(corpus_dir, f))))
    grid_n = ctx.n(4200, 90000)
    mal_n = ctx.n(1400, 30000)
    str_n = ctx.n(150, 1500)
    chunk = 350 if not ctx.thorough else 1500
    jobs = []
    for stream, n in (("grid", grid_n), ("malformed", mal_n), ("str", str_n)):
        k = 0
        while n > 0:
            jobs.append((ctx.seed, stream, k, min(chunk, n)))
            n -= chunk
            k += 1
    fixed = [("edge", edge_cases()), ("alias", alias_cases())]
    eb = empty_after_bom_cases()
    for i in range(0, len(eb), 175):
        fixed.append(("empty-after-bom", eb[i:i + 175]))
    ctx.exhaustive_parts.append("documents empty after their byte-order mark: every BOM x 28 names (unknown / not a text encoding / always failing / "
                                "python-specific / real) x source (known definite, user, override, excluded)")
    bc = both_cases(ctx.seed, ctx.thorough)
    for i in range(0, len(bc), 65):
        fixed.append(("both", bc[i:i + 65]))
    wc = window_cases(ctx.seed, ctx.thorough)
    for i in range(0, len(wc), 40):
        fixed.append(("window", wc[i:i + 40]))
    ctx.exhaustive_parts.append("declaration windows: XML declaration / <meta> ending at every offset within 3 of 1024, 2048 and 5% of the length "
                                "(documents of 40 940 .. 100 000 bytes), both is_html settings, bytes and str, search_entire_document False and True")
    if corpus:
        fixed.insert(0, ("corpus", corpus))
    procs = min(16, os.cpu_count() or 2)
    with mp.get_context("fork").Pool(procs) as pool:
        fixed_res = pool.map_async(work_fixed, fixed)
        results = pool.map(work, jobs, chunksize=1)
        results = fixed_res.get() + results
    seen_v = set()
    for res in results:
        for k, v in res["dist"].items():
            ctx.count(k, v)
        for h in res["nontriv"]:
            ctx.case(h)
        for _ in range(res["n"] - len(res["nontriv"])):
            ctx.case(None)
        for s in res["samples"]:
            if len(ctx.samples) < 8:
                ctx.samples.append(s)
        for v in res["viols"]:
            key = (v["what"], json.dumps(v["case"], sort_keys=True))
            if key in seen_v:
                continue
            seen_v.add(key)
            ctx.violation(v["what"], case=v["case"], expected=v["expected"], observed=v["observed"], stream=v["stream"], kf=v["kf"])
        for d in res["dis"]:
            ctx.corr_disagreements += 1
            # the model is the documented meaning (repaired behaviour): where the oracle already flagged the case it is the same finding
            if d["had_violation"]:
                continue
            ctx.violation(f"model and implementation disagree ({d['op']})", case=d["case"] | {"op": d["op"], "line": d["line"]}, observed=d["real"],
                          model=d["model"], stream=d["case"].get("stream", "") + "/model", no_failing_input=True)
    broken = {k: v for k, v in ctx.dist.items() if k.startswith("law:") and k.endswith("BROKEN")}
    if broken:
        ctx.notes.append(f"codec laws assumed by the totality theorems (Lawful) do NOT hold for the installed codecs on some case: {broken}")
    # the two small exhaustive / regex-only streams, in this process
    drv = Driver()
    lines, expect, cases, hits = declared_stream(ctx.seed, ctx.n(20000, 200000))
    for k, v in hits.items():
        ctx.count(k, v)
    from bs4.dammit import EncodingDetector
    for l, e, r, c in zip(lines, expect, drv.ask(lines), cases):
        ctx.case(None)
        if e != r:
            ctx.corr_disagreements += 1
            ctx.violation("model and implementation disagree (find_declared_encoding on a token soup)", case=c | {"line": l[:2000]}, observed=e, model=r,
                          stream="declared-tokens/model", no_failing_input=True)
    lines, expect, cases, hits = declared_str_stream(ctx.seed, ctx.n(3000, 30000))
    for k, v in hits.items():
        ctx.count(k, v)
    for l, e, r, c in zip(lines, expect, drv.ask(lines), cases):
        ctx.case(None)
        if e != ascii_lower_model_to_python(r):
            ctx.corr_disagreements += 1
            ctx.violation("model and implementation disagree (find_declared_encoding on a str document)", case=c | {"line": l[:2000]}, observed=e, model=r,
                          stream="declared-str/model", no_failing_input=True)
    lines, expect, cases, hits = rx_stream(ctx.seed, ctx.n(20000, 200000))
    for k, v in hits.items():
        ctx.count(k, v)
    for l, e, r, c in zip(lines, expect, drv.ask(lines), cases):
        ctx.case(None)
        if e != r:
            ctx.corr_disagreements += 1
            ctx.violation("the model's regex engine and Python's re disagree (semantics of the supported fragment)", case=c | {"line": l[:2000]}, observed=e, model=r,
                          stream="rx/model", no_failing_input=True)
    lines, expect, cases = bom_probe_stream()
    ctx.exhaustive_parts.append(f"strip_byte_order_mark: all {len(lines)} byte strings of length <= 5 over {{00,fe,ff,ef,bb,bf,61}}")
    for l, e, r, c in zip(lines, expect, drv.ask(lines), cases):
        b = bytes.fromhex(c["markup_hex"])
        ctx.case(("bom", c["markup_hex"]) if e.split()[-1] != "none" else None)
        ob = oracle_bom(b)
        real = EncodingDetector.strip_byte_order_mark(b)
        if real != ob:
            ctx.violation("strip_byte_order_mark differs from the BOM table", case=c, expected=[ob[0].hex(), ob[1]], observed=[real[0].hex(), real[1]],
                          stream="bom-exhaustive", kf=kf_of(c, ""))
        if e != r:
            ctx.corr_disagreements += 1
            ctx.violation("model and implementation disagree (strip_byte_order_mark)", case=c | {"line": l}, observed=e, model=r, stream="bom-exhaustive/model",
                          no_failing_input=(real == ob))
    ctx.exhaustive_parts.append("every CHARSET_ALIASES key/value and every spelling of the codec grid as known / user / declared name (stream alias)")


def replay(path):
    v = json.load(open(path))
    c = v["case"]
    _patch_feed()
    if "is_html" not in c or ("markup_hex" not in c and "markup_str" not in c):
        print(json.dumps(v, indent=1)[:3000])
        return 1
    if c.get("stream") == "forms":
        from bs4.dammit import UnicodeDammit, EncodingDetector
        conv = {"tuple": tuple, "iterator": iter, "generator": lambda l: (x for x in l)}.get(c.get("form"), list)
        m = case_markup(c)
        out = []
        for cv in (list, conv):
            with warnings.catch_warnings():
                warnings.simplefilter("ignore")
                d = UnicodeDammit(m, known_definite_encodings=cv(c["known"]), user_encodings=cv(c["user"]), exclude_encodings=cv(c["exclude"]), is_html=c["is_html"])
                det = EncodingDetector(m, known_definite_encodings=cv(c["known"]), user_encodings=cv(c["user"]), exclude_encodings=cv(c["exclude"]), is_html=c["is_html"])
                out.append((d.unicode_markup, d.original_encoding, d.contains_replacement_characters, list(det.encodings), list(det.encodings)))
        print("markup:", repr(m)[:200], " arguments:", {k: c[k] for k in ("known", "user", "exclude", "is_html")})
        print("with lists:        ", out[0])
        print(f"with {c.get('form', 'list')}s:", out[1])
        return 0 if out[0] == out[1] and out[0][3] == out[0][4] else 1
    if c.get("stream") in ("bom-exhaustive",):
        from bs4.dammit import EncodingDetector
        b = bytes.fromhex(c["markup_hex"])
        print("implementation:", EncodingDetector.strip_byte_order_mark(b), " property demands:", oracle_bom(b))
        return 0 if EncodingDetector.strip_byte_order_mark(b) == oracle_bom(b) else 1
    c.setdefault("known", [])
    c.setdefault("user", [])
    c.setdefault("exclude", [])
    c.setdefault("override", [])
    _patch_feed()
    viol, lines, expect, tags, o = eval_case(c)
    if c.get("stream") == "window":
        viol = viol + window_direct(c)
        print("declaration ends at character", c["decl_end"], "; documented windows (XML, <meta>):", c["windows"], "; document length", len(case_markup(c)))
    print("markup:", repr(case_markup(c))[:300])
    print("arguments:", {k: c[k] for k in ("is_html", "known", "override", "user", "exclude")})
    print("property demands:", short(o))
    print("UnicodeDammit gives:", short(real_dammit(c)))
    for x in viol:
        print("VIOLATION:", x["what"], "| expected", x["expected"], "| observed", x["observed"])
    if lines:
        rep = Driver().ask(lines)
        for t, e, r in zip(tags, expect, rep):
            if e is not None and e != r:
                print(f"model disagrees on {t}: real={e[:300]} model={r[:300]}")
                return 1
    return 1 if viol else 0
