"""C08 — output in any target encoding is valid, lossless and self-describing.

Real `encode` / `prettify(encoding)` / `encode_contents` / `decode(eventual_encoding=…)` on generated documents (text and
attribute values over the whole Unicode range, both <meta> styles in many spellings, ~35 target encodings), against
(a) the property statement checked directly on the output (bytes, decodable, re-parse recovers every value, the declaration
names the target, re-detection) and (b) the Lean model (driver ops of Driver/C08.lean): xmlcharrefreplace / str.encode,
CHARSET_RE.sub, set_up_substitutions, the renderer, the reader."""
import codecs
import json
import re

from .common import Ctx, Driver

MANIFEST = dict(
    text=("Lean theorems for every codec record (canEnc/enc/dec; the laws AsciiOK, RoundTrip, AsciiCompat are explicit hypotheses — satisfied, "
          "with proofs, by the seven UTF codecs modelled byte for byte (utf_codecs_lawful: UTF-8/16/32, LE/BE and BOM-writing) and by every "
          "generated CPython single-byte decode table (sb_table_codec_laws over the whole table), and tested per case on the other real "
          "codecs), every tree, every string. SUCCEEDS: str.encode(C, errors) for errors in strict/ignore/replace/xmlcharrefreplace/"
          "backslashreplace; every handler but strict always returns bytes = strict encoding of the handled string (encodeWith_total, "
          "encode_total for encode/prettify(enc)/encode_contents, encode_errors_total for Tag.encode(errors=…), strict_raises_iff, "
          "encode_contents_strict_raises = 4.13.0, handlers_agree_on_encodable, other_handlers_lose). DECODES: bytes_decode, "
          "entry_points_decode, bytes_decode_errors. FALLBACK: fallback_every_code_point (c itself or &#dec; — ASCII, <= 10 chars, digits read "
          "back), fallback_by_codec_class (single-byte: not in the table; UTFs: exactly the lone surrogates), utf_needs_no_references, "
          "encode_default_is_utf8. LOSSLESS: lossless_text / lossless_attr (reading back the replaced, entity-substituted text / quoted "
          "value as html.parser+bs4 / html.unescape do, over the generated windows-1252 and html.unescape tables; hypothesis CharrefSafe; "
          "lossless_*_needs_safe = the two known findings, decided; lookalike_references + minimal_formatter_is_substitute_xml: text that "
          "merely spells a reference comes back verbatim because the generated registry entry escapes every &) and encoding_touches_values_only (tree level: xmlcharrefreplace "
          "commutes with rendering, the markup skeleton is untouched). DECLARATION: meta_rewritten_charset, meta_content_placeholder "
          "(string or list-valued http-equiv), meta_both_styles (+ setUpSubstitutionsOld / meta_both_styles_old_stale / setUp_old_agrees), new_tag_meta_rewritten / "
          "new_tag_content_placeholder / new_tag_attrs_win (a <meta> made with soup.new_tag(attrs=…, **kw)), "
          "item_assigned_not_placeholder / item_assigned_declaration_stale (tag[key] = value leaves a plain string: the known "
          "finding C08-meta-item-assignment as a theorem about the code mirror), "
          "meta_rewritten_content (general shape: any quiet prefix incl. earlier parameters, every key spelling the live pattern accepts, "
          "any value, any target name, continuation), meta_rewritten_content_last, meta_rewritten_content_verbatim, "
          "meta_python_specific_only_removes, content_rewritten_spellings + charset_re_tolerant (decided over the generated shape of the "
          "live CHARSET_RE; line-start form), xml_declaration, python_specific_table / isPythonSpecific_iff (whole table). UNTOUCHED: "
          "meta_untouched(_charset), decode_without_encoding_ignores_placeholders (whole tree, every indentation), and "
          "str_rendering_names_default (str()/decode()/prettify() default to utf-8: NOT untouched). RE-DETECTION: redetect_charset / redetect_content "
          "against C07's model of dammit's html_meta regex (BS.EncodingIn.htmlSearch: leftmost <meta, greedy, LAST charset= of the tag) — "
          "any ASCII prefix in which that regex finds nothing, the tag as _format_tag writes it, any name, any ASCII-compatible codec, "
          "anything after; redetect_*_first_match for the simple first-match finder; redetect_bom (+ needs_nonzero_start witness). What "
          "UnicodeDammit does with the found name (codecs.lookup, trial decoding) is C07's and is checked here on the real code only. Tie: differential runs of the real code against the Lean model — str.encode for 5 handlers byte for byte on 15 "
          "single-byte + 7 UTF codecs and string-level elsewhere, the strict UTF decoders on damaged bytes, BOM sniffing, CHARSET_RE.sub/"
          "search, set_up_substitutions (incl. list-valued http-equiv), decode/prettify/decode_contents/str() renderings with list and None "
          "attribute values, Tag.encode(errors=…), the reader on the writer's image — and the direct oracle on generated documents x "
          "encodings x entry points (bytes; decode; re-parse recovers values; declaration; original_encoding of a re-parse), with target "
          "names from every spelling codecs.lookup accepts call histories (repeated calls, copies, pickles, other documents parsed in between) on the same object, 10 builder "
          "configurations x 8 ways of creating the declaring <meta> (parsed, new_tag attrs=/keywords/both, parsed elsewhere and moved, "
          "item assignment on a fresh tag, re-assignment over a parsed placeholder), "
          "and the rewritten declaration's position swept across the documented detection window (1024 / 2048 / 5 %)."),
    design="7/C08",
    note=("Codec laws are hypotheses, grounded by proofs for the modelled codecs and by testing each other real codec on the characters of "
          "the case: (codec, character) pairs where CPython's codec is not round-trip lawful (shift_jis/euc-jp U+00A5 U+203E, cp932 U+00A2.., "
          "euc-kr U+3164, iso-2022-kr SO/SI, hz on long strings …) are dropped and counted. Known findings re-observed from behaviour each "
          "run (C08-meta-item-assignment: a declaration set by tag[key] = value is never a placeholder — Tag keeps no builder reference): C1 controls via &#128;–&#159; and noncharacters in attribute values (neither repairable in bs4: HTML5 defines &#128;–&#159; "
          "as windows-1252 whatever the numeric form, and attribute values are unescaped by stdlib html.unescape before bs4 sees them), and "
          "C08-pickle-rewrites-declaration (BeautifulSoup.__getstate__ renders with the default eventual_encoding; candidate repair in "
          "fixes/). Not modelled: errors=namereplace/surrogateescape/surrogatepass, formatters other than 'minimal' (oracle only), "
          "string-literal mode details beyond pre/textarea. Text inside script/style and comments is written raw: outside the quantifier, "
          "exercised for 'succeeds and decodes' only and counted. prettify: values compared modulo strip(). The reader model covers only "
          "the writer's image (C09 owns the reader); redetect_charset/redetect_content import C07's Model/EncodingIn.lean (read only): "
          "a change of that model can break these two proofs."),
    technique="Lean 4 proof over abstract lawful codecs (+ concrete UTF/table codecs) + generated tables + differential correspondence + direct Python oracle",
)

ENCODINGS = ["ascii", "latin-1", "windows-1252", "iso-8859-2", "iso-8859-5", "iso-8859-7", "iso-8859-8", "iso-8859-15", "koi8-r",
             "cp1251", "cp437", "mac-roman", "cp1256", "tis-620", "utf-8", "utf-16", "utf-16-le", "utf-16-be", "utf-32", "utf-32-le",
             "utf-32-be", "shift_jis", "euc-jp", "iso-2022-jp", "big5", "gb2312", "gbk", "gb18030", "euc-kr", "cp949", "cp932",
             "iso-2022-kr", "johab", "hz", "utf-7", "cp500", "UTF8", "Latin1", "macintosh"]
# the single-byte codecs whose decode tables are generated into Lean (translate/parts_c08.py SINGLE_BYTE)
SINGLE_BYTE = ["ascii", "latin-1", "windows-1252", "iso-8859-2", "iso-8859-5", "iso-8859-7", "iso-8859-8", "iso-8859-15",
               "koi8-r", "cp1251", "cp437", "mac-roman", "cp1256", "tis-620", "cp500"]
# the property statement, hard-coded (NOT read from the live table)
PROP_PYTHON_SPECIFIC = ["idna", "mbcs", "oem", "palmos", "punycode", "raw_unicode_escape", "undefined", "unicode_escape",
                        "raw-unicode-escape", "unicode-escape", "string-escape", "string_escape"]
# Spellings of target-encoding names. `codecs.lookup` lower-cases a name and collapses every run of non-alphanumeric
# characters to `_` before consulting the alias table, so digit-leading labels ("866", "1252"), mixed case, and names with
# spaces or regex/format metacharacters ("utf\\8", "utf$8", "UTF{8", "latin%1", "(utf8)", "latin\\1") all name real codecs
# and may be passed to encode()/prettify()/encode_contents(). Each candidate is validated on the running CPython
# (valid_target_names); the declaration must carry the name *as given*.
DIGIT_LABELS = ["866", "437", "1252", "8859", "936", "950", "646", "850", "932", "852", "855", "857", "858", "860", "861", "862",
                "863", "865", "869", "874", "949", "1250", "1251", "1253", "1254", "1255", "1256", "1257", "1258", "1125",
                "037", "500", "775", "1026", "1140", "273", "424"]
SPELLINGS = ["ISO_8859-1", "iso8859_1", "Latin_1", "LATIN1", "latin 1", "Latin 1", "l1", "L1", "latin%1", "iso\\8859\\1", "latin\\1",
             "ISO-8859-1:1987", "iso-ir-100", "csISOLatin1", "IBM819", "cp819", "8859\\", "\\8859",
             "utf\\8", "utf$8", "UTF{8", "(utf8)", "utf-8\\", "utf+8", "utf*8", "U8", "UTF", "Utf_8", "utf 8", " utf-8", "utf-8 ", "[utf-8]",
             "utf|8", "utf?8", "utf^8", "utf.8", "utf#8", "utf@8", "utf~8", "utf`8", "utf!8", "utf=8", "utf,8", "utf:8", "{utf}{8}", "%(utf)s8",
             "${utf}8", "\\g<1>utf8", "utf8\\g<1>", "\\1utf8", "utf\\g<1>8", "\\utf8", "utf8$", "^utf8$", "utf-8*", "u8+",
             "shift^jis", "Shift_JIS", "SJIS", "s_jis", "csShiftJIS", "EUC_JP", "eucjp", "ujis", "Big5", "big5-tw", "GB2312", "chinese",
             "GBK", "CP936", "gb18030-2000", "euc_kr", "korean", "ks_c-5601-1987", "uhc", "ms932", "mskanji", "ISO-2022-JP", "csiso2022jp",
             "Windows-1251", "windows_1252", "Windows\\1252", "cp-1252"[:0] or "CP1252", "KOI8_R", "koi8\\r", "IBM437", "ibm866", "cp866",
             "mac_roman", "MacRoman", "macintosh", "ASCII", "US-ASCII", "us\\ascii", "ANSI_X3.4-1968", "iso-ir-6", "iso646-us",
             "utf_16", "UTF-16", "utf\\16", "U16", "utf_16_le", "UTF-16LE", "utf\\16\\le", "UTF-16BE", "utf_32", "UTF-32", "U32", "utf\\32\\be",
             "iso-8859-2", "latin2", "L2", "ISO_8859-5:1988", "cyrillic", "greek8", "ELOT_928", "hebrew", "latin9", "L9", "iso-8859-15",
             "thai", "tis620", "iso8859_11", "cp874", "arabic", "windows-1256", "johab", "cp1361", "hz-gb-2312", "hzgb", "U7", "utf_7",
             "ebcdic-cp-us"[:0] or "cp037", "IBM500", "cp500"]
PLAIN_NAME = re.compile(r"[^\s/;'\"<>&]+\Z")

_NAMES = {}


def valid_target_names():
    """the candidate spellings that this CPython accepts as a real (text, non Python-specific) character encoding"""
    if _NAMES:
        return _NAMES
    digit, other, rejected = [], [], []
    for n in DIGIT_LABELS + SPELLINGS:
        if not n or n in PROP_PYTHON_SPECIFIC:
            continue
        try:
            ci = codecs.lookup(n)
            "a".encode(n)
            ok = ci._is_text_encoding and ci.name not in {codecs.lookup(x).name for x in ("idna", "punycode", "unicode_escape",
                                                                                           "raw_unicode_escape", "undefined")}
        except (LookupError, UnicodeError, ValueError):
            ok = False
        if not ok:
            rejected.append(n)
        elif n[0].isdigit():
            digit.append(n)
        else:
            other.append(n)
    _NAMES.update(digit=digit, other=other, rejected=rejected, all=digit + other)
    return _NAMES


def sb_name(enc):
    """the generated single-byte table (by its SINGLE_BYTE name) that a spelling resolves to, or None"""
    try:
        n = codecs.lookup(enc).name
    except LookupError:
        return None
    for x in SINGLE_BYTE:
        if codecs.lookup(x).name == n:
            return x
    return None


def pick_encoding(r):
    """a target encoding *name*: a canonical name of the list, or (half of the time) one of the accepted other spellings"""
    k = r.random()
    names = valid_target_names()
    if k < 0.5:
        return r.choice(ENCODINGS)
    if k < 0.7 and names["digit"]:
        return r.choice(names["digit"])
    return r.choice(names["other"])


BOM_WRITERS = {"utf-16": "utf-16", "utf-32": "utf-32"}
KF_C1 = "C08-c1-controls-via-charref"
KF_NONCHAR = "C08-noncharacters-in-attributes"
KF_PICKLE = "C08-pickle-rewrites-declaration"
KF_HTML5 = "C08-html5-formatter-empty-charset"
KF_ITEM = "C08-meta-item-assignment"
ITEM_HOWS = ("item_assignment", "reassigned_same", "reassigned_other")


_HIST_OK = []   # per step of the history applied last: did it go through (apply_history)


def item_kf(recipe, history, which):
    """classifier of the item-assignment finding, from the case itself: the declaring value `which` ("charset" / "content")
    of the <meta> that ends up in the rendered tree was last written by `tag[key] = value` (a pickle round trip afterwards
    re-parses the markup and installs placeholders again, so the finding no longer applies then)"""
    meta = recipe["meta"]
    how = meta.get("how", "parsed")
    healed = any(st[0] == "pickle" and ok for st, ok in zip(history or [], _HIST_OK))   # only a pickle step that really happened
    if how not in ITEM_HOWS or healed:
        return None
    if how == "item_assignment":
        return KF_ITEM            # every attribute of that tag was assigned
    assigned = "charset" if meta["style"] == "charset" else "content"
    return KF_ITEM if which == assigned else None
ASCII_SPACES = " \n\t\x0c\r"


def parsed_ws(text):
    """BeautifulSoup.endData (input side, not this property): a text node of only ASCII white space is stored as one
    newline or one space"""
    if text and not text.strip(ASCII_SPACES):
        return "\n" if "\n" in text else " "
    return text

_E = {}


def E():
    if _E:
        return _E
    import bs4
    import bs4.element as el
    _E["bs4"] = bs4
    _E["el"] = el
    _E["BeautifulSoup"] = bs4.BeautifulSoup
    return _E


def tok(s) -> str:
    return ",".join(str(ord(c)) for c in s) if s else "-"


def btok(b: bytes) -> str:
    return ",".join(str(x) for x in b) if b else "-"


def untok(t: str) -> str:
    return "" if t in ("-", "") else "".join(chr(int(x)) for x in t.split(","))


# --------------------------------------------------------------------------------------
# the laws of a real codec, tested (this is what "lawful" is grounded on)
# --------------------------------------------------------------------------------------
class CodecFacts:
    def __init__(self, enc):
        self.enc = enc
        self._can = {}
        self._law = {}
        self.ascii_ok = all(self.can(chr(c)) for c in range(128))
        self.ascii_compat = all(self._enc1(chr(c)) == bytes([c]) for c in range(128))
        self.norm = codecs.lookup(enc).name

    def _enc1(self, ch):
        try:
            return ch.encode(self.enc)
        except UnicodeError:
            return None

    def can(self, ch):
        v = self._can.get(ch)
        if v is None:
            v = self._can[ch] = self._enc1(ch) is not None
        return v

    def lawful(self, ch):
        """round-trip law at this character, alone and between two ASCII letters (stateful codecs)"""
        v = self._law.get(ch)
        if v is None:
            if not self.can(ch):
                v = True
            else:
                try:
                    v = ch.encode(self.enc).decode(self.enc) == ch and ("a" + ch + "b").encode(self.enc).decode(self.enc) == "a" + ch + "b"
                except UnicodeError:
                    v = False
            self._law[ch] = v
        return v

    def xcr_ref(self, s):
        """the property statement: unencodable characters as decimal references (independent of Lean and of CPython's handler)"""
        return "".join(ch if self.can(ch) else "&#%d;" % ord(ch) for ch in s)


_FACTS = {}


def facts(enc) -> CodecFacts:
    if enc not in _FACTS:
        _FACTS[enc] = CodecFacts(enc)
    return _FACTS[enc]


UTF_LEAN = {"utf-8": "utf-8", "utf-16": "utf-16", "utf-16-le": "utf-16-le", "utf-16-be": "utf-16-be", "utf-32": "utf-32",
            "utf-32-le": "utf-32-le", "utf-32-be": "utf-32-be"}
HANDLERS = {"strict": "s", "ignore": "i", "replace": "r", "xmlcharrefreplace": "x", "backslashreplace": "b"}


def lean_codec(enc):
    """the Lean codec that is this encoding byte for byte: a generated single-byte table or one of the UTFs; else None"""
    if sb_name(enc):
        return "sb:" + tok(sb_name(enc))
    try:
        n = codecs.lookup(enc).name
    except LookupError:
        return None
    if n in UTF_LEAN:
        return "utf:" + tok(UTF_LEAN[n])
    return None


def codec_tok(enc, s):
    """protocol codec for `enc` restricted to the characters of `s`"""
    if lean_codec(enc):
        return lean_codec(enc)
    f = facts(enc)
    encodable = sorted({c for c in s if ord(c) >= 128 and f.can(c)})
    return "set:1:" + tok("".join(encodable))


def is_c1(ch):
    return 0x80 <= ord(ch) <= 0x9F


def is_nonchar(ch):
    c = ord(ch)
    return 0xFDD0 <= c <= 0xFDEF or (c & 0xFFFF) >= 0xFFFE


def is_surrogate(ch):
    return 0xD800 <= ord(ch) <= 0xDFFF


def classify_loss(value, enc, is_attr):
    """known-finding class of a lost value, from the value and the target encoding alone"""
    f = facts(enc)
    if any(is_c1(ch) and not f.can(ch) for ch in value):
        return KF_C1
    if is_attr and any(is_nonchar(ch) and not f.can(ch) for ch in value):
        return KF_NONCHAR
    return None


# --------------------------------------------------------------------------------------
# characters
# --------------------------------------------------------------------------------------
POOLS = {
    "ascii": "abcXYZ 019&<>\"'#;=/-_.,:!?()[]{}|\\~`@$%^*+\t\n",
    "ws": " \t\n\r\x0c\x0b\x1c\x85\xa0   　",
    "latin1": "\xa1\xa3\xa5\xa9\xab\xbf\xc0\xc9\xd7\xdf\xe9\xf1\xfc\xff\xad",
    "latinx": "ĀŁőŠšžŒœŸ€‘”•…™",
    "greek": "ΑΩαωά΄",
    "cyrillic": "АЯаяёЁҐ№",
    "hebrew": "אתְ‎",
    "arabic": "اي،ٹ",
    "thai": "กฮ฿๛",
    "cjk": "一中日本語龥㐀、。！Ａ",
    "kana": "あんアンｱー",
    "hangul": "가힣ᄀㄱ한",
    "symbols": "☃♥→∞≠§¶—─█■",
    "boxes": "═║░▒▓⌠⌡∙",
    "astral": "\U0001f600\U0001f4a9\U00010000\U0001d11e\U00020000\U0002a6d6\U000e0001\U000f0000\U0010fffd\U0010ffff\U0001fffe",
    "edges": "\x7f\xa0\xffĀ߿ࠀ࿿က῿ ⿿　퟿豈﻿�￼",
    "bidi": "‏‮⁦​‍️́",
}
C1 = "".join(chr(c) for c in range(0x80, 0xA0))
NONCHARS = "﷐﷯￾￿\U0001ffff\U0010fffe"
CTRL = "\x00\x01\x08\x0e\x0f\x1b\x1f"


def rand_char(r):
    k = r.random()
    if k < 0.30:
        return r.choice(POOLS["ascii"])
    if k < 0.80:
        return r.choice(POOLS[r.choice(list(POOLS))])
    if k < 0.93:
        # any plane, any code point that is a character position (surrogates excluded: not Unicode scalar values)
        while True:
            c = r.randrange(0x110000) if r.random() < 0.6 else r.randrange(0x10000)
            if not 0xD800 <= c <= 0xDFFF:
                return chr(c)
    if k < 0.96:
        return r.choice(CTRL)
    if k < 0.98:
        # block edges of the BMP
        b = r.randrange(256) * 256
        return chr(b + r.choice([0, 1, 0x7f, 0x80, 0xfe, 0xff])) if not 0xD8 <= b // 256 <= 0xDF else ""
    return r.choice(POOLS["ws"])


# text that merely SPELLS a reference (a page explaining HTML entities): the writer must escape its `&`, or the bytes cannot be
# told from real xmlcharrefreplace output and the value is not recovered
LOOKALIKES = ["&#233;", "&#xE9;", "&#Xe9;", "&eacute;", "&amp;", "&lt;", "&gt;", "&quot;", "&apos;", "&nbsp;", "a&b;c", "x=a&b;y=c",
              "&#9731;", "&#x2603;", "&#128;", "&#0;", "&#65", "&#x41", "&copy", "&notit;", "&lang;", "&amp;amp;", "&amp;#233;",
              "&#1114112;", "&#xD800;", "&;", "&#;", "&#x;", "&a1;", "&_x;", "AT&T;", "&Eacute;&eacute;"]


def rand_value(r, enc, ctx, bait=None, maxlen=8):
    """a text / attribute value; characters at which the target codec is not round-trip lawful are dropped and counted"""
    f = facts(enc)
    n = r.choice([0, 1, 1, 2, 3, 4, 6, maxlen])
    theme = r.choice(list(POOLS))
    out = []
    for _ in range(n):
        ch = r.choice(POOLS[theme]) if r.random() < 0.35 else rand_char(r)
        if (is_c1(ch) or is_nonchar(ch)) and bait is None:
            continue  # these go into bait values only, so every other value is compared strictly
        out.append(ch)
    if bait == "c1":
        out.insert(r.randrange(len(out) + 1), r.choice(C1))
    elif bait == "nonchar":
        out.insert(r.randrange(len(out) + 1), r.choice(NONCHARS))
    if r.random() < 0.12:
        # a look-alike reference, between whatever neighbours the value has (often characters the target cannot encode)
        out.insert(r.randrange(len(out) + 1), r.choice(LOOKALIKES))
        ctx.count("value:with-lookalike-reference")
    res = []
    for ch in "".join(out):
        if f.lawful(ch):
            res.append(ch)
        else:
            ctx.count("excluded:unlawful-pair:" + f.norm)
            ctx.extra.setdefault("unlawful_pairs", {}).setdefault(f.norm, set()).add("U+%04X" % ord(ch))
    return "".join(res)


# --------------------------------------------------------------------------------------
# <meta> declarations
# --------------------------------------------------------------------------------------
KEY_CASES = ["charset", "charset", "CHARSET", "Charset", "charSet", "cHaRsEt"]
WS_EQ = ["", "", " ", "  ", "\t"]   # around `=`: ASCII only — the input-side detector (a bytes pattern) reads nothing else there
MIMES = ["text/html", "text/html", "application/xhtml+xml", "text/html ", "x", "text/html\\1", "\\g<2>", "(text)/html$"]
OLD_NAMES = ["utf8", "utf-8", "ISO-8859-1", "windows-1252", "x", "koi8-r", "shift_jis", "",
             # digits and regex/format metacharacters: the rewrite must be literal both ways
             "866", "1252", "\\g<1>", "\\1", "$1", "%s", "{0}", "x\\", "a(b", "utf\\8", "[a-z]+", ".*", "\\g<0>\\2"]
HTTP_EQUIV = ["Content-Type", "content-type", "CONTENT-TYPE", "Content-type"]


def content_value(p):
    return p["mime"] + p["before"] + p.get("sep", ";") + p["w0"] + p["key"] + p["w1"] + "=" + p["w2"] + p["old"] + p["after"]


def content_expected(p, e, pyspec):
    """the property statement on the structure: only the charset value changes; the whole parameter (with its `;`, or from
    the start of its line) goes for a Python-specific name"""
    sep = p.get("sep", ";")
    if pyspec:
        return p["mime"] + p["before"] + ("" if sep == ";" else sep) + p["after"]
    return p["mime"] + p["before"] + sep + p["w0"] + p["key"] + p["w1"] + "=" + p["w2"] + e + p["after"]


def rand_content_decl(r):
    """the parts of a content value; every spelling is one that the input-side detector (dammit: case-insensitive, white
    space around `=`) reads as a declaration"""
    return dict(mime=r.choice(MIMES), sep=r.choice([";", ";", ";", ";", "\n"]), before=r.choice(["", "", "", "; x=y", ";a=b", "; x=\\1", ";\\g<1>=%s"]), w0=r.choice(["", " ", " ", "  ", "\n", "\n ", " ", "\xa0", "\u3000"]),   # before the key anything `\s` (str pattern: Unicode) may stand
                key=r.choice(KEY_CASES), w1=r.choice(WS_EQ), w2=r.choice(WS_EQ), old=r.choice(OLD_NAMES),
                after=r.choice(["", "", "", "; x=y", ";q", ";", "; y=\\g<1>", ";\\2{0}$"]))


def meta_markup(r):
    """-> the <meta> part of a recipe: markup, style, original attribute value, parts of a content declaration"""
    k = r.random()
    if k < 0.15:
        return dict(markup="", style="none")
    if k < 0.50:
        old = r.choice(OLD_NAMES)
        extra = r.choice(["", "", "", ' id="m"', ' name="x" content="y"', f' content="text/html; charset={old}" http-equiv="content-type"'])
        return dict(markup=f'<meta charset="{old}"{extra}>', style="charset", orig=old, both="http-equiv" in extra)
    parts = rand_content_decl(r)
    value = content_value(parts)
    he = r.choice(HTTP_EQUIV)
    a, b = f'http-equiv="{he}"', f'content="{value}"'
    return dict(markup="<meta " + (a + " " + b if r.random() < 0.5 else b + " " + a) + ">", style="content", orig=value, parts=parts)


# --------------------------------------------------------------------------------------
# documents
# --------------------------------------------------------------------------------------
ELEMS = ["p", "div", "span", "b", "i", "a", "li", "td", "em", "section"]
VOIDS = ["br", "img", "hr", "input"]
ATTRS = ["title", "alt", "data-v", "lang", "href", "value", "data-x"]


def gen_items(r, enc, ctx, depth, counter):
    items = []
    n = r.choice([1, 1, 2, 3]) if depth == 0 else r.choice([0, 1, 2])
    prev_text = False
    for _ in range(n):
        if not prev_text and r.random() < 0.45:
            bait = None
            if r.random() < 0.05:
                bait = "c1"
            v = rand_value(r, enc, ctx, bait)
            if v:
                items.append({"text": v, "bait": bait})
                prev_text = True
            continue
        prev_text = False
        counter[0] += 1
        my_id = "n%d" % counter[0]
        void = r.random() < 0.15
        name = r.choice(VOIDS if void else ELEMS)
        attrs = []
        for an in r.sample(ATTRS, r.choice([0, 1, 1, 2, 3])):
            bait = None
            k = r.random()
            if k < 0.04:
                bait = "c1"
            elif k < 0.08:
                bait = "nonchar"
            attrs.append([an, rand_value(r, enc, ctx, bait), bait])
        kids = [] if void or depth >= 2 else gen_items(r, enc, ctx, depth + 1, counter)
        item = {"name": name, "id": my_id, "attrs": attrs, "kids": kids}
        if r.random() < 0.2:
            # a multi-valued attribute: a list value, written as " ".join (items without white space, as a re-parse splits there)
            cls = ["".join(ch for ch in rand_value(r, enc, ctx, None, 4) if not ch.isspace()) for _ in range(r.choice([1, 2, 3]))]
            item["cls"] = [c for c in cls if c]
        if r.random() < 0.08:
            item["none_attr"] = True   # a value None (plain-dict attrs): written as the bare name
        items.append(item)
    return items


# builder configurations (the property's "configurations"): none of them has anything to do with charset declarations, so
# none may change what is rewritten
CONFIG_NAMES = ["default", "default", "default", "mva_none", "mva_empty", "mva_custom", "builder_obj", "builder_obj_default",
                "no_line_numbers", "dup_replace", "subclass_tag", "string_containers_empty"]
# how the declaring <meta> gets into the tree
HOWS = ["parsed", "parsed", "parsed", "new_tag_attrs", "new_tag_kw", "new_tag_attrs_over_kw", "parsed_fragment",
        "item_assignment", "reassigned_same", "reassigned_other"]
NOT_KEYWORDS = {"name", "namespace", "nsprefix", "attrs", "sourceline", "sourcepos", "string", "self"}


def config_kwargs(cfg):
    """-> (kwargs for BeautifulSoup, whether to pass the features argument)"""
    e = E()
    from bs4.builder import HTMLParserTreeBuilder
    if cfg == "default":
        return {}, True
    if cfg == "mva_none":
        return {"multi_valued_attributes": None}, True
    if cfg == "mva_empty":
        return {"multi_valued_attributes": {}}, True
    if cfg == "mva_custom":
        return {"multi_valued_attributes": {"*": ["class", "rel"], "td": ["headers"]}}, True
    if cfg == "builder_obj":
        return {"builder": HTMLParserTreeBuilder(multi_valued_attributes=None)}, False
    if cfg == "builder_obj_default":
        return {"builder": HTMLParserTreeBuilder()}, False
    if cfg == "no_line_numbers":
        return {"store_line_numbers": False}, True
    if cfg == "dup_replace":
        return {"on_duplicate_attribute": "replace"}, True
    if cfg == "subclass_tag":
        if "SubTag" not in e:
            class SubTag(e["el"].Tag):
                pass
            SubTag.__qualname__ = "SubTag"      # reachable as harness.c08.SubTag, so that trees holding it can be pickled
            globals()["SubTag"] = SubTag
            e["SubTag"] = SubTag
        return {"element_classes": {e["el"].Tag: e["SubTag"]}}, True
    if cfg == "string_containers_empty":
        return {"string_containers": {}}, True
    raise KeyError(cfg)


def make_soup(markup, cfg):
    kw, feat = config_kwargs(cfg)
    BS = E()["BeautifulSoup"]
    return BS(markup, "html.parser", **kw) if feat else BS(markup, **kw)


def make_meta(soup, markup, how, cfg):
    """the declaring <meta> of `markup`, created through the API on `soup`"""
    src = E()["BeautifulSoup"](markup, "html.parser").find("meta")
    d = {k: str(v) for k, v in src.attrs.items()}
    if how == "new_tag_attrs":
        return soup.new_tag("meta", attrs=dict(d))
    if how == "new_tag_kw":
        kw = {k: v for k, v in d.items() if k.isidentifier() and k not in NOT_KEYWORDS}
        rest = {k: v for k, v in d.items() if k not in kw}
        return soup.new_tag("meta", attrs=(rest or None), **kw)
    if how == "new_tag_attrs_over_kw":
        # every identifier-named attribute also passed as a keyword with another value: the dictionary wins
        kw = {k: "overridden-" + k for k in d if k.isidentifier() and k not in NOT_KEYWORDS}
        return soup.new_tag("meta", attrs=dict(d), **kw)
    if how == "parsed_fragment":
        # parsed in a soup of its own (same configuration), then moved over
        return make_soup(markup, cfg).find("meta").extract()
    if how == "item_assignment":
        # m = soup.new_tag('meta'); m['charset'] = …  /  m['http-equiv'] = …; m['content'] = …
        m = soup.new_tag("meta")
        for k, v in d.items():
            m[k] = v
        return m
    if how in ("reassigned_same", "reassigned_other"):
        # a parsed declaring <meta> whose declaring value is assigned again: the same text, or another value and then the text
        m = make_soup(markup, cfg).find("meta").extract()
        key = "charset" if "charset" in d else "content"
        if how == "reassigned_other":
            m[key] = "zz-initial"
        m[key] = d[key]
        return m
    raise KeyError(how)


def build_doc(recipe):
    e = E()
    NS = e["el"].NavigableString
    meta = recipe["meta"]
    cfg = recipe.get("config", "default")
    how = meta.get("how", "parsed")
    if how == "parsed" or not meta["markup"]:
        soup = make_soup("<html><head><title>t</title>" + meta.get("spacer", "") + meta["markup"]
                         + meta.get("second", "") + "</head><body></body></html>", cfg)
    else:
        soup = make_soup("<html><head><title>t</title>" + meta.get("spacer", "") + '<meta id="slot-for-the-declaration">'
                         + meta.get("second", "") + "</head><body></body></html>", cfg)
        soup.find(id="slot-for-the-declaration").replace_with(make_meta(soup, meta["markup"], how, cfg))

    def add(parent, items):
        for it in items:
            if "text" in it:
                parent.append(NS(it["text"]))
            else:
                t = soup.new_tag(it["name"])
                t["id"] = it["id"]
                for an, v, _ in it["attrs"]:
                    t[an] = v
                if it.get("cls"):
                    t["class"] = list(it["cls"])
                if it.get("none_attr"):
                    t.attrs = dict(t.attrs)
                    t.attrs["data-none"] = None
                parent.append(t)
                add(t, it["kids"])
    add(soup.body, recipe["items"])
    return soup


def apply_history(soup, history):
    """earlier calls on the same object (results discarded) and copies of it: none of this may change what a later
    rendering says — placeholders are not consumed, cached or lost"""
    import copy
    import pickle
    del _HIST_OK[:]
    for step in history or []:
        op = step[0]
        _HIST_OK.append(True)
        try:
            if op == "call":
                call_entry(soup, step[1], step[2])
            elif op == "decode":
                soup.decode(eventual_encoding=step[1])
            elif op == "str":
                str(soup)
            elif op == "copy":
                soup = copy.copy(soup)
            elif op == "deepcopy":
                soup = copy.deepcopy(soup)
            elif op == "pickle":
                soup = pickle.loads(pickle.dumps(soup))
            elif op == "parse":
                # another document goes through the same process in between: nothing of it may leak into this one
                E()["BeautifulSoup"](step[1], "html.parser").encode(step[2] if len(step) > 2 else "utf-8")
            elif op == "placeholder":
                E()["el"].ContentMetaAttributeValue(step[1])
                E()["el"].CharsetMetaAttributeValue(step[1])
        except Exception:
            _HIST_OK[-1] = False   # a raising call is a violation where that call is itself the case; here only its after-effects matter
    return soup


def walk_items(items):
    for it in items:
        if "name" in it:
            yield it
            yield from walk_items(it["kids"])


def tree_tokens(tag):
    e = E()
    el = e["el"]
    out = []

    def rec(n):
        if isinstance(n, el.Tag):
            out.extend(["T", tok(n.name), str(len(n.attrs))])
            for k, v in n.attrs.items():
                if isinstance(v, el.CharsetMetaAttributeValue):
                    out.extend([tok(k), "c", tok(v.original_value)])
                elif isinstance(v, el.ContentMetaAttributeValue):
                    out.extend([tok(k), "m", tok(v.original_value)])
                elif v is None:
                    out.extend([tok(k), "n", "-"])
                elif isinstance(v, (list, tuple)):
                    out.extend([tok(k), "l", ";".join(tok(x) for x in v) if v else "_"])
                else:
                    out.extend([tok(k), "p", tok(str(v))])
            out.append(str(len(n.contents)))
            for c in n.contents:
                rec(c)
        else:
            out.extend(["S", tok(str(n))])
    rec(tag)
    return " ".join(out)


DETECT_RE = re.compile(r"charset\s*=\s*[\"']?([^;\"'>\s/]*)", re.I | re.A)


def declared_in(meta, style):
    """what a reader takes as the declared charset of this <meta> (case-insensitive, space-tolerant)"""
    if style == "charset":
        return meta.get("charset")
    m = DETECT_RE.search(meta.get("content", ""))
    return m.group(1) if m else None


def direct_text(tag, NS):
    return [str(c) for c in tag.contents if isinstance(c, NS)]


PER_KIND = 3


def report(ctx, what, kind=None, **kw):
    """ctx.violation, keeping at most PER_KIND replays per kind of failure (the rest is counted) so that the replay list
    shows every kind; known-finding hits are always passed through (they are only counted)"""
    kf = kw.get("kf")
    if kf is not None and kf in ctx.known:
        return ctx.violation(what, **kw)
    key = "violations:" + (kind or what)[:80] + ":" + kw.get("stream", "")
    ctx.count(key)
    if ctx.dist[key] <= PER_KIND:
        ctx.violation(what, **kw)
    else:
        ctx.extra.setdefault("violations_not_listed", 0)
        ctx.extra["violations_not_listed"] += 1


class Batch:
    """model questions queued with what the real code answered"""

    def __init__(self, ctx):
        self.ctx = ctx
        self.q = []
        self.reported = {}

    def ask(self, stream, line, real, case, want=None):
        self.q.append((stream, line, real, case, want))

    def flush(self):
        if not self.q:
            return
        ctx = self.ctx
        rep = Driver().ask(["c08 " + q[1] for q in self.q])
        for (stream, line, real, case, want), ans in zip(self.q, rep):
            ctx.count(f"{stream}:model-questions")
            if ans != real:
                ctx.corr_disagreements += 1
                ctx.count(f"{stream}:model-disagrees")
                if self.reported.get(stream, 0) < 4:
                    self.reported[stream] = self.reported.get(stream, 0) + 1
                    ctx.violation("Lean model and implementation disagree (" + stream + ")", case=case | {"request": line[:2000]},
                                  observed=real[:2000], expected=want, model=ans[:2000], stream=stream + "-correspondence",
                                  no_failing_input=(want is None or want == real))
        self.q = []


# --------------------------------------------------------------------------------------
# stream: str.encode(enc, handler) and xmlcharrefreplace
# --------------------------------------------------------------------------------------
def check_encode_string(ctx, batch, enc, s, stream):
    f = facts(enc)
    case = {"op": "xcr", "encoding": enc, "string": [ord(c) for c in s]}
    try:
        out = s.encode(enc, "xmlcharrefreplace")
    except UnicodeError as ex:
        # not bs4's code: CPython's handler. The model says this cannot happen for an ASCII-capable codec.
        report(ctx, "str.encode(enc,'xmlcharrefreplace') raised", case=case, observed=repr(ex), stream=stream, no_failing_input=True)
        return
    ref = f.xcr_ref(s)
    lawful = all(f.lawful(ch) for ch in s)
    if lawful:
        try:
            lawful = ref.encode(enc).decode(enc) == ref
        except UnicodeError:
            lawful = False
    lc = lean_codec(enc)
    if lc:
        batch.ask(stream, f"enc {lc} x {tok(s)}", "B:" + btok(out), case, want="B:" + btok(ref.encode(enc)))
        batch.ask(stream, f"dec {lc} {btok(out)}", tok(out.decode(enc)), case)
    # every error handler: byte for byte where Lean has the codec, else on the decoded string (identity "bytes")
    for hname, h in HANDLERS.items():
        if hname == "xmlcharrefreplace":
            continue
        try:
            real = "B:" + btok(s.encode(enc, hname))
        except UnicodeEncodeError as ex:
            real = f"E:{ex.start}:{ord(s[ex.start])}"
        if lc:
            batch.ask(stream + "-errors", f"enc {lc} {h} {tok(s)}", real, case | {"errors": hname})
        elif lawful and f.ascii_ok:
            if real.startswith("B:"):
                try:
                    real = "B:" + tok(s.encode(enc, hname).decode(enc))
                except UnicodeError:
                    continue
            batch.ask(stream + "-errors", f"enc {codec_tok(enc, s)} {h} {tok(s)}", real, case | {"errors": hname})
    if lawful:
        try:
            back = out.decode(enc)
        except UnicodeError as ex:
            report(ctx, "bytes do not decode although the codec is lawful on every character of the string", case=case,
                          observed=repr(ex), stream=stream, no_failing_input=True)
            return
        batch.ask(stream, f"xcr {codec_tok(enc, s)} {tok(s)}", tok(back), case, want=tok(ref))
        ctx.case(("xcr", enc, s) if any(not f.can(c) for c in s) and any(f.can(c) and ord(c) > 127 for c in s) else None)
    else:
        ctx.count("excluded:unlawful-string:" + f.norm)
        ctx.case(None)


def stream_xcr(ctx, batch):
    r = ctx.rng("xcr")
    for i in range(ctx.n(4000, 30000)):
        enc = r.choice(ENCODINGS)
        s = "".join(rand_char(r) for _ in range(r.choice([1, 2, 5, 12])))
        if r.random() < 0.1:
            s += chr(r.randrange(0xD800, 0xE000))  # a lone surrogate: still never raises
            ctx.count("xcr:with-surrogate")
        if r.random() < 0.15:
            s += r.choice(C1 + NONCHARS)
        check_encode_string(ctx, batch, enc, s, "xcr")
    # the BMP in blocks of 256 (every block in thorough), single characters side by side
    blocks = list(range(256)) if ctx.thorough else sorted(set(r.sample(range(256), 20)) | {0, 1, 0x20, 0x30, 0x4e, 0xac, 0xfd, 0xff})
    encs = ENCODINGS if ctx.thorough else r.sample(ENCODINGS, 12) + ["ascii", "cp932", "euc-kr"]
    for enc in encs:
        f = facts(enc)
        for b in blocks:
            if 0xD8 <= b <= 0xDF:
                continue
            chars = [chr(b * 256 + i) for i in range(256)]
            good = [ch for ch in chars if f.lawful(ch)]
            ctx.count("excluded:unlawful-pair:" + f.norm, len(chars) - len(good))
            check_encode_string(ctx, batch, enc, "".join(good), "xcr-bmp")
    for p in range(1, 17):
        for enc in ("ascii", "utf-8", "gb18030", "utf-16", "shift_jis", "koi8-r"):
            s = "".join(chr(p * 0x10000 + o) for o in (0, 1, 0x7FFF, 0xFFFD, 0xFFFE, 0xFFFF))
            check_encode_string(ctx, batch, enc, s, "xcr-planes")
    if ctx.thorough:
        ctx.exhaustive_parts.append("xmlcharrefreplace/strict encode: every BMP code point (surrogates excluded) x every encoding of the list, in blocks of 256")
    batch.flush()


# --------------------------------------------------------------------------------------
# stream: substitute_encoding
# --------------------------------------------------------------------------------------
def check_subst(ctx, batch, orig, e, expected, stream, extra=None):
    el = E()["el"]
    case = {"op": "subst", "content": orig, "eventual_encoding": e} | (extra or {})
    try:
        real = el.ContentMetaAttributeValue(orig).substitute_encoding(e)
    except Exception as ex:
        real = "RAISED " + type(ex).__name__ + ": " + str(ex)[:80]
    batch.ask(stream, f"subc {tok(e)} {tok(orig)}", tok(real), case, want=None if expected is None else tok(expected))
    batch.ask(stream, f"search {tok(orig)}", "1" if el.ContentMetaAttributeValue.CHARSET_RE.search(orig) else "0", case)
    if expected is not None and real != expected:
        report(ctx, "a charset declaration that the input side reads is not rewritten on output (ContentMetaAttributeValue.substitute_encoding)",
                      case=case, expected=expected, observed=real, stream=stream)
    ctx.case(("subst", orig, e) if expected is not None and expected != orig else None)


def stream_subst(ctx, batch):
    el = E()["el"]
    r = ctx.rng("subst")
    targets = ["utf-8", "koi8-r", "shift_jis", "ISO-8859-15"]
    # the spelling grid, exhaustively: case x white space around '=' x lead-in x value/tail
    for key in ["charset", "CHARSET", "Charset", "cHaRsEt"]:
        for w1 in ["", " ", "\t "]:
            for w2 in ["", " ", "  "]:
                for lead in ["text/html; ", "text/html;", "text/html;\n", "", "a=b;c=d; ", "text/html\n", "text/html\n  "]:
                    for old, after in [("utf8", ""), ("x", "; y=z"), ("", ""), ("iso-8859-1", ";")]:
                        head = lead + key + w1 + "=" + w2
                        orig = head + old + after
                        sp = dict(key=key, w1=w1, w2=w2)
                        ctx.count("subst:spelling:" + ("lower" if key == "charset" else "other-case") + ("+ws" if w1 or w2 else ""))
                        check_subst(ctx, batch, orig, "koi8-r", head + "koi8-r" + after, "subst-grid", sp)
                        if lead.rstrip().endswith(";"):
                            gone = lead.rstrip()[:-1] + after
                        elif "\n" in lead:
                            gone = lead[: lead.index("\n") + 1] + after   # the match starts at the line start
                        else:
                            gone = lead + after
                        check_subst(ctx, batch, orig, "idna", gone, "subst-grid", sp)
    ctx.exhaustive_parts.append("CHARSET_RE.sub: the grid of key case x white space around '=' x lead-in x value/tail (1008 declarations x 2 targets)")
    for i in range(ctx.n(2000, 12000)):
        parts = rand_content_decl(r)
        e = r.choice(targets + PROP_PYTHON_SPECIFIC) if r.random() < 0.5 else pick_encoding(r)
        check_subst(ctx, batch, content_value(parts), e, content_expected(parts, e, e in PROP_PYTHON_SPECIFIC), "subst-structured",
                    {"parts": parts})
    # malformed / adversarial strings: model against implementation only
    alpha = list("charsetCHARSET=;; \n\txy=") + ["ſ", "K", "\xa0", " ", "charset", "charset=", ";charset=", "\ncharset =", "CHARSET="]
    for i in range(ctx.n(4000, 25000)):
        s = "".join(r.choice(alpha) for _ in range(r.choice([1, 3, 6, 10, 16])))
        e = r.choice(["utf-8", "idna", "x;y", "", " z", "866", "1252", "\\1", "\\g<1>", "a\\", "\\", "$1", "\\n", "%s{0}"])
        check_subst(ctx, batch, s, e, None, "subst-malformed")
    # the charset style and the python-specific table
    live = sorted(el.PYTHON_SPECIFIC_ENCODINGS)
    for e in sorted(set(ENCODINGS + valid_target_names()["all"] + PROP_PYTHON_SPECIFIC + live + ["IDNA", "", "utf-8 ", "x", "\\1", "\\g<1>"])):
        real = el.CharsetMetaAttributeValue("old").substitute_encoding(e)
        want = "" if e in PROP_PYTHON_SPECIFIC else e
        norm = lambda x: x.lower().replace("-", "_")
        if e not in PROP_PYTHON_SPECIFIC and norm(e) in {norm(x) for x in PROP_PYTHON_SPECIFIC}:
            # another SPELLING of a Python-specific codec ("IDNA", "Unicode-Escape"): not a real character encoding, so outside the
            # property; whether the declaration is blanked or names it verbatim is free (free-behaviour round)
            ctx.count("free:python-specific-codec-in-another-spelling")
            continue
        case = {"op": "subst-charset", "eventual_encoding": e}
        batch.ask("subst-charset", f"subcs {tok(e)}", tok(real), case, want=tok(want))
        if real != want:
            report(ctx, "CharsetMetaAttributeValue.substitute_encoding does not name the target (or is not empty for a Python-specific one)",
                          case=case, expected=want, observed=real, stream="subst-charset")
        ctx.case(("subcs", e))
    batch.flush()


# --------------------------------------------------------------------------------------
# stream: set_up_substitutions
# --------------------------------------------------------------------------------------
def stream_setup(ctx, batch):
    e = E()
    el = e["el"]
    r = ctx.rng("setup")
    for i in range(ctx.n(1500, 8000)):
        name = r.choice(["meta", "meta", "meta", "meta", "link", "p", "metadata"])
        attrs = {}
        if r.random() < 0.45:
            attrs["charset"] = r.choice(OLD_NAMES)
        if r.random() < 0.7:
            attrs["content"] = r.choice(["text/html; charset=x", "text/html", "", "charset=utf8", "width=device-width"])
        if r.random() < 0.7:
            attrs["http-equiv"] = r.choice(HTTP_EQUIV + ["refresh", "content-typ", " content-type", "content-type ", "Content-Type;", ""])
        if r.random() < 0.3:
            attrs["name"] = "viewport"
        keys = list(attrs)
        r.shuffle(keys)
        markup = "<" + name + "".join(f' {k}="{attrs[k]}"' for k in keys) + ">"
        multi = r.random() < 0.25   # http-equiv as a multi-valued attribute: set_up_substitutions reads it through get_attribute_list
        if multi and "http-equiv" in attrs and r.random() < 0.6:
            attrs["http-equiv"] = r.choice(["refresh Content-Type", "CONTENT-TYPE x", "a b", "content-type"])
            markup = "<" + name + "".join(f' {k}="{attrs[k]}"' for k in keys) + ">"
        pcfg = "default" if multi else r.choice(CONFIG_NAMES)
        soup = (e["BeautifulSoup"](markup, "html.parser", multi_valued_attributes={"*": ["http-equiv"]}) if multi
                else make_soup(markup, pcfg))
        ctx.count("setup:config:" + pcfg)
        tag = soup.find(name)
        kinds = {k: ("c" if isinstance(v, el.CharsetMetaAttributeValue) else "m" if isinstance(v, el.ContentMetaAttributeValue)
                     else "l" if isinstance(v, list) else "p")
                 for k, v in tag.attrs.items()}
        # the property statement
        want = {k: "p" for k in attrs}
        if name == "meta":
            # each declaration style on its own: a tag may carry both, and then both must be rewritable
            if "charset" in attrs:
                want["charset"] = "c"
            he = attrs.get("http-equiv")
            he_items = [] if he is None else (he.split() if multi else [he])
            if "content" in attrs and any(x.lower() == "content-type" for x in he_items):
                want["content"] = "m"
            if want.get("charset") == "c" and want.get("content") == "m":
                ctx.count("setup:both-styles-in-one-meta")
        if multi and "http-equiv" in attrs:
            want["http-equiv"] = "l"
            ctx.count("setup:http-equiv-list")
        case = {"op": "setup", "markup": markup, "config": pcfg, "multi_valued_http_equiv": multi}
        real = " ".join(f"{tok(k)}:{kinds[k]}" for k in tag.attrs) or "-"
        line = f"setup {tok(name)} {len(tag.attrs)} " + " ".join(
            (f"{tok(k)} l {';'.join(tok(x) for x in v) if v else '_'}" if isinstance(v, list) else f"{tok(k)} p {tok(str(v))}")
            for k, v in tag.attrs.items())
        batch.ask("setup", line.strip(), real, case, want=" ".join(f"{tok(k)}:{want[k]}" for k in tag.attrs) or "-")
        if kinds != want:
            report(ctx, "set_up_substitutions installs the wrong placeholders", case=case, expected=want, observed=kinds, stream="setup")
        ctx.count("setup:" + "".join(sorted(set(kinds.values()))))
        ctx.case(("setup", markup) if "c" in kinds.values() or "m" in kinds.values() else None)
        # tag[key] = value on the parsed tag: the model says the value stays plain (Tag.__setitem__); the property wants a declaration
        # assigned this way to be a placeholder like any other — the item-assignment finding, classified from the call itself
        if not multi and r.random() < 0.5:
            akey = r.choice(["charset", "content", "http-equiv", "id"])
            aval = r.choice(OLD_NAMES + ["text/html; charset=x", "Content-Type"])
            before = " ".join(f"{tok(k)} p {tok(str(v))}" for k, v in tag.attrs.items())
            nbefore = len(tag.attrs)
            tag[akey] = aval
            kinds3 = {k: ("c" if isinstance(v, el.CharsetMetaAttributeValue) else "m" if isinstance(v, el.ContentMetaAttributeValue)
                          else "p") for k, v in tag.attrs.items()}
            case3 = {"op": "setitem", "markup": markup, "config": pcfg, "key": akey, "value": aval}
            batch.ask("setup-setitem", f"setitem {tok(akey)} {tok(aval)} {tok(name)} {nbefore} {before}".strip(),
                      " ".join(f"{tok(k)}:{kinds3[k]}" for k in tag.attrs) or "-", case3)
            final = dict(attrs)
            final[akey] = aval
            want3 = {k: "p" for k in tag.attrs}
            if name == "meta":
                if "charset" in final:
                    want3["charset"] = "c"
                if "content" in final and final.get("http-equiv", "").lower() == "content-type":
                    want3["content"] = "m"
            if kinds3 != want3:
                wrong = {k for k in want3 if kinds3.get(k) != want3[k]}
                # attributed to the finding only when every wrong attribute is one this very call assigned (or whose role this
                # call created: content becomes a declaration when http-equiv is assigned)
                kf3 = KF_ITEM if wrong <= {akey} | ({"content"} if akey == "http-equiv" else set()) else None
                report(ctx, "after tag[key] = value the <meta> does not carry the placeholders its attributes call for", case=case3,
                       expected=want3, observed=kinds3, stream="setup-setitem", kf=kf3)
            ctx.count("setup-setitem:" + akey)
            ctx.case(("setitem", markup, akey, aval))
            continue
        # the same attributes through soup.new_tag(name, attrs=…, **kw) under a random builder configuration: keywords for some
        # identifier-named keys, the dictionary for the rest, overlaps resolved in favour of the dictionary, a None now and then
        if multi:
            continue
        cfg = r.choice(CONFIG_NAMES)
        holder = make_soup("", cfg)
        kw, dct = {}, {}
        for k, v in attrs.items():
            where = r.random()
            if k.isidentifier() and k not in NOT_KEYWORDS and where < 0.4:
                kw[k] = v
            elif k.isidentifier() and k not in NOT_KEYWORDS and where < 0.55:
                kw[k] = "kw-" + v
                dct[k] = v
            else:
                dct[k] = v
        if r.random() < 0.1:
            dct["data-none"] = None
        use_dict = bool(dct) or r.random() < 0.5
        t = holder.new_tag(name, attrs=(dct if use_dict else None), **kw)
        kinds2 = {k: ("c" if isinstance(v, el.CharsetMetaAttributeValue) else "m" if isinstance(v, el.ContentMetaAttributeValue)
                      else "n" if v is None else "l" if isinstance(v, list) else "p") for k, v in t.attrs.items()}
        want2 = {k: ("n" if (dct.get(k, kw.get(k)) is None) else want[k] if k in want else "p") for k in t.attrs}
        case2 = {"op": "new_tag", "name": name, "kw": kw, "attrs": dct if use_dict else None, "config": cfg}

        def toks(d):
            return " ".join(f"{tok(k)} {'n -' if v is None else 'p ' + tok(v)}" for k, v in d.items())
        line2 = f"newtag {tok(name)} {len(kw)} {toks(kw)} {len(dct) if use_dict else 0} {toks(dct) if use_dict else ''}"
        batch.ask("setup-new_tag", " ".join(line2.split()), " ".join(f"{tok(k)}:{kinds2[k]}" for k in t.attrs) or "-", case2,
                  want=" ".join(f"{tok(k)}:{want2[k]}" for k in t.attrs) or "-")
        if kinds2 != want2:
            report(ctx, "a tag made with new_tag(attrs=…, **kw) does not carry the placeholders a parsed tag would", case=case2,
                   expected=want2, observed=kinds2, stream="setup-new_tag")
        ctx.count("setup-new_tag:config:" + cfg)
        ctx.case(("new_tag", json.dumps(case2, sort_keys=True)) if "c" in kinds2.values() or "m" in kinds2.values() else None)
    batch.flush()


# --------------------------------------------------------------------------------------
# stream: documents x encodings x entry points
# --------------------------------------------------------------------------------------
ENTRIES = ["encode", "prettify", "encode_contents", "encode_contents_body"]


def call_entry(soup, entry, enc, formatter="minimal"):
    if entry == "encode":
        return soup.encode(enc, formatter=formatter)
    if entry == "prettify":
        return soup.prettify(enc, formatter=formatter)
    if entry == "encode_contents":
        return soup.encode_contents(encoding=enc, formatter=formatter)
    return soup.body.encode_contents(encoding=enc, formatter=formatter)


def rendered_ref(soup, entry, enc, formatter="minimal"):
    if entry == "encode":
        return soup.decode(eventual_encoding=enc, formatter=formatter)
    if entry == "prettify":
        return soup.decode(indent_level=0, eventual_encoding=enc, formatter=formatter)
    if entry == "encode_contents":
        return soup.decode_contents(eventual_encoding=enc, formatter=formatter)
    return soup.body.decode_contents(eventual_encoding=enc, formatter=formatter)


def expected_bom_codec(out, enc):
    n = codecs.lookup(enc).name
    if n == "utf-16":
        return "utf-16-le" if out[:2] == b"\xff\xfe" else "utf-16-be"
    if n == "utf-32":
        return "utf-32-le" if out[:4] == b"\xff\xfe\x00\x00" else "utf-32-be"
    return n


def check_doc(ctx, batch, recipe, enc, entry, stream, history=None, formatter="minimal"):
    """oracle (a)-(d) for one document, one target encoding, one entry point. Returns the violations found (for replay)."""
    e = E()
    NS = e["el"].NavigableString
    BS = e["BeautifulSoup"]
    f = facts(enc)
    found = []
    case = {"op": "doc", "recipe": recipe, "encoding": enc, "entry": entry}
    if history:
        case["history"] = history
    if formatter != "minimal":
        case["formatter"] = formatter   # entity substitution by name on top of the charset substitution (oracle only)
        batch = None

    def viol(what, expected=None, observed=None, kf=None, kind=None):
        found.append((what, expected, observed, kf))
        report(ctx, what, kind=kind, case=case, expected=expected, observed=observed, stream=stream, kf=kf)

    soup = apply_history(build_doc(recipe), history)
    pretty = entry == "prettify"
    # (a) bytes, always
    try:
        out = call_entry(soup, entry, enc, formatter)
    except UnicodeError as ex:
        viol(f"{entry}({enc!r}) raised {type(ex).__name__} instead of writing a numeric character reference",
             expected="bytes", observed=repr(ex)[:300], kind="raises:" + entry)
        ctx.case(("doc", json.dumps(recipe, sort_keys=True), enc, entry))
        return found
    except Exception as ex:  # e.g. re.error out of the charset rewrite: rendering must succeed for every real encoding name
        viol(f"{entry}({enc!r}) raised {type(ex).__name__}: rendering to bytes did not succeed",
             expected="bytes", observed=repr(ex)[:300], kind="raises-other:" + entry)
        ctx.case(("doc", json.dumps(recipe, sort_keys=True), enc, entry))
        return found
    if not isinstance(out, bytes):
        viol(f"{entry}({enc!r}) did not return bytes", observed=type(out).__name__)
        return found
    # unencodable characters appear as decimal references, everything else as rendered
    ref = f.xcr_ref(rendered_ref(soup, entry, enc, formatter))
    # the codec's round-trip law on the very string that is encoded (strict, no bs4 involved): CPython's stateful codecs
    # (hz: `~` escaping lost after mode switches) can fail it on a long string although every character passes alone
    try:
        law_ok = ref.encode(enc).decode(enc) == ref
    except UnicodeError:
        law_ok = False
    if not law_ok:
        ctx.count("excluded:codec-law-fails-on-document:" + f.norm)
        ctx.case(None)
        return found
    try:
        back = out.decode(enc)
    except UnicodeError as ex:
        viol("the bytes do not decode in the target encoding", observed=repr(ex)[:300])
        return found
    if back != ref:
        viol("decoded output is not the rendering with unencodable characters as &#N;", expected=ref[:400], observed=back[:400])
    # (b) re-parse recovers every text and attribute value
    # (the decoded string is parsed: handing the bytes to the constructor would add the input side's BOM sniffing, which
    # misreads e.g. BOM-less UTF-32-LE output that happens to begin with U+1FFFE; re-detection from bytes is (d))
    again = BS(back, "html.parser")
    nontrivial = False
    if True:
        for it in walk_items(recipe["items"]):
            t2 = again.find(id=it["id"])
            if t2 is None:
                viol("element lost in the round trip", expected=it["id"])
                continue
            for an, v, bait in it["attrs"]:
                got = t2.get(an)
                if any(not f.can(ch) for ch in v):
                    nontrivial = True
                if got != v:
                    kf = classify_loss(v, enc, True)
                    viol("attribute value not recovered from the encoded output", expected=ascii(v), observed=ascii(got), kf=kf)
                elif bait:
                    ctx.count("doc:bait-survived:" + bait)
            if it.get("cls"):
                got = t2.get("class")
                if any(not f.can(ch) for x in it["cls"] for ch in x):
                    nontrivial = True
                if got != it["cls"]:
                    viol("multi-valued attribute (class) not recovered from the encoded output", expected=ascii(it["cls"]), observed=ascii(got))
                ctx.count("doc:list-valued-attribute")
            texts = [x["text"] for x in it["kids"] if "text" in x]
            got = direct_text(t2, NS)
            if pretty:
                texts = [x.strip() for x in texts if x.strip()]
                got = [x.strip() for x in got if x.strip()]
            else:
                if any(parsed_ws(x) != x for x in texts):
                    ctx.count("doc:ascii-ws-only-text-normalised-by-parser")
                texts = [parsed_ws(x) for x in texts]
            if any(not f.can(ch) for x in texts for ch in x):
                nontrivial = True
            if got != texts:
                kf = None
                for x in texts:
                    kf = kf or classify_loss(x, enc, False)
                viol("text not recovered from the encoded output", expected=ascii(texts), observed=ascii(got), kf=kf)
    # (c) the declaration names the target
    info = recipe["meta"]
    style = info["style"]
    if style != "none" and entry != "encode_contents_body":
        m2 = again.find("meta")
        plain = bool(PLAIN_NAME.match(enc))   # a name a reader's regex can take back verbatim (no white space, `/ ; ' " < > &`)
        both = bool(info.get("both"))
        # classifier of the html5-formatter finding, from the case: that formatter, an HTML5-style declaration, empty old value
        kf_h = KF_HTML5 if formatter == "html5" and style == "charset" and info.get("orig") == "" else None
        ctx.count("doc:name:" + ("digit-leading" if enc[:1].isdigit() else "metachar" if re.search(r"[^A-Za-z0-9_\- ]", enc) else
                                 "canonical" if enc in ENCODINGS else "alias"))
        if style == "charset" or plain:
            got = declared_in(m2, style) if m2 is not None else None
            if got != enc:
                viol("the <meta> declaration in the output does not name the target encoding (as given)", expected=enc, observed=got,
                     kf=kf_h or item_kf(recipe, history, style))
        if both and plain and m2 is not None and declared_in(m2, "content") != enc:
            viol("a <meta> carrying both declaration styles: the one in `content` still names the old encoding",
                 expected=enc, observed=declared_in(m2, "content"), kf=item_kf(recipe, history, "content"))
        if style == "content" and m2 is not None and m2.get("content") != content_expected(info["parts"], enc, False):
            viol("the content attribute is not the original with only the charset value replaced",
                 expected=content_expected(info["parts"], enc, False), observed=m2.get("content"), kf=item_kf(recipe, history, "content"))
        # (d) a re-parse without help detects the target (ASCII-compatible targets; BOM-writing UTF-16/32)
        if (f.ascii_compat and plain) or f.norm in ("utf-16", "utf-32"):
            auto = BS(out, "html.parser")
            oe = auto.original_encoding
            try:
                oen = codecs.lookup(oe).name
            except (LookupError, TypeError):
                oen = None
            want = expected_bom_codec(out, enc)
            if oen != want:
                # re-detection depends on the declaration: attributed to the item-assignment finding only when the declaration the
                # detector reads (the last one of the tag) is an item-assigned one
                viol("re-parsing the output auto-detects a different encoding (compared through codecs.lookup)", expected=want,
                     observed=oe, kf=kf_h or item_kf(recipe, history, "content" if (both or style == "content") else "charset"))
            ctx.count("doc:redetect:" + ("bom" if f.norm in ("utf-16", "utf-32") else "declared"))
    elif style == "none" and f.norm in ("utf-16", "utf-32") and entry != "encode_contents_body":
        oe = BS(out, "html.parser").original_encoding
        if codecs.lookup(oe).name != expected_bom_codec(out, enc):
            viol("re-parsing BOM-carrying output auto-detects a different encoding", expected=expected_bom_codec(out, enc), observed=oe)
        ctx.count("doc:redetect:bom")
    # argument forms: the deprecated alias and the positional spelling go through the same code
    if formatter == "minimal":
        try:
            if entry == "encode_contents_body":
                alt = soup.body.renderContents(enc)
                what = "renderContents(encoding) differs from encode_contents(encoding=encoding)"
            elif entry == "encode":
                alt = soup.encode(enc, None, "minimal", "xmlcharrefreplace")
                what = "encode(encoding, None, 'minimal', 'xmlcharrefreplace') (positional) differs from encode(encoding)"
            elif entry == "encode_contents":
                alt = soup.encode_contents(None, enc, "minimal")
                what = "encode_contents(None, encoding, 'minimal') (positional) differs from encode_contents(encoding=encoding)"
            else:
                alt = soup.encode(enc, 0)
                what = "encode(encoding, 0) differs from prettify(encoding)"
            if alt != out:
                viol(what, expected=ascii(out[:200]), observed=ascii(alt[:200]), kind="argument-form")
        except Exception as ex:
            viol(f"an equivalent argument form of {entry} raised {type(ex).__name__}", observed=repr(ex)[:200], kind="argument-form")
    ctx.count(f"doc:entry:{entry}")
    ctx.count(f"doc:formatter:{formatter}")
    ctx.count("doc:config:" + recipe.get("config", "default"))
    if style != "none":
        ctx.count("doc:meta-made:" + info.get("how", "parsed"))
    ctx.count(f"doc:meta:{style}")
    ctx.count("doc:enc-kind:" + ("single-byte" if sb_name(enc) else "utf" if f.norm.startswith("utf") else "multi-byte"))
    ctx.case(("doc", json.dumps(recipe, sort_keys=True), enc, entry) if nontrivial else None,
             sample={"markup": ascii(back[:160]), "encoding": enc, "entry": entry} if nontrivial else None)
    # model: the rendering, and the bytes for single-byte codecs
    root = soup.html
    if batch is not None and root is not None:
        mode = {"encode": "d", "prettify": "p0", "encode_contents": "c", "encode_contents_body": "c"}[entry]
        node = soup.body if entry == "encode_contents_body" else root
        try:
            real_str = {"d": lambda: root.decode(eventual_encoding=enc), "p0": lambda: root.decode(indent_level=0, eventual_encoding=enc),
                        "c": lambda: node.decode_contents(eventual_encoding=enc)}[mode]()
        except Exception as ex:
            real_str = "RAISED " + type(ex).__name__
        tt = tree_tokens(node)
        batch.ask("doc-render", f"render {mode} {tok(enc)} {tt}", tok(real_str), case)
        lc = lean_codec(enc)
        if lc:
            ent = {"encode": "e", "prettify": "p", "encode_contents": "c", "encode_contents_body": "c"}[entry]
            real_b = {"e": lambda: root.encode(enc), "p": lambda: root.prettify(enc), "c": lambda: node.encode_contents(encoding=enc)}[ent]()
            batch.ask("doc-bytes", f"encode {ent} {tok(enc)} {lc} {tt}", "B:" + btok(real_b), case)
            if entry == "encode":
                # Tag.encode(encoding, errors=…): the argument reaches str.encode unchanged
                for hname, h in HANDLERS.items():
                    if hname == "xmlcharrefreplace":
                        continue
                    try:
                        rb = "B:" + btok(root.encode(enc, errors=hname))
                    except UnicodeEncodeError as ex:
                        rb = f"E:{ex.start}:{ord(ex.object[ex.start])}"
                    batch.ask("doc-errors", f"encode e{h} {tok(enc)} {lc} {tt}", rb, case | {"errors": hname})
    return found


def check_doc_str(ctx, batch, recipe, e_enc, stream, history=None):
    """decode() to str: untouched for eventual_encoding=None, rewritten / emptied for a name (Python-specific names included)"""
    e = E()
    BS = e["BeautifulSoup"]
    soup = apply_history(build_doc(recipe), history)
    case = {"op": "doc-str", "recipe": recipe, "eventual_encoding": e_enc}
    if history:
        case["history"] = history
    found = []
    try:
        s = soup.decode(eventual_encoding=e_enc)
    except Exception as ex:
        found.append("raised")
        report(ctx, f"decode(eventual_encoding={e_enc!r}) raised {type(ex).__name__}", kind="raises:decode", case=case, expected="str",
               observed=repr(ex)[:300], stream=stream)
        return found
    info = recipe["meta"]
    style = info["style"]
    # classifier of the pickle finding: the case itself says that a pickle round trip came before, and the check is the
    # "left alone" one (eventual_encoding=None)
    kf_p = KF_PICKLE if e_enc is None and any(st[0] == "pickle" for st in (history or [])) else None
    again = BS(s, "html.parser")
    m2 = again.find("meta")
    if style != "none":
        if style == "charset":
            got = m2.get("charset")
            want = info["orig"] if e_enc is None else ("" if e_enc in PROP_PYTHON_SPECIFIC else e_enc)
        else:
            got = m2.get("content")
            want = info["orig"] if e_enc is None else content_expected(info["parts"], e_enc, e_enc in PROP_PYTHON_SPECIFIC)
        if got != want:
            what = ("decode() without a target encoding changed the declaration" if e_enc is None else
                    "decode(eventual_encoding=e) did not rewrite the declaration (empty / removed for a Python-specific e)")
            found.append(what)
            report(ctx, what, case=case, expected=want, observed=got, stream=stream,
                   kf=kf_p or (item_kf(recipe, history, style) if e_enc is not None else None))
    if style == "charset" and info.get("both") and m2 is not None:
        got = m2.get("content")
        want = ("text/html; charset=" + info["orig"] if e_enc is None else
                "text/html" if e_enc in PROP_PYTHON_SPECIFIC else "text/html; charset=" + e_enc)
        if got != want:
            what = "a <meta> carrying both declaration styles: decode() did not treat the one in `content` like the charset attribute"
            found.append(what)
            report(ctx, what, case=case, expected=want, observed=got, stream=stream,
                   kf=kf_p or (item_kf(recipe, history, "content") if e_enc is not None else None))
    ctx.count("doc-str:" + ("none" if e_enc is None else "python-specific" if e_enc in PROP_PYTHON_SPECIFIC else "named") + ":" + style)
    ctx.case(("doc-str", json.dumps(recipe, sort_keys=True), e_enc) if style != "none" else None)
    if batch is not None:
        tt = tree_tokens(soup.html)
        batch.ask("doc-render", f"render d {'N' if e_enc is None else tok(e_enc)} {tt}", tok(soup.html.decode(eventual_encoding=e_enc)), case)
        if e_enc is None:
            # the str-returning entry points with their defaults (eventual_encoding = DEFAULT_OUTPUT_ENCODING, not None)
            batch.ask("doc-str-defaults", f"render s N {tt}", tok(str(soup.html)), case | {"call": "str(tag)"})
            batch.ask("doc-str-defaults", f"render ps N {tt}", tok(soup.html.prettify()), case | {"call": "tag.prettify()"})
            batch.ask("doc-str-defaults", f"render cs N {tt}", tok(soup.html.decode_contents()), case | {"call": "tag.decode_contents()"})
    if e_enc is None and style != "none":
        m3 = BS(str(soup), "html.parser").find("meta")
        got = m3.get("charset") if style == "charset" else m3.get("content")
        want = "utf-8" if style == "charset" else content_expected(info["parts"], "utf-8", False)
        if got != want:
            found.append("str(soup) (eventual_encoding defaults to utf-8) does not name utf-8 in the declaration")
            report(ctx, "str(soup) (eventual_encoding defaults to utf-8) does not name utf-8 in the declaration", case=case,
                   expected=want, observed=got, stream=stream, kf=item_kf(recipe, history, style))
    return found


def gen_recipe(r, enc, ctx):
    meta = meta_markup(r)
    if meta["style"] != "none" and r.random() < 0.25:
        # a second <meta> after the declaring one, e.g. a content-type meta without any charset: created later, rendered later
        meta = dict(meta, second=r.choice(SECOND_METAS))
    if meta["style"] != "none":
        meta = dict(meta, how=r.choice(HOWS))
    return {"meta": meta, "items": gen_items(r, enc, ctx, 0, [0]), "config": r.choice(CONFIG_NAMES)}


# documents parsed in between (state must not leak across documents): a content-type <meta> WITHOUT a charset, one with,
# an HTML5 declaration, none at all
OTHER_DOCS = ['<html><head><meta http-equiv="Content-Type" content="text/html"></head><body><p>x</p></body></html>',
              '<meta content="text/html" http-equiv="content-type">',
              '<html><head><meta http-equiv="Content-Type" content="text/html; charset=big5"></head><body>é</body></html>',
              '<meta charset="shift_jis"><p>é</p>', '<p>no declaration</p>',
              '<meta http-equiv="content-type" content="">']
SECOND_METAS = ['<meta http-equiv="Content-Type" content="text/html">', '<meta content="application/xhtml+xml" http-equiv="content-type">',
                '<meta name="viewport" content="width=device-width">', '<meta http-equiv="refresh" content="5">']


def rand_history(r):
    steps = []
    for _ in range(r.choice([1, 2, 3, 4])):
        k = r.random()
        if k < 0.45:
            steps.append(["call", r.choice(ENTRIES[:3]), r.choice(["koi8-r", "utf-8", "ascii", "shift_jis", "utf-16", "866", "latin-1"])])
        elif k < 0.6:
            steps.append(["decode", r.choice([None, "big5", "idna", "utf-8"])])
        elif k < 0.7:
            steps.append(["str"])
        elif k < 0.8:
            steps.append([r.choice(["copy", "deepcopy", "pickle"])])
        elif k < 0.95:
            steps.append(["parse", r.choice(OTHER_DOCS), r.choice(["utf-8", "koi8-r", "ascii"])])
        else:
            steps.append(["placeholder", r.choice(["text/html", "", "text/html; charset=zz", "x"])])
    return steps


def stream_history(ctx, batch):
    """the same object rendered several times (different targets, str in between), and copies / pickles of it"""
    r = ctx.rng("history")
    # directed: a declaring document, then a document whose content-type <meta> has no charset, then render the first
    for meta in NAME_METAS:
        for other in OTHER_DOCS:
            for enc in ("koi8-r", "shift_jis", "utf-8"):
                recipe = {"meta": meta, "items": [{"name": "p", "id": "n1", "attrs": [["title", "é ☃", None]],
                                                   "kids": [{"text": "я é ☃", "bait": None}]}]}
                hist = [["parse", other, "utf-8"]]
                check_doc(ctx, batch, recipe, enc, r.choice(ENTRIES[:3]), "history-interleaved", history=hist)
                check_doc_str(ctx, batch, recipe, r.choice(["big5", "idna"]), "history-interleaved", history=hist)
        for second in SECOND_METAS:
            recipe = {"meta": dict(meta, second=second), "items": [{"name": "p", "id": "n1", "attrs": [], "kids": [{"text": "я é", "bait": None}]}]}
            check_doc(ctx, batch, recipe, "koi8-r", r.choice(ENTRIES[:3]), "history-interleaved")
    for i in range(ctx.n(500, 3000)):
        enc = pick_encoding(r)
        if not facts(enc).ascii_ok:
            continue
        recipe = gen_recipe(r, enc, ctx)
        if recipe["meta"]["style"] == "none" and r.random() < 0.8:
            continue
        hist = rand_history(r)
        check_doc(ctx, batch, recipe, enc, r.choice(ENTRIES), "history", history=hist)
        check_doc_str(ctx, batch, recipe, r.choice([None, None, "idna", pick_encoding(r)]), "history", history=hist)
        for st in hist:
            ctx.count("history:step:" + st[0])
        if len(batch.q) > 3000:
            batch.flush()
    batch.flush()


def stream_docs(ctx, batch):
    r = ctx.rng("docs")
    # directed: every look-alike reference, alone and between neighbours the target cannot encode, as text and as attribute value
    for i, la in enumerate(LOOKALIKES):
        for enc in ("ascii", "utf-8", "koi8-r", "utf-16", "shift_jis"):
            f = facts(enc)
            nb = "".join(ch for ch in "é☃я" if f.lawful(ch))
            items = [{"name": "p", "id": "n1", "attrs": [["title", la, None], ["alt", nb[:1] + la + nb[1:], None], ["data-v", la + '"' + "'", None]],
                      "kids": [{"text": "write " + la + " to get " + nb, "bait": None}]},
                     {"name": "div", "id": "n2", "attrs": [], "kids": [{"text": la, "bait": None}]}]
            recipe = {"meta": NAME_METAS[(i + len(enc)) % len(NAME_METAS)], "items": items}
            check_doc(ctx, batch, recipe, enc, ENTRIES[(i + len(enc)) % 4], "docs-lookalike")
    ctx.exhaustive_parts.append(f"look-alike references: {len(LOOKALIKES)} spellings (decimal, hex, named, malformed) x text / 3 attribute "
                                "positions x 5 targets, through the document oracle")
    # directed: every builder configuration x every way of getting the declaring <meta> into the tree x every declaration
    for cfg in sorted(set(CONFIG_NAMES)):
        for how in sorted(set(HOWS)):
            for meta in NAME_METAS:
                recipe = {"meta": dict(meta, how=how), "config": cfg,
                          "items": [{"name": "p", "id": "n1", "attrs": [["title", "é ☃", None]], "cls": ["a", "bé"],
                                     "kids": [{"text": "Жук café ☃", "bait": None}]}]}
                check_doc(ctx, batch, recipe, r.choice(["koi8-r", "shift_jis", "latin-1", "866"]), r.choice(ENTRIES[:3]), "docs-constructed")
                check_doc_str(ctx, batch, recipe, r.choice([None, "idna", "big5"]), "docs-constructed")
    ctx.exhaustive_parts.append(f"construction grid: {len(set(CONFIG_NAMES))} builder configurations x {len(set(HOWS))} ways of creating the "
                                f"declaring <meta> (parsed, new_tag attrs=/keywords/both, parsed elsewhere and moved) x {len(NAME_METAS)} declarations")
    # directed: every formatter x every declaration of NAME_METAS plus an empty HTML5 declaration x a few targets
    for fm in ("html", "html5"):
        for meta in NAME_METAS + [dict(markup='<meta charset="">', style="charset", orig="")]:
            for enc in ("koi8-r", "ascii", "utf-8", "shift_jis", "866"):
                recipe = {"meta": meta, "items": [{"name": "p", "id": "n1", "attrs": [["title", "é & \"☃\"", None]],
                                                   "kids": [{"text": "я < é ☃", "bait": None}]}]}
                check_doc(ctx, batch, recipe, enc, r.choice(ENTRIES[:3]), "docs-formatter", formatter=fm)
    n = ctx.n(2500, 15000)
    for i in range(n):
        enc = pick_encoding(r)
        if not facts(enc).ascii_ok:
            continue
        recipe = gen_recipe(r, enc, ctx)
        for entry in (ENTRIES if i % 3 == 0 else r.sample(ENTRIES, 2)):
            check_doc(ctx, batch, recipe, enc, entry, "docs")
        if i % 4 == 0:
            check_doc(ctx, batch, recipe, enc, r.choice(ENTRIES), "docs-formatter", formatter=r.choice(["html", "html5"]))
        e_enc = r.choice([None, None, r.choice(PROP_PYTHON_SPECIFIC), pick_encoding(r), ""])
        check_doc_str(ctx, batch, recipe, e_enc, "docs")
        if len(batch.q) > 3000:
            batch.flush()
    batch.flush()


# --------------------------------------------------------------------------------------
# stream: every accepted spelling of a target name x both meta styles x every entry point
# --------------------------------------------------------------------------------------
NAME_METAS = [
    dict(markup='<meta charset="utf8">', style="charset", orig="utf8"),
    dict(markup='<meta charset="utf8" content="text/html; charset=utf8" http-equiv="Content-Type">', style="charset", orig="utf8", both=True),
    dict(markup='<meta charset="\\g<1>">', style="charset", orig="\\g<1>"),
    dict(markup='<meta http-equiv="Content-Type" content="text/html; charset=utf8">', style="content", orig="text/html; charset=utf8",
         parts=dict(mime="text/html", sep=";", before="", w0=" ", key="charset", w1="", w2="", old="utf8", after="")),
    dict(markup='<meta content="text/html\\1; x=\\2;CHARSET = \\g<1>; y=$1" http-equiv="content-type">', style="content",
         orig="text/html\\1; x=\\2;CHARSET = \\g<1>; y=$1",
         parts=dict(mime="text/html\\1", sep=";", before="; x=\\2", w0="", key="CHARSET", w1=" ", w2=" ", old="\\g<1>", after="; y=$1")),
]


def stream_names(ctx, batch):
    names = valid_target_names()
    ctx.extra["target_name_spellings"] = {"digit_leading": names["digit"], "other": len(names["other"]),
                                          "rejected_by_this_cpython": names["rejected"]}
    for enc in names["all"] + ENCODINGS:
        f = facts(enc)
        if not f.ascii_ok:
            ctx.count("names:skipped-not-ascii-capable")
            continue
        text = "".join(ch for ch in "я ☃ é<&" if f.lawful(ch))
        title = "".join(ch for ch in "é☃ \"&'" if f.lawful(ch))
        for meta in NAME_METAS:
            recipe = {"meta": meta, "items": [{"name": "p", "id": "n1", "attrs": [["title", title, None]], "kids": [{"text": text, "bait": None}]}]}
            for entry in ENTRIES:
                check_doc(ctx, batch, recipe, enc, entry, "names")
            check_doc_str(ctx, batch, recipe, enc, "names")
            if meta["style"] == "content":
                check_subst(ctx, batch, meta["orig"], enc, content_expected(meta["parts"], enc, False), "names-subst")
        ctx.count("names:" + ("digit-leading" if enc[:1].isdigit() else "other"))
    ctx.exhaustive_parts.append(f"target-name spellings: {len(names['all'])} accepted spellings (digit-leading labels, case, separators, regex/format "
                                "metacharacters) + the canonical list x 5 <meta> declarations x 4 entry points + decode(eventual_encoding)")
    batch.flush()


# --------------------------------------------------------------------------------------
# stream: the reader on the writer's image (model of handle_charref / html.unescape)
# --------------------------------------------------------------------------------------
def stream_reader(ctx, batch):
    e = E()
    BS = e["BeautifulSoup"]
    r = ctx.rng("reader")
    from bs4.dammit import EntitySubstitution as ES
    for i in range(ctx.n(2500, 15000)):
        enc = r.choice(["ascii", "latin-1", "koi8-r", "cp1251", "shift_jis", "cp437"])
        f = facts(enc)
        v = "".join(rand_char(r) for _ in range(r.choice([1, 2, 4, 8])))
        if r.random() < 0.3:
            v += r.choice(C1 + NONCHARS)
        if r.random() < 0.2:
            v = r.choice(["&#65;", "&amp;", "&#x41;", "&lt", "a&b;", "&#", "\"'", "'", '"']) + v
        v = "".join(ch for ch in v if f.lawful(ch))
        text_src = f.xcr_ref(ES.substitute_xml(v))
        attr_src = f.xcr_ref(ES.quoted_attribute_value(ES.substitute_xml(v)))
        # read back as part of a document in `enc` (so original_encoding is enc) when it is a generated single-byte codec
        via = enc if enc in SINGLE_BYTE and r.random() < 0.6 else None
        # brackets keep the text node from being all white space (the tree builder would normalise that: input side)
        doc = "<p title=" + attr_src + ">[" + text_src + "]</p>"
        if via:
            soup = BS(doc.encode(via), "html.parser", from_encoding=via)
        else:
            soup = BS(doc, "html.parser")
        p = soup.p
        got_t = "".join(str(x) for x in p.contents)[1:-1]
        got_a = p.get("title")
        case = {"op": "reader", "value": [ord(c) for c in v], "encoding": enc, "via": via}
        batch.ask("reader", f"read t {('sb:' + tok(via)) if via else '-'} {tok(text_src)}", tok(got_t), case)
        batch.ask("reader", f"read a - {tok(attr_src)}", tok(got_a), case)
        # oracle: the value is recovered, or the loss is one of the two known classes
        if got_t != v:
            report(ctx, "text not recovered by re-reading what the writer wrote", case=case, expected=ascii(v), observed=ascii(got_t),
                          stream="reader", kf=classify_loss(v, enc, False))
        if got_a != v:
            report(ctx, "attribute value not recovered by re-reading what the writer wrote", case=case, expected=ascii(v),
                          observed=ascii(got_a), stream="reader", kf=classify_loss(v, enc, True))
        ctx.case(("reader", v, enc) if any(not f.can(ch) for ch in v) else None)
    batch.flush()


# --------------------------------------------------------------------------------------
# stream: raw text (script/style/comment), surrogates, XML declaration
# --------------------------------------------------------------------------------------
def stream_misc(ctx, batch):
    e = E()
    BS = e["BeautifulSoup"]
    r = ctx.rng("misc")
    for i in range(ctx.n(400, 2500)):
        enc = r.choice(ENCODINGS)
        f = facts(enc)
        v = "".join(ch for ch in (rand_char(r) for _ in range(4)) if f.lawful(ch) and ch not in "<>&-") + "☃"
        kind = r.choice(["script", "style", "comment", "surrogate"])
        if kind == "comment":
            soup = BS("<p><!--" + v + "--></p>", "html.parser")
        elif kind == "surrogate":
            soup = BS("<p></p>", "html.parser")
            soup.p.string = v + chr(r.randrange(0xD800, 0xE000))
            soup.p["title"] = chr(r.randrange(0xD800, 0xE000))
        else:
            soup = BS(f"<{kind}>{v}</{kind}>", "html.parser")
        case = {"op": "misc", "kind": kind, "value": [ord(c) for c in v], "encoding": enc}
        for entry in ("encode", "prettify", "encode_contents"):
            try:
                out = call_entry(soup, entry, enc)
                if kind != "surrogate":
                    out.decode(enc)
            except UnicodeError as ex:
                report(ctx, f"{entry}({enc!r}) raised on a document with {kind} content", kind=f"raises:{entry}:{kind}", case=case | {"entry": entry},
                              expected="bytes that decode", observed=repr(ex)[:300], stream="misc")
        ctx.count("excluded:raw-text-not-recoverable:" + kind if kind != "surrogate" else "misc:surrogate-never-raises")
        ctx.case(("misc", kind, v, enc))
    # the XML declaration of BeautifulSoup.decode
    for e_enc in [None] + PROP_PYTHON_SPECIFIC + ["utf-8", "koi8-r", "latin-1", "x y"]:
        soup = BS("<a>x</a>", "html.parser")
        soup.is_xml = True
        s = soup.decode(eventual_encoding=e_enc)
        real = s[: s.index("\n") + 1]
        want = '<?xml version="1.0"?>\n' if e_enc is None or e_enc in PROP_PYTHON_SPECIFIC else f'<?xml version="1.0" encoding="{e_enc}"?>\n'
        case = {"op": "xmldecl", "eventual_encoding": e_enc}
        batch.ask("xmldecl", f"xmldecl {'N' if e_enc is None else tok(e_enc)}", tok(real), case, want=tok(want))
        if real != want:
            report(ctx, "XML declaration does not name the target encoding / names a Python-specific one", case=case, expected=want,
                          observed=real, stream="xmldecl")
        ctx.case(("xmldecl", e_enc))
    batch.flush()


def stream_codecs(ctx, batch):
    """the strict decoders of the Lean UTF codecs against CPython on valid, damaged and random bytes; BOM sniffing against
    EncodingDetector.strip_byte_order_mark"""
    from bs4.dammit import EncodingDetector
    r = ctx.rng("codecs")
    for i in range(ctx.n(3000, 20000)):
        name = r.choice(list(UTF_LEAN))
        k = r.random()
        if k < 0.5:
            txt = "".join(rand_char(r) for _ in range(r.choice([0, 1, 2, 4])))
            b = bytearray(txt.encode(name, "replace"))
            if b and r.random() < 0.6:   # damage it
                for _ in range(r.choice([1, 1, 2])):
                    if not b:
                        break
                    op = r.random()
                    j = r.randrange(len(b))
                    if op < 0.4:
                        b[j] = r.choice([0x80, 0xBF, 0xC0, 0xC1, 0xC2, 0xE0, 0xED, 0xF0, 0xF4, 0xF5, 0xFF, 0xD8, 0xDC, 0xDF, 0x00, 0x10, 0x11, r.randrange(256)])
                    elif op < 0.7:
                        del b[j]
                    else:
                        b.insert(j, r.choice([0x80, 0xA0, 0xFE, 0xFF, 0x00, r.randrange(256)]))
            b = bytes(b)
        else:
            b = bytes(r.choice([0x00, 0x41, 0x7F, 0x80, 0x9F, 0xA0, 0xBF, 0xC0, 0xC2, 0xDF, 0xE0, 0xEC, 0xED, 0xEF, 0xF0, 0xF4, 0xF5, 0xFE, 0xFF,
                                0xD8, 0xDB, 0xDC, 0xDF, 0x10, 0x11, r.randrange(256)]) for _ in range(r.choice([1, 2, 3, 4, 5, 8])))
        try:
            real = tok(b.decode(name))
        except UnicodeDecodeError:
            real = "N"
        ctx.count("codecs:decode:" + ("rejected" if real == "N" else "accepted"))
        batch.ask("codecs-decode", f"dec utf:{tok(name)} {btok(b)}", real, {"op": "decode", "encoding": name, "bytes": list(b)})
        ctx.case(("dec", name, b) if real == "N" else None)
    boms = [b"\xff\xfe", b"\xfe\xff", b"\xef\xbb\xbf", b"\xff\xfe\x00\x00", b"\x00\x00\xfe\xff", b"\xff", b"\xef\xbb", b"\x00\x00\xfe", b""]
    for i in range(ctx.n(600, 3000)):
        b = r.choice(boms) + bytes(r.choice([0, 0, 0x3C, 0x41, 0xFE, 0xFF, r.randrange(256)]) for _ in range(r.choice([0, 0, 1, 2, 3, 5])))
        real = EncodingDetector.strip_byte_order_mark(b)[1] or "N"
        batch.ask("codecs-sniff", f"sniff {btok(b)}", real, {"op": "sniff", "bytes": list(b)})
        ctx.case(("sniff", b) if real != "N" else None)
    batch.flush()


# --------------------------------------------------------------------------------------
# stream: where in the OUTPUT the rewritten declaration lies — the documented search window of the re-parse
# --------------------------------------------------------------------------------------
def documented_window(out: bytes) -> int:
    """the property statement (dammit's documentation): an HTML declaration is looked for in the first
    max(2048, 5 % of the document) bytes — hard-coded here, not read from the code"""
    return max(2048, int(len(out) * 0.05))


def declaration_end(out: bytes, enc: str):
    """offset just after the character that closes the declared value in the (ASCII-compatible) output"""
    m = re.search(rb"<meta[^>]*?charset=[\"']?" + re.escape(enc.encode("ascii")) + rb"[\"']", out)
    return m.end() if m else None


WINDOW_TEXT = {"koi8-r": "Привет, мир", "cp1251": "Привет, мир", "866": "Привет, мир", "latin-1": "déjà vu façade", "iso-8859-7": "Καλημέρα κόσμε",
               "shift_jis": "こんにちは世界", "big5": "你好世界", "euc-kr": "안녕하세요", "windows-1252": "“déjà vu” — façade", "iso-8859-2": "Zażółć gęślą jaźń"}


def window_recipe(style, spacer_len, body_len, text):
    spacer = '<meta name="description" content="' + "d" * max(spacer_len, 0) + '">'
    if style == "charset":
        meta = dict(markup='<meta charset="utf8">', style="charset", orig="utf8", spacer=spacer)
    else:
        meta = dict(markup='<meta http-equiv="Content-Type" content="text/html; charset=utf8">', style="content",
                    orig="text/html; charset=utf8", spacer=spacer,
                    parts=dict(mime="text/html", sep=";", before="", w0=" ", key="charset", w1="", w2="", old="utf8", after=""))
    items = [{"name": "p", "id": "n1", "attrs": [["title", text, None]], "kids": [{"text": text, "bait": None}]}]
    if body_len:
        items.append({"name": "div", "id": "n2", "attrs": [], "kids": [{"text": "b" * body_len, "bait": None}]})
    return {"meta": meta, "items": items}


def stream_window(ctx, batch):
    """sweep the end of the rewritten declaration across the documented window: inside it a re-parse must detect the target
    and recover the text; positions outside are recorded (nothing is promised there)"""
    r = ctx.rng("window")
    BS = E()["BeautifulSoup"]
    # (target offsets of the declaration's end, body filler): a small document (window 2048) and one of ~100 KB (window 5 %)
    small = [900, 1023, 1024, 1025, 1030, 1100, 1500, 2000, 2040, 2047, 2048, 2049, 2060, 2500]
    encs = list(WINDOW_TEXT)
    plans = [(off, 0) for off in small] + [(off, 100_000) for off in (1500, 2049, 3000, 4000, 5000, 5100, 6000)]
    if not ctx.thorough:
        encs = r.sample(encs, 4) + ["koi8-r"]
    for enc in encs:
        f = facts(enc)
        text = "".join(ch for ch in WINDOW_TEXT[enc] if f.lawful(ch) and f.can(ch))
        for style in ("charset", "content"):
            for entry in ENTRIES[:3]:
                for off, body in plans:
                    # place the declaration: render once, measure, move the spacer by the difference (each spacer character is one byte)
                    s0 = max(off - 200, 0)
                    out0 = call_entry(build_doc(window_recipe(style, s0, body, text)), entry, enc)
                    e0 = declaration_end(out0, enc)
                    if e0 is None:
                        ctx.count("window:declaration-not-located")
                        continue
                    slen = s0 + (off - e0)
                    if slen < 0:
                        continue
                    recipe = window_recipe(style, slen, body, text)
                    case = {"op": "window", "recipe": recipe, "encoding": enc, "entry": entry, "target_offset": off}
                    found = check_window(ctx, recipe, enc, entry, off, case, "window")
    ctx.exhaustive_parts.append("re-detection window: the end of the rewritten declaration placed at byte 900…2500 of a small document and "
                                "1500…6000 of a ~100 KB one (both sides of 1024, of 2048 and of 5 %), both styles x 3 entry points x "
                                f"{len(encs)} ASCII-compatible non-UTF-8 targets")


def check_window(ctx, recipe, enc, entry, off, case, stream):
    BS = E()["BeautifulSoup"]
    f = facts(enc)
    found = []
    out = call_entry(build_doc(recipe), entry, enc)
    end = declaration_end(out, enc)
    win = documented_window(out)
    if end is None:
        found.append("not located")
        report(ctx, "the rewritten declaration is not in the output", case=case, stream=stream)
        return found
    inside = end <= win
    where = ("<=1024" if end <= 1024 else "1024..2048" if end <= 2048 else "2048..5%" if inside else "outside")
    ctx.count("window:" + where + (":big" if len(out) > 50_000 else ":small"))
    auto = BS(out, "html.parser")
    oe = auto.original_encoding
    try:
        oen = codecs.lookup(oe).name
    except (LookupError, TypeError):
        oen = None
    p2 = auto.find(id="n1")
    text = recipe["items"][0]["kids"][0]["text"]
    got = None if p2 is None else (p2.get_text().strip() if entry == "prettify" else p2.get_text())
    if inside:
        if oen != f.norm:
            found.append("detect")
            report(ctx, f"the declaration ends at byte {end} of {len(out)}, inside the documented window ({win}), yet a re-parse of the "
                        "output auto-detects a different encoding", case=case, expected=f.norm, observed=oe, stream=stream,
                   kind="window-detect")
        if got != text:
            found.append("text")
            report(ctx, f"the declaration ends at byte {end} of {len(out)}, inside the documented window ({win}), yet re-parsing the "
                        "output does not recover the text", case=case, expected=ascii(text), observed=ascii(got), stream=stream,
                   kind="window-text")
    else:
        ctx.count("window:outside:" + ("still-detected" if oen == f.norm else "not-detected"))
    ctx.case(("window", enc, entry, recipe["meta"]["style"], off, len(out) > 50_000))
    return found


def stream_corpus(ctx, batch):
    from .common import CORPUS
    d = CORPUS / "C08"
    if not d.exists():
        return
    for f in sorted(d.glob("*.json")):
        v = json.loads(f.read_text())
        c = v.get("case", v)
        if c.get("op") == "doc":
            check_doc(ctx, batch, c["recipe"], c["encoding"], c["entry"], "corpus", history=c.get("history"))
        elif c.get("op") == "subst":
            check_subst(ctx, batch, c["content"], c["eventual_encoding"], v.get("expected"), "corpus")
        elif c.get("op") == "window":
            check_window(ctx, c["recipe"], c["encoding"], c["entry"], c.get("target_offset"), c, "corpus")
        ctx.count("corpus:cases")
    batch.flush()


def run(ctx: Ctx):
    import warnings
    warnings.simplefilter("ignore")
    ctx.rule = ("a document case counts as non-trivial when at least one of its values holds a character the target cannot encode (so a "
                "numeric reference is written and must be read back); an xmlcharrefreplace case when the string mixes encodable non-ASCII "
                "and unencodable characters; a substitution case when the expected output differs from the input")
    ctx.assumptions = [
        "codec laws (ASCII encodable, strict round trip, ASCII bytes for ASCII-compatible targets) are hypotheses of the theorems, tested "
        "on every character used: characters at which a CPython codec is not round-trip lawful are dropped from the case and counted",
        "lone surrogates are not characters: 'never raises' is checked with them, losslessness is not claimed for them",
        "text inside script/style and comments is written raw (no entity layer), so unencodable characters there are not recoverable: "
        "outside the quantifier, counted as excluded:raw-text-not-recoverable",
        "prettify(encoding): values compared modulo str.strip(); no adjacent text nodes in generated trees (a re-parse merges them)",
        "documents are built by parsing the <meta> skeleton with html.parser and adding text/attributes through the API (so arbitrary "
        "code points reach the tree); attribute names are not multi-valued ones",
        "the reader model (readText/readAttr) covers the writer's image only; the simplified finder of redetect_* is not dammit's regex",
    ]
    E()
    batch = Batch(ctx)
    stream_corpus(ctx, batch)
    stream_subst(ctx, batch)
    stream_setup(ctx, batch)
    stream_names(ctx, batch)
    stream_codecs(ctx, batch)
    stream_xcr(ctx, batch)
    stream_reader(ctx, batch)
    stream_misc(ctx, batch)
    stream_window(ctx, batch)
    stream_history(ctx, batch)
    stream_docs(ctx, batch)
    if "unlawful_pairs" in ctx.extra:
        ctx.extra["unlawful_pairs"] = {k: sorted(v)[:40] for k, v in ctx.extra["unlawful_pairs"].items()}
    if ctx.lean is not None and not ctx.lean.ok:
        ctx.notes.append("Lean obligations did not check: the substitution grid (every key case x white space spelling) and the "
                         "PYTHON_SPECIFIC table stream are the exhaustive search over the generated constants")


def replay(path):
    import warnings
    warnings.simplefilter("ignore")
    E()
    v = json.load(open(path))
    c = v["case"]
    ctx = Ctx("C08", "quick", 0)
    op = c.get("op")
    if op == "doc":
        soup = build_doc(c["recipe"])
        print("document:", ascii(soup.decode(eventual_encoding=None)))
        print(f"builder configuration: {c['recipe'].get('config', 'default')}; declaring <meta> made by: {c['recipe']['meta'].get('how', 'parsed')}")
        print(f"call: {c['entry']}({c['encoding']!r})")
        if c.get("history"):
            print("after:", c["history"])
        found = check_doc(ctx, None, c["recipe"], c["encoding"], c["entry"], "replay", history=c.get("history"),
                          formatter=c.get("formatter", "minimal"))
        for what, exp, obs, kf in found:
            print(("KNOWN-FINDING " + kf if kf else "VIOLATION") + ":", what)
            print("   property demands:", exp)
            print("   implementation:  ", obs)
        return 1 if any(kf is None for _, _, _, kf in found) else 0
    if op == "new_tag":
        holder = make_soup("", c.get("config", "default"))
        t = holder.new_tag(c["name"], attrs=c["attrs"], **c["kw"])
        print(f"soup.new_tag({c['name']!r}, attrs={c['attrs']!r}, **{c['kw']!r})  [builder configuration {c.get('config')}]")
        print("implementation:  ", {k: type(x).__name__ for k, x in t.attrs.items()})
        print("property demands:", v.get("expected"), "(c = CharsetMetaAttributeValue, m = ContentMetaAttributeValue, p = plain, n = None)")
        kinds2 = {k: ("c" if type(x).__name__ == "CharsetMetaAttributeValue" else "m" if type(x).__name__ == "ContentMetaAttributeValue"
                      else "n" if x is None else "l" if isinstance(x, list) else "p") for k, x in t.attrs.items()}
        return 0 if kinds2 == v.get("expected") else 1
    if op == "setitem":
        soup = make_soup(c["markup"], c.get("config", "default"))
        t = soup.find(True)
        t[c["key"]] = c["value"]
        print(f"parsed {c['markup']} [builder configuration {c.get('config')}], then tag[{c['key']!r}] = {c['value']!r}")
        print("implementation:  ", {k: type(x).__name__ for k, x in t.attrs.items()})
        print("property demands:", v.get("expected"))
        return 1
    if op == "setup":
        soup = (E()["BeautifulSoup"](c["markup"], "html.parser", multi_valued_attributes={"*": ["http-equiv"]}) if c.get("multi_valued_http_equiv")
                else make_soup(c["markup"], c.get("config", "default")))
        t = soup.find(True)
        print("parsed", c["markup"], "[builder configuration", c.get("config"), "]")
        print("implementation:  ", {k: type(x).__name__ for k, x in t.attrs.items()})
        print("property demands:", v.get("expected"))
        return 1
    if op == "window":
        out = call_entry(build_doc(c["recipe"]), c["entry"], c["encoding"])
        print(f"call: {c['entry']}({c['encoding']!r}) on a document whose head holds a {len(c['recipe']['meta']['spacer'])}-byte <meta name=description> "
              f"before the declaration; output {len(out)} bytes, declaration ends at byte {declaration_end(out, c['encoding'])}, "
              f"documented window {documented_window(out)}")
        found = check_window(ctx, c["recipe"], c["encoding"], c["entry"], c.get("target_offset"), c, "replay")
        for v2 in ctx.violations:
            print("VIOLATION:", v2["what"]); print("   property demands:", v2.get("expected")); print("   implementation:  ", v2.get("observed"))
        return 1 if found else 0
    if op == "doc-str":
        soup = build_doc(c["recipe"])
        print("document:", ascii(soup.decode(eventual_encoding=None)))
        try:
            shown = ascii(soup.decode(eventual_encoding=c["eventual_encoding"]))
        except Exception as ex:
            shown = "raised " + repr(ex)
        print(f"builder configuration: {c['recipe'].get('config', 'default')}; declaring <meta> made by: {c['recipe']['meta'].get('how', 'parsed')}")
        print(f"call: decode(eventual_encoding={c['eventual_encoding']!r}) ->", shown)
        found = check_doc_str(ctx, None, c["recipe"], c["eventual_encoding"], "replay", history=c.get("history"))
        for w in found:
            print("VIOLATION:", w)
        print("   property demands:", v.get("expected"), "\n   implementation:  ", v.get("observed"))
        return 1 if found else 0
    if op == "subst":
        el = E()["el"]
        try:
            real = el.ContentMetaAttributeValue(c["content"]).substitute_encoding(c["eventual_encoding"])
        except Exception as ex:
            real = "RAISED " + type(ex).__name__ + ": " + str(ex)[:80]
        print(f"ContentMetaAttributeValue({c['content']!r}).substitute_encoding({c['eventual_encoding']!r})")
        print("implementation:  ", repr(real))
        print("property demands:", repr(v.get("expected")), "   Lean model:", repr(untok(v["model_reply"])) if v.get("model_reply") else None)
        return 0 if v.get("expected") is None or real == v.get("expected") else 1
    if op == "misc":
        BS = E()["BeautifulSoup"]
        val = "".join(chr(x) for x in c["value"])
        print("misc case:", c["kind"], ascii(val), c["encoding"], c.get("entry"))
        print("observed:", v.get("observed"))
        return 1
    print(json.dumps(v, indent=1)[:4000])
    return 1
