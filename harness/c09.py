"""C09 — entity substitution and attribute quoting are reversible. Correspondence of EntitySubstitution / Formatter and of the
real parser (html.parser through BeautifulSoup) with the Lean models BS.Entities / BS.Reader, plus the direct oracle:
no raw angle brackets, and the real parser reads text and attribute value back as the original string."""
import html as _html
import html.entities
import html.parser as _hp
import itertools, json, multiprocessing, os, re, subprocess, sys
from concurrent.futures import ThreadPoolExecutor

from .common import Ctx, Driver, tok, uncps, REPO

MANIFEST = dict(
    text=("Lean theorems, for every table satisfying the decidable TblOK / XmlOK / Html5FixOK and ALL strings (no bound, lone surrogates "
          "included): substitute_xml, substitute_html and the (repaired) substitute_html5 leave no raw < or >; every & written by "
          "substitute_xml/html starts `name;` for a name the reader knows; reading the output back as element text (model of html.parser "
          "convert_charrefs=False + bs4 handle_entityref/handle_charref) and as a quoted attribute value (quote stripping + html.unescape) "
          "gives the original string — for all three substitutions; quoted_attribute_value is always `q body q` with q not in body; any "
          "permutation of the regex alternation gives the same output; Formatter.substitute leaves a string alone exactly when its parent's "
          "name is in the configured cdata_containing_tags (explicit empty = nothing exempt) and the round trips hold through "
          "format_string / formatter_for_name / attribute rendering for object, registry-key and callable formatters. "
          "_populate_class_variables is mirrored: for ANY html5 table (values of <= 2 code points) the alternatives it builds are mutually "
          "exclusive, catch every named character, and are all named — by construction. Table obligations decided by the kernel on every "
          "run over the WHOLE live tables (all ~1480 alternatives parsed back from the compiled patterns, every key of "
          "html.entities.html5, the registries, HTML_DEFAULTS). 4.13.0's substitute_html5 (kept as substHtml5Old) is refuted by four decided "
          "witnesses and proved equal to the repaired function wherever both take the same decision at every ampersand. "
          "Tie: differential runs against the real code and the real parser: every BMP code point, every table key, every entity name with "
          "and without ';', all strings <= 4 (thorough 5) over a 12-symbol markup alphabet, random/malformed strings; Tag.decode() for "
          "strings under 21 parent names, parser-built string classes, custom cdata_containing_tags, render histories on the shared "
          "formatters, XML-tree and callable formatters, list/tuple/None attribute values; _populate_class_variables on the live and on "
          "synthetic html5 tables; eight PYTHONHASHSEED values."),
    design="7/C09",
    note=("The text reader is PROVED equal to the tokenizer code-mirror (Model/Tokenizer.lean, tied to CPython by ./check TK) composed with "
          "bs4's handlers on every text the three substitutions write (reader_text_is_tokenizer_on_substituted), the attribute reader "
          "to the tokenizer's attrValue given P.unescape = the model of html.unescape (reader_attr_is_tokenizer; the model is compared with "
          "the real html.unescape on every written value); the round trips are re-stated through Tokenizer.run (*_tokenized). Still "
          "RECORDED: html.unescape itself, and the reader on texts no substitution writes (numeric references, `&#` bail) — both reader "
          "models are also compared with the real parser on every generated case. TWO READING CONTEXTS: text followed by a tag (readText: "
          "all theorems, proved equal to the tokenizer) and text as the last thing of the document (readTextEnd: round trips proved for "
          "all three substitutions, reader model compared with the real parser per case, not proved equal to the tokenizer). Text is read back inside <pre> (bs4 collapses whitespace-only strings elsewhere — builder "
          "policy). Decimal references of more than 4300 digits (C06) are not generated. The name round trip of the tables "
          "(HTML_ENTITY_TO_CHARACTER[CHARACTER_TO_HTML_ENTITY[k]] = k) is a decided fact of the live tables, not a consequence of the "
          "construction. The exact set of strings the OLD substitute_html5 round-trips is not characterised (sufficient condition + "
          "refutations only)."),
    technique="Lean 4 proof over abstract tables + kernel-decided whole-table obligations + exhaustive/random correspondence with the real substitution functions, formatter glue and the real parser",
)

ALPHABET = "&<>\"';#x1alt"
RUNAWAY = 0x110000
NAMES = "xml xmlce html html5 html5raw quote html5old rt_xml q_xml ra_xml rt_html q_html ra_html rt_html5 q_html5 ra_html5 rt_raw ra_raw un_xml un_html un_html5 rte_xml rte_html rte_html5 rte_raw".split()
KF_LEGACY = "C09-html5-bare-legacy-ref"
KF_NUMERIC = "C09-html5-bare-numeric-ref"
KF_SEMI = "C09-html5-unknown-ref-semicolon-dropped"
KF_RUNAWAY = "C09-html5-amp-hash-runaway"


def _E():
    from bs4.dammit import EntitySubstitution
    return EntitySubstitution


def show(s):
    return "none" if s is None else tok(s)


def parse_back(text, quoted):
    """(text read back — with the runaway marker when the tokenizer swallowed the closing tag —, attribute read back)."""
    from bs4 import BeautifulSoup
    soup = BeautifulSoup("<pre t=%s>%s</pre>" % (quoted, text), "html.parser")
    pre = soup.find("pre")
    if pre is None:
        return None, None
    t = pre.get_text()
    a = pre.get("t")
    if t.endswith("</pre>") and soup.find_all(True) == [pre]:
        t = t[:-6] + chr(0x10FFFF) + "RUNAWAY"
    return t, a


_WS = set(" \n\t\x0c\r")


def parse_end(text):
    """the text the tree holds when `text` is the whole document (top-level text, nothing after it). Whitespace-only text
    is returned as it stands (bs4 collapses such strings outside <pre>: builder policy, not entity handling)."""
    import warnings
    from bs4 import BeautifulSoup
    if text and all(c in _WS for c in text):
        return text
    try:
        with warnings.catch_warnings():
            warnings.simplefilter("ignore")
            soup = BeautifulSoup(text, "html.parser")
    except Exception:
        return None
    return "".join(str(x) for x in soup.contents)


def show_text(t):
    if t is None:
        return "none"
    if t.endswith(chr(0x10FFFF) + "RUNAWAY"):
        body = t[:-8]
        return (tok(body) + "," if body else "") + str(RUNAWAY)
    return tok(t)


# ---------------------------------------------------------------------------------------------------------------
# classifier of the known html5 findings — from the *output* of substitute_html5, using CPython's own regexes
# ---------------------------------------------------------------------------------------------------------------
_LEGIT = re.compile(r"&([A-Za-z][A-Za-z0-9]*);")


def bare_ampersands(o):
    """positions of the ampersands of a substitute_html5 output that are not the start of a reference the substitution
    itself produced (`&name;` with a known name: an original `&name;` would have become `&amp;name;`)."""
    E = _E()
    out = []
    for i, c in enumerate(o):
        if c != "&":
            continue
        m = _LEGIT.match(o, i)
        if m and m.group(1) in E.HTML_ENTITY_TO_CHARACTER:
            continue
        out.append(i)
    return out


def classify_html5_text(o):
    """which known-finding classes the text `o` falls in, when read by html.parser + bs4"""
    E = _E()
    doc = o + "<"
    kinds = set()
    bails = 0
    for i in bare_ampersands(o):
        if doc.startswith("&#", i):
            m = _hp.charref.match(doc, i)
            if m:
                if not m.group().endswith(";"):
                    kinds.add(KF_NUMERIC)
            elif bails == 0 and ";" in o[i:]:
                bails = 1  # feed() hands "&#" to handle_data and stops; close() resumes after it
            else:
                kinds.add(KF_RUNAWAY)  # met by close(): the rest of the document becomes text
                break
        else:
            m = _hp.entityref.match(doc, i)
            if m:
                known = m.group(1) in E.HTML_ENTITY_TO_CHARACTER
                if known and not m.group().endswith(";"):
                    kinds.add(KF_LEGACY)
                elif not known and m.group().endswith(";"):
                    kinds.add(KF_SEMI)
    return kinds


def classify_html5_attr(o):
    kinds = set()
    for i in bare_ampersands(o):
        m = _html._charref.match(o, i)
        if not m or _html.unescape(m.group(0)) == m.group(0):
            continue
        body = m.group(1)
        if body.startswith("#"):
            if not body.endswith(";"):
                kinds.add(KF_NUMERIC)
        elif not (body.endswith(";") and body in _html.entities.html5):
            # a semicolon-less legacy name, possibly only a prefix of the run ('&quot-;' -> '"-;')
            kinds.add(KF_LEGACY)
    return kinds


# ---------------------------------------------------------------------------------------------------------------
# one case on the real code (runs in worker processes)
# ---------------------------------------------------------------------------------------------------------------
def real_case(s):
    """-> (reply line in the driver's `all` format, [oracle failures], branch labels)"""
    E = _E()
    from bs4.formatter import HTMLFormatter, XMLFormatter
    fails, br = [], set()
    try:
        xml, xmlce, html, html5, raw5 = (E.substitute_xml(s), E.substitute_xml_containing_entities(s), E.substitute_html(s),
                                         E.substitute_html5(s), E.substitute_html5_raw(s))
        quote = E.quoted_attribute_value(s)
    except Exception as e:  # an exception is an observable
        return "exc:" + type(e).__name__, [dict(what="substitution raised " + type(e).__name__, kind="exception", kf=None)], {"exception"}
    # what 4.13.0 as shipped computed (model: substHtml5Old), re-assembled from the live regexes and callbacks
    esc = getattr(E, "_escape_entity_name", None) or (lambda m: "&amp;%s;" % m.group(1))
    old5 = E.CHARACTER_TO_HTML_ENTITY_RE.sub(E._substitute_html_entity, E.ANY_ENTITY_RE.sub(esc, s))
    fields = [xml, xmlce, html, html5, raw5, quote, old5]
    out = [tok(x) for x in fields]
    # Formatter.substitute / attribute_value of every registered formatter = its function
    fn = {"minimal": xml, "html": html, "html5": html5, "html5-4.12": html, None: s}
    for regname, reg in (("HTMLFormatter", HTMLFormatter.REGISTRY), ("XMLFormatter", XMLFormatter.REGISTRY)):
        for k, f in reg.items():
            if k in fn and (f.substitute(s) != fn[k] or f.attribute_value(s) != fn[k]):
                what = f"{regname}.REGISTRY[{k!r}].substitute/attribute_value differs from its documented function"
                obs, exp = tok(f.substitute(s)), tok(fn[k])
                if k in ("minimal", "html", "html5-4.12"):
                    # the property itself, through this formatter
                    t, a = parse_back(f.substitute(s), E.quoted_attribute_value(f.attribute_value(s)))
                    if t != s or a != s:
                        what = f"text/attribute written with {regname}.REGISTRY[{k!r}] is read back differently"
                        obs, exp = show_text(t) + " / " + show(a), tok(s)
                fails.append(dict(what=what, kind="formatter", kf=None, observed=obs, expected=exp))
    memo = {}

    def pb(text, quoted):
        # most strings are written unchanged by all three substitutions: parse each distinct document once
        key = (text, quoted)
        if key not in memo:
            memo[key] = parse_back(text, quoted)
        return memo[key]

    for name, o in (("xml", xml), ("html", html), ("html5", html5)):
        q = E.quoted_attribute_value(o)
        t, a = pb(o, q)
        out += [show_text(t), tok(q), show(a)]
        # --- oracle ---
        if "<" in o or ">" in o:
            fails.append(dict(what=f"raw angle bracket in the output of substitute_{name}", kind="raw-bracket", kf=None, observed=tok(o)))
        if not (len(q) >= 2 and q[0] == q[-1] and q[0] in "\"'" and q[0] not in q[1:-1]):
            fails.append(dict(what=f"quoted_attribute_value(substitute_{name}(s)) is not a well-formed quoted value", kind="quote",
                              kf=None, observed=tok(q)))
        if t != s:
            kinds = classify_html5_text(o) if name == "html5" else set()
            fails.append(dict(what=f"element text written with substitute_{name} is read back differently", kind="text-roundtrip:" + name,
                              kf=sorted(kinds)[0] if kinds else None, kinds=sorted(kinds), observed=show_text(t), expected=tok(s), written=tok(o)))
        elif name == "html5" and classify_html5_text(o):
            br.add("classifier-hit-but-roundtrip-ok:text")
        if a != s:
            kinds = classify_html5_attr(o) if name == "html5" else set()
            fails.append(dict(what=f"attribute value written with substitute_{name} + quoted_attribute_value is read back differently",
                              kind="attr-roundtrip:" + name, kf=sorted(kinds)[0] if kinds else None, kinds=sorted(kinds), observed=show(a),
                              expected=tok(s), written=tok(q)))
        elif name == "html5" and classify_html5_attr(o):
            br.add("classifier-hit-but-roundtrip-ok:attr")
    # the readers on the raw string (what formatter=None writes): validates the reader models on unescaped input
    if "<" not in s:
        t, a = pb(s, quote)
        out.append(show_text(t))
        if t is not None and t.endswith("RUNAWAY"):
            br.add("reader:runaway")
    else:
        out.append("skip")
        _, a = pb("", quote)
    out.append(show(a))
    # P.unescape of the tokenizer theorems = the real html.unescape, on the bodies actually written between the quotes
    for o in (xml, html, html5):
        out.append(tok(_html.unescape(E.quoted_attribute_value(o)[1:-1])))
    # the second reading context: the text is the last thing of the document (top level, no tag after it)
    for name, o in (("xml", xml), ("html", html), ("html5", html5), ("raw", s)):
        if "<" in o:
            out.append("skip")
            continue
        t = parse_end(o)
        out.append(tok(t) if t is not None else "exc")
        if name != "raw" and t is not None and t != s:
            fails.append(dict(what=f"text written with substitute_{name} as the LAST thing of a document (no tag after it) is read back differently",
                              kind="text-roundtrip-end:" + name, kf=None, observed=tok(t), expected=tok(s), written=tok(o)))
        if t != o:
            br.add("reader:end-of-document-special")
    if not (len(quote) >= 2 and quote[0] == quote[-1] and quote[0] in "\"'" and quote[0] not in quote[1:-1]):
        fails.append(dict(what="quoted_attribute_value(s) is not a well-formed quoted value", kind="quote", kf=None, observed=tok(quote)))
    # input distribution
    if html != s:
        br.add("escaped")
    if "&" in s:
        br.add("amp")
    if "<" in s or ">" in s:
        br.add("bracket")
    if '"' in s and "'" in s:
        br.add("quote:both")
    elif '"' in s:
        br.add("quote:double")
    elif "'" in s:
        br.add("quote:single")
    if any(len(k) > 1 and k in s for k in _long_keys()):
        br.add("multi-codepoint-entity")
    if xmlce != xml:
        br.add("looks-like-entity")
    if html5 != html:
        br.add("html5-differs-from-html")
    if any(ord(c) > 0xFFFF for c in s):
        br.add("astral")
    if any(0xD800 <= ord(c) <= 0xDFFF for c in s):
        br.add("surrogate")
    return " ".join(out), fails, br


_LK = None


def _long_keys():
    global _LK
    if _LK is None:
        _LK = [k for k in _E().CHARACTER_TO_HTML_ENTITY if len(k) > 1]
    return _LK


def _work(chunk):
    return [real_case(s) for s in chunk]


# ---------------------------------------------------------------------------------------------------------------
# generators
# ---------------------------------------------------------------------------------------------------------------
def gen_bmp():
    for c in range(0x10000):
        yield chr(c)
        yield "a" + chr(c) + "b"


def gen_keys():
    E = _E()
    from html.entities import html5
    keys = sorted(set(E.CHARACTER_TO_HTML_ENTITY) | set(html5.values()))
    seconds = sorted({k[1] for k in keys if len(k) > 1})
    for k in keys:
        yield k
        yield k + k
        yield "x" + k + ";"
        yield "&" + k + ";"
        if len(k) > 1:
            yield k[0]
            yield k[1] + k[0]
            for d in seconds:
                yield k[0] + d
                yield k[0] + d + k[1]


def gen_names():
    E = _E()
    from html.entities import html5
    names = sorted({n.rstrip(";") for n in html5} | set(E.HTML_ENTITY_TO_CHARACTER))
    for n in names:
        yield "&" + n
        yield "&" + n + ";"
        yield "&" + n + " y"
        yield "&" + n + "y;"
        yield "&" + n + "=1"


def gen_end_of_document():
    """texts that matter when nothing follows them: every known name x `-`/`.` x alphanumeric run, incomplete references,
    `&#` forms"""
    E = _E()
    for n in sorted(E.HTML_ENTITY_TO_CHARACTER):
        yield "&" + n + "-"
        yield "&" + n + "."
        yield "&" + n + "-x"
        yield "x &" + n + ".x1"
        yield "&" + n + "-a-b"
    for s in ["&a", "x&a", "&A", "&Z9", "&ab", "&a-", "&a-b", "&a.b-c", "&#", "&#6", "&#65", "&#x", "&#x4", "&#x41", "&#X41", "&#65;", "&#;x&#",
              "&", "&&", "&&a", "&lt", "&amp", "&Lt", "&Lt-x-y", "&Lt-x.y", "&Lt.-", "&Lt-x y", "&copy-", "&a&b", "&b;&a", "é&a", "&aé", "&a\n"]:
        yield s
        yield "abc " + s


def gen_alphabet(n):
    for k in range(n + 1):
        for t in itertools.product(ALPHABET, repeat=k):
            yield "".join(t)


def gen_random(rng, count):
    E = _E()
    keys = sorted(E.CHARACTER_TO_HTML_ENTITY)
    longs = [k for k in keys if len(k) > 1]
    names = sorted(E.HTML_ENTITY_TO_CHARACTER)
    legacy = ["amp", "lt", "gt", "quot", "copy", "not", "para", "AMP", "LT", "nbsp", "eacute"]
    lookalike = ["&amp;", "&lt;", "&gt;", "&quot;", "&apos;", "&#60;", "&#x3c;", "&#X3C;", "&#", "&#x", "&#;", "&#xz", "&#12ab;", "&#65", "&#x41",
                 "&#128;", "&#150", "&#0;", "&#xD800;", "&#1114112", "&unknown;", "&a-b;", "&a.b;", "&a-b", "&x", "&;", "& ", "&&", "&1;",
                 "&#١٢;", "&é;", "&é", "&lté", "&ampamp;", "&notit;", "&notin;", "&notin", "&ltx"]
    ctrl = ["\x00", "\r", "\n", "\r\n", "\t", "\x0c", "\x0b", "\x1f", "\x7f", "\x80", "\x85", "\x9f", "\xa0", " ", "﻿", "�", "￾", "￿"]
    misc = ["<", ">", "&", "\"", "'", ";", "#", "=", " ", "a", "Z", "9", "-", ".", "_", "/", "x", "X"]
    for _ in range(count):
        n = rng.choice((1, 2, 3, 4, 6, 9, 14, 25))
        parts = []
        for _ in range(n):
            r = rng.random()
            if r < 0.18:
                parts.append(rng.choice(lookalike))
            elif r < 0.30:
                parts.append("&" + rng.choice(names if rng.random() < 0.6 else legacy) + rng.choice(["", ";", " ", "=", "x", "-", "."]))
            elif r < 0.42:
                parts.append(rng.choice(keys))
            elif r < 0.52:
                k = rng.choice(longs)
                parts.append(rng.choice([k, k[0], k[1], k[0] + rng.choice(longs)[1], k + k[1]]))
            elif r < 0.60:
                parts.append(rng.choice(ctrl))
            elif r < 0.85:
                parts.append(rng.choice(misc))
            elif r < 0.93:
                parts.append(chr(rng.randrange(0x80, 0x3000)))
            elif r < 0.97:
                parts.append(chr(rng.randrange(0x10000, 0x110000)))
            else:
                parts.append(chr(rng.randrange(0xD800, 0xE000)))
        yield "".join(parts)


def gen_malformed(rng, count):
    for _ in range(count):
        kind = rng.randrange(6)
        if kind == 0:
            yield "&#" + "".join(rng.choice("0123456789") for _ in range(rng.randrange(1, 40))) + rng.choice(["", ";", "a", "g", " "])
        elif kind == 1:
            yield "&#" + rng.choice("xX") + "".join(rng.choice("0123456789abcdefABCDEF") for _ in range(rng.randrange(0, 30))) + rng.choice(["", ";", "g", " "])
        elif kind == 2:
            yield "&" + "".join(rng.choice("abcXYZ019") for _ in range(rng.randrange(28, 40))) + rng.choice(["", ";", " "])
        elif kind == 3:
            yield "&" + rng.choice(["lt", "amp", "copy", "a", "zz"]) + "".join(rng.choice("-.ab1") for _ in range(rng.randrange(1, 5))) + rng.choice(["", ";", "<", "&"])
        elif kind == 4:
            yield "".join(rng.choice("&#;xX09afg<>\"' ") for _ in range(rng.randrange(5, 12)))
        else:
            yield "&" * rng.randrange(1, 5) + rng.choice(["lt;", "#60;", "amp", ";", ""]) + "&" * rng.randrange(0, 3)



# ---------------------------------------------------------------------------------------------------------------
# contexts, configurations and histories: Formatter.substitute decides per string, from the parent's name and the
# formatter's cdata_containing_tags; the registry formatters are shared objects that live for the whole process
# ---------------------------------------------------------------------------------------------------------------
PARENTS = ["p", "textarea", "pre", "title", "template", "rt", "rp", "option", "a", "div", "td", "code", "x-custom", "scripts", "styles",
           "SCRIPT", "Style", "x:script", "svg:style"]  # names are compared exactly: none of these is `script` or `style`
EXEMPT_CANDIDATES = ["script", "style"]
CONTEXT_TEXTS = ["a<b", "x>y", "AT&T", "&lt;b&gt; makes text bold", "&amp;", "&copy; 2024", "if (a<b && b>c) go();", "]]> <!-- & -->",
                 "é<ü", "\"q\" & 'r' <", "&#60;", "≧̸<⃒", "p > a { color: red }", "AT&T &amp; &lt;"]
FN_CODE = {"substitute_xml": 1, "substitute_html": 2, "substitute_html5": 3}


def _formatter(spec):
    """formatter spec -> (argument for decode(formatter=…), the Formatter object or None, configured cdata set per the
    documentation, function code, protocol prefix for the model)"""
    from bs4.formatter import Formatter, HTMLFormatter, XMLFormatter
    E = _E()
    kind = spec["kind"]
    if kind in ("name", "default"):
        name = spec.get("name", "minimal") if kind == "name" else "minimal"
        xml = bool(spec.get("xml"))
        f = (XMLFormatter if xml else HTMLFormatter).REGISTRY[name]
        arg = name
        conf = set() if xml else {"script", "style"}
        line = f"c09 fmtstr {1 if xml else 0} key {0 if name is None else 1} {tok(name or '')}"
    elif kind == "callable":
        xml = bool(spec.get("xml"))
        arg = getattr(E, spec["fn"])
        f = (XMLFormatter if xml else HTMLFormatter)(entity_substitution=arg)  # what formatter_for_name is documented to build
        conf = set() if xml else {"script", "style"}
        line = f"c09 fmtstr {1 if xml else 0} callable {FN_CODE[spec['fn']]} -"
    elif kind == "registry":
        reg = XMLFormatter.REGISTRY if spec["reg"] == "x" else HTMLFormatter.REGISTRY
        f = reg[spec["name"]]
        arg = f
        conf = set() if spec["reg"] == "x" else {"script", "style"}
        line = f"c09 fmt {spec['reg']} {0 if spec['name'] is None else 1} {tok(spec['name'] or '')}"
    else:
        es = getattr(E, spec["fn"])
        cd = spec["cdata"]
        if cd is not None:
            cd = {"set": set, "frozenset": frozenset, "list": list, "tuple": tuple}[spec["ctype"]](cd)
        cls = spec["cls"]
        if cls == "Formatter-lang":
            # Formatter(language=<any way of producing the value>): the constant, the literal, a computed equal string
            # (a different object), a str subclass, None, "" and other spellings
            lv, form = spec["lang"], spec["form"]
            if lv is None:
                lang = None
            elif form == "const":
                lang = {"xml": Formatter.XML, "html": Formatter.HTML}.get(lv, lv)
            elif form == "computed":
                lang = "".join(list(lv))  # equal, not identical (never interned)
                assert lv == "" or len(lv) < 2 or lang is not lv
            elif form == "subclass":
                lang = type("Lang", (str,), {})(lv)
            else:
                lang = lv
            f = Formatter(lang, es, cdata_containing_tags=cd)
            arg = f
            xml = (lv == "xml")
            conf = set(spec["cdata"]) if spec["cdata"] is not None else (set() if xml else {"script", "style"})
            cdtok = "none" if spec["cdata"] is None else (";".join(tok(x) for x in spec["cdata"]) or "-")
            line = f"c09 fmtlang {'none' if lv is None else tok(lv)} {FN_CODE[spec['fn']]} {cdtok}"
            fn = 0 if f.entity_substitution is None else FN_CODE.get(getattr(f.entity_substitution, "__name__", ""), 99)
            return arg, f, conf, fn, line
        if cls.startswith("Sub-"):
            # a user SUBCLASS that overrides the documented class-level table HTML_DEFAULTS (formatter.py:50-52)
            base = {"Sub-HTMLFormatter": HTMLFormatter, "Sub-XMLFormatter": XMLFormatter, "Sub-Formatter": Formatter}[cls]
            sub = type("UserFormatter", (base,), {"HTML_DEFAULTS": dict(cdata_containing_tags=set(spec["class_defaults"]))})
            if spec.get("level") == 2:
                sub = type("UserFormatter2", (sub,), {})  # inherited once more
            if base is Formatter:
                f = sub(Formatter.HTML, es, cdata_containing_tags=cd)
            else:
                f = sub(entity_substitution=es, cdata_containing_tags=cd)
            arg = f
            xml = base is XMLFormatter
            conf = set(spec["cdata"]) if spec["cdata"] is not None else (set() if xml else set(spec["class_defaults"]))
            cdtok = "none" if spec["cdata"] is None else (";".join(tok(x) for x in spec["cdata"]) or "-")
            dtok = ";".join(tok(x) for x in sorted(spec["class_defaults"])) or "-"
            line = f"c09 fmtsub {'x' if xml else 'h'} {FN_CODE[spec['fn']]} {dtok} {cdtok}"
            fn = 0 if f.entity_substitution is None else FN_CODE.get(getattr(f.entity_substitution, "__name__", ""), 99)
            return arg, f, conf, fn, line
        if cls == "HTMLFormatter":
            f = HTMLFormatter(entity_substitution=es, cdata_containing_tags=cd)
        elif cls == "XMLFormatter":
            f = XMLFormatter(entity_substitution=es, cdata_containing_tags=cd)
        else:
            lang = {"Formatter-html": Formatter.HTML, "Formatter-xml": Formatter.XML, "Formatter-none": None}[cls]
            f = Formatter(lang, es, cdata_containing_tags=cd)
        arg = f
        xml = cls in ("XMLFormatter", "Formatter-xml")
        conf = set(spec["cdata"]) if spec["cdata"] is not None else (set() if xml else {"script", "style"})
        cdtok = "none" if spec["cdata"] is None else (";".join(tok(x) for x in spec["cdata"]) or "-")
        line = f"c09 fmtcfg {'x' if xml else 'h'} {FN_CODE[spec['fn']]} {cdtok}"
    fn = 0 if f.entity_substitution is None else FN_CODE.get(getattr(f.entity_substitution, "__name__", ""), 99)
    return arg, f, conf, fn, line


def run_scenario(steps):
    """Execute, in this process and in order, a list of steps {parent, s (code points), formatter spec}: each renders a
    fresh <parent t=S>S</parent> with the formatter. Returns (failures, [(model line, real reply)])."""
    from bs4 import BeautifulSoup
    from bs4.element import NavigableString
    E = _E()
    fails, corr = [], []
    for i, st in enumerate(steps):
        s, parent, spec = uncps(st["s"]), st["parent"], st["formatter"]
        arg, f, conf, fn, line = _formatter(spec)
        tag = None
        if st.get("parsed"):
            # the element as the parser builds it: the string then has the builder's class for this container
            # (Script, Stylesheet, TemplateString, RubyTextString, … — all subclasses of NavigableString)
            body = s if parent in ("script", "style") else E.substitute_xml(s)
            doc = BeautifulSoup("<%s t=%s>%s</%s>" % (parent, E.quoted_attribute_value(E.substitute_xml(s)), body, parent), "html.parser")
            cand = doc.find(parent)
            if cand is not None and len(cand.contents) == 1 and isinstance(cand.contents[0], NavigableString) \
                    and str(cand.contents[0]) == s and cand.get("t") == s:
                tag = cand
        if tag is None:
            soup = BeautifulSoup("", "html.parser")
            tag = soup.new_tag(parent)
            tag["t"] = s
            tag.string = s
            soup.append(tag)
        if spec.get("xml"):
            tag.known_xml = True  # formatter_for_name then consults XMLFormatter.REGISTRY / builds an XMLFormatter
        # through the glue: output_ready -> format_string -> formatter_for_name -> Formatter.substitute
        sub_t = tag.string.output_ready() if spec["kind"] == "default" else tag.string.output_ready(formatter=arg)
        direct = f.substitute(tag.string)
        if direct != sub_t:
            fails.append(dict(step=i, what="NavigableString.output_ready(formatter) differs from the Formatter's substitute()", kf=None,
                              observed=tok(sub_t), expected=tok(direct)))
        aval = s
        if st.get("attr_holder"):
            # the attribute value is a NavigableString OBJECT that lives inside another element (`p['t'] = script.string`):
            # an attribute value is an attribute value wherever the string object hangs
            holder = soup.new_tag(st["attr_holder"])
            holder.string = s
            soup.append(holder)
            aval = holder.string
            tag["t"] = aval
        sub_a = f.attribute_value(aval)
        rendered = tag.decode() if spec["kind"] == "default" else tag.decode(formatter=arg)
        corr.append((f"{line} {tok(parent)} {tok(s)}", tok(sub_t)))
        corr.append((f"{line} none {tok(s)}", tok(sub_a)))
        q = E.quoted_attribute_value(sub_a)
        if rendered != f"<{parent} t={q}>{sub_t}</{parent}>":
            fails.append(dict(step=i, what="Tag.decode() does not consist of Formatter.attribute_value/substitute of the attribute and the string",
                              kf=None, observed=tok(rendered), expected=tok(f"<{parent} t={q}>{sub_t}</{parent}>")))
        if fn == 0:
            continue
        where = f"step {i}: <{parent}> with formatter {json.dumps(spec, sort_keys=True)}"

        def bad(what, observed, expected, written, kinds=()):
            fails.append(dict(step=i, what=what + " — " + where, kf=sorted(kinds)[0] if kinds else None, kinds=sorted(kinds),
                              observed=observed, expected=expected, written=tok(written)))
        # attribute values are always substituted
        if "<" in sub_a or ">" in sub_a:
            bad("raw angle bracket in a substituted attribute value", tok(sub_a), None, sub_a)
        t_back, a_back = parse_back(sub_t if parent not in conf else "", q)
        if a_back != s:
            bad("attribute value is read back differently", show(a_back), tok(s), q, classify_html5_attr(sub_a) if fn == 3 else ())
        if parent in conf:
            # the documented exception: content of cdata_containing_tags is left alone
            if sub_t != s:
                bad(f"string inside <{parent}> (one of this formatter's cdata_containing_tags) was changed", tok(sub_t), tok(s), sub_t)
            continue
        if "<" in sub_t or ">" in sub_t:
            bad("raw angle bracket in substituted element text (the parent is not one of the formatter's cdata_containing_tags)",
                tok(sub_t), None, sub_t)
        if t_back != s:
            bad("element text is read back differently (the parent is not one of the formatter's cdata_containing_tags)",
                show_text(t_back), tok(s), sub_t, classify_html5_text(sub_t) if fn == 3 else ())
        elif spec["kind"] in ("name", "default", "callable") and parent == parent.lower() and parent not in ("script", "style"):
            # (html.parser reads the content of script/style raw: not a reader for substituted text — XML mode substitutes there)
            # and in place: what the parser reads from the rendered element itself
            back = BeautifulSoup(rendered, "html.parser").find(parent)
            txt = None if back is None else "".join(str(c) for c in back.contents if isinstance(c, NavigableString))
            att = None if back is None else back.get("t")
            if txt != s or att != s:
                bad("the rendered element is read back differently", show(txt) + " / " + show(att), tok(s), rendered,
                    (classify_html5_text(sub_t) | classify_html5_attr(sub_a)) if fn == 3 else ())
    return fails, corr


def scenarios(ctx):
    """(stream name, steps) — contexts (every parent name x every registered formatter), custom configurations of
    cdata_containing_tags, and histories (same text first inside script/style, then in an ordinary element, and reverse)"""
    rng = ctx.rng("contexts")
    texts = list(CONTEXT_TEXTS)
    for s in gen_random(rng, 400):
        if len(texts) >= ctx.n(30, 120):
            break
        if any(c in s for c in "<>&") and s.strip(" \t\n\r\x0c") and not any(0xD800 <= ord(c) <= 0xDFFF for c in s) and "</" not in s:
            texts.append(s)
    html_specs = [{"kind": "default"}] + [{"kind": "name", "name": n} for n in ("minimal", "html", "html5", "html5-4.12", None)]
    xml_specs = [{"kind": "registry", "reg": "x", "name": n} for n in ("minimal", "html", None)]
    glue_specs = ([{"kind": "name", "name": n, "xml": True} for n in ("minimal", "html", None)]
                  + [{"kind": "callable", "fn": fn, "xml": x} for fn in ("substitute_xml", "substitute_html", "substitute_html5") for x in (False, True)])
    for s in texts:
        for spec in html_specs + xml_specs:
            for parent in PARENTS + EXEMPT_CANDIDATES:
                yield "contexts", [dict(parent=parent, s=tok(s), formatter=spec)]
    for s in texts[:10]:
        for spec in html_specs[:4] + xml_specs[:1] + glue_specs[3:5]:
            for holder in ("script", "style", "textarea", "p"):
                yield "attr-value-object", [dict(parent="p", s=tok(s), formatter=spec, attr_holder=holder)]
    for s in texts[:10]:
        for spec in glue_specs:
            for parent in ("p", "script", "style", "textarea", "SCRIPT"):
                yield "glue", [dict(parent=parent, s=tok(s), formatter=spec)]
    # the same with elements built by the parser (string classes of the builder: TemplateString, RubyTextString, Script, …)
    for s in texts[:12]:
        if "</" in s or "\r" in s or "\x00" in s:
            continue
        for spec in html_specs[:3] + xml_specs[:1]:
            for parent in ("p", "template", "rt", "rp", "textarea", "pre", "title", "script", "style"):
                yield "contexts-parsed", [dict(parent=parent, s=tok(s), formatter=spec, parsed=True)]
    # custom configurations
    cds = [(None, "set"), ([], "set"), ([], "frozenset"), ([], "list"), ([], "tuple"), (["script"], "set"), (["x-custom"], "set"),
           (["pre", "script", "style"], "list")]
    for s in texts[:8]:
        for cls in ("Formatter-html", "Formatter-none", "Formatter-xml", "HTMLFormatter", "XMLFormatter"):
            for fn in ("substitute_xml", "substitute_html"):
                for cd, ctype in cds:
                    spec = dict(kind="custom", cls=cls, fn=fn, cdata=cd, ctype=ctype)
                    for parent in ("p", "script", "style", "x-custom", "pre", "textarea"):
                        yield "custom-cdata", [dict(parent=parent, s=tok(s), formatter=spec)]
    # the language argument of a user-built Formatter, in every way a program can come by the value
    langs = [("xml", "const"), ("xml", "literal"), ("xml", "computed"), ("xml", "subclass"), ("html", "const"), ("html", "computed"),
             ("html", "subclass"), (None, "literal"), ("", "literal"), ("XML", "literal"), ("Xml", "computed"), ("xhtml", "literal"),
             ("xml ", "computed")]
    for s in texts[:6]:
        for lv, form in langs:
            for fn in ("substitute_xml", "substitute_html"):
                for cd, ctype in ((None, "set"), ([], "set"), (["script"], "set")):
                    spec = dict(kind="custom", cls="Formatter-lang", lang=lv, form=form, fn=fn, cdata=cd, ctype=ctype)
                    for parent in ("p", "script", "style"):
                        yield "custom-language", [dict(parent=parent, s=tok(s), formatter=spec)]
    # user subclasses that set the defaults at CLASS level
    for s in texts[:6]:
        for cls in ("Sub-HTMLFormatter", "Sub-Formatter", "Sub-XMLFormatter"):
            for cdef in ([], ["script"], ["style", "x-custom"], ["pre", "script", "style"]):
                for fn in ("substitute_xml", "substitute_html", "substitute_html5"):
                    for cd, level in ((None, 1), (None, 2), (["script"], 1)):
                        spec = dict(kind="custom", cls=cls, class_defaults=cdef, level=level, fn=fn, cdata=cd, ctype="set")
                        for parent in ("p", "script", "style", "x-custom", "pre"):
                            yield "custom-subclass", [dict(parent=parent, s=tok(s), formatter=spec)]
    # histories: every text is unique to its history, so nothing rendered earlier in this process can interfere
    k = 0
    for base in texts[:ctx.n(16, 60)]:
        for spec in html_specs[:5] + xml_specs[:2]:
            for special in EXEMPT_CANDIDATES:
                for order in ("special-first", "ordinary-first", "attribute-only-then-special"):
                    k += 1
                    s = tok(f"h{k}: " + base)
                    a = dict(parent=special, s=s, formatter=spec)
                    b = dict(parent=rng.choice(["p", "pre", "textarea", "div"]), s=s, formatter=spec)
                    if order == "special-first":
                        yield "histories", [a, b, a]
                    elif order == "ordinary-first":
                        yield "histories", [b, a, b]
                    else:
                        yield "histories", [b, a]


def attr_form_checks(ctx, drv):
    """attribute values as _format_tag meets them: None, str, list, tuple — key or key="…" """
    from bs4 import BeautifulSoup
    from bs4.formatter import HTMLFormatter
    vals = [("absent", None), ("str", ""), ("str", "a<b&c"), ("str", "\"q\" 'r'"), ("list", ["a\"b", "c'<d"]), ("list", ["x"]), ("list", []),
            ("tuple", ("é&lt;", ">")), ("list", ["&amp;", "≧̸"])]
    lines, impl, cases = [], [], []
    for name in ("minimal", "html", "html5", "html5-4.12", None):
        for kind, v in vals:
            if v == "" and HTMLFormatter.REGISTRY[name].empty_attributes_are_booleans:
                continue  # that option turns "" into a bare key (Formatter.attributes) — rendering policy, C15
            soup = BeautifulSoup("", "html.parser")
            tag = soup.new_tag("p")
            tag["t"] = v
            rendered = tag.decode(formatter=name)
            mk = "absent" if v is None else ("str" if kind == "str" else "list")
            mv = "-" if v is None else (tok(v) if kind == "str" else (";".join(tok(x) for x in v) or "-"))
            lines.append(f"c09 fmtattr h {0 if name is None else 1} {tok(name or '')} {tok('t')} {mk} {mv}")
            impl.append(tok(rendered[3:-5]) if rendered.startswith("<p ") and rendered.endswith("></p>") else "unexpected:" + tok(rendered))
            case = {"op": "attr-form", "formatter": name, "kind": kind, "value": v if v is None or kind == "str" else list(v)}
            cases.append(case)
            ctx.case(("attr-form", name, kind, repr(v)))
            ctx.count("stream:attr-forms")
            if name is not None and v is not None and any(x.strip() for x in ([v] if kind == "str" else v)):
                want = v if kind == "str" else " ".join(v)
                back = BeautifulSoup(rendered, "html.parser").find("p")
                got = None if back is None else back.get("t")
                if got != want:
                    ctx.violation("an attribute value (%s) rendered by Tag.decode(formatter=%r) is read back differently" % (kind, name),
                                  case=case | {"rendered": tok(rendered)}, expected=tok(want), observed=show(got), stream="attr-forms")
    rep = drv.ask(lines)
    for l, a, b, c in zip(lines, impl, rep, cases):
        if a != b:
            ctx.corr_disagreements += 1
            ctx.violation("model and implementation disagree (attribute rendering)", case=c | {"line": l}, observed=a, model=b,
                          stream="attr-forms-correspondence", no_failing_input=True)


def meta_charset_checks(ctx, drv):
    """a parsed <meta> whose content/charset value is the builder's charset stand-in (AttributeValueWithCharsetSubstitution)
    AND holds markup-significant text: rendered with and without an eventual_encoding, the (rewritten) value is an
    attribute value like any other"""
    from bs4 import BeautifulSoup
    from bs4.element import AttributeValueWithCharsetSubstitution
    E = _E()
    rng = ctx.rng("meta")
    extras = ["AT&T <x> 'q'", "a<b", "&amp; &lt;", "x>y \"z\"", "&copy; 2024", "note=&Lt-", "é≧̸", "plain"] + \
        [s for s in gen_random(rng, 60) if s.strip() and ";" not in s and not any(0xD800 <= ord(c) <= 0xDFFF for c in s)][:ctx.n(12, 60)]
    lines, impl, cases = [], [], []
    for extra in extras:
        for shape in ("content-charset-first", "content-charset-last", "charset-attr", "content-no-charset"):
            if shape == "content-charset-first":
                attrs = {"http-equiv": "Content-Type", "content": "text/html; charset=x-sjis; note=" + extra}
                key = "content"
            elif shape == "content-charset-last":
                attrs = {"http-equiv": "content-type", "content": "text/html; note=" + extra + "; charset=ISO-8859-2"}
                key = "content"
            elif shape == "charset-attr":
                attrs = {"charset": "x-sjis", "title": extra}
                key = "charset"
            else:
                attrs = {"http-equiv": "Content-Type", "content": "text/html; note=" + extra}
                key = "content"
            src = "<meta " + " ".join(k + "=" + E.quoted_attribute_value(E.substitute_xml(v)) for k, v in attrs.items()) + "/>"
            soup = BeautifulSoup(src, "html.parser")
            meta = soup.find("meta")
            if meta is None or any(meta.get(k) != v for k, v in attrs.items()):
                continue
            val = meta[key]
            standin = isinstance(val, AttributeValueWithCharsetSubstitution)
            for name in ("minimal", "html", "html5", None):
                for enc in ("utf-8", "koi8-r", None, "default"):
                    kw = {} if enc == "default" else {"eventual_encoding": enc}
                    rendered = meta.decode(formatter=name, **kw)
                    eff = "utf-8" if enc == "default" else enc
                    want = val.substitute_encoding(eff) if (standin and eff is not None) else str(val)
                    case = {"op": "meta", "source": tok(src), "attribute": key, "formatter": name, "eventual_encoding": enc, "shape": shape}
                    ctx.case(("meta", src, name, enc))
                    ctx.count("stream:meta-charset")
                    ctx.count("meta:" + ("stand-in" if standin else "plain") + ":" + ("rewritten" if want != str(val) else "as-is"))
                    back = BeautifulSoup(rendered, "html.parser").find("meta")
                    got = None if back is None else back.get(key)
                    if name is not None:
                        m = re.search(r"(?:^|\s)" + key + r"=(\"[^\"]*\"|'[^']*')", rendered)
                        q = m.group(1) if m else ""
                        if "<" in q[1:-1] or ">" in q[1:-1]:
                            ctx.violation(f"raw angle bracket inside the quoted {key} value of a <meta> rendered with formatter {name!r}",
                                          case=case | {"rendered": tok(rendered)}, observed=tok(q), stream="meta-charset")
                        if got != want:
                            ctx.violation(f"the {key} value of a <meta> (charset rewritten for the output encoding) rendered with formatter {name!r} is read back differently",
                                          case=case | {"rendered": tok(rendered)}, expected=tok(want), observed=show(got), stream="meta-charset")
                    # the model: key="value" of the (rewritten) text through the named formatter
                    mm = re.search(r"(?:^|\s)(" + key + r"=(?:\"[^\"]*\"|'[^']*'))", rendered)
                    lines.append(f"c09 fmtattr h {0 if name is None else 1} {tok(name or '')} {tok(key)} {'charset' if standin and eff is not None else 'str'} {tok(want)}")
                    impl.append(tok(mm.group(1)) if mm else "not-found:" + tok(rendered))
                    cases.append(case)
    rep = drv.ask(lines)
    for l, a, b, c in zip(lines, impl, rep, cases):
        if a != b:
            ctx.corr_disagreements += 1
            ctx.violation("model and implementation disagree (<meta> attribute rendering)", case=c | {"line": l}, observed=a, model=b,
                          stream="meta-charset-correspondence", no_failing_input=True)


def context_checks(ctx, drv):
    attr_form_checks(ctx, drv)
    meta_charset_checks(ctx, drv)
    lines, impl, where = [], [], []
    for stream, steps in scenarios(ctx):
        fails, corr = run_scenario(steps)
        ctx.case((stream, json.dumps(steps, sort_keys=True)),
                 sample={"stream": stream, "steps": steps} if stream == "histories" and len(ctx.samples) < 10 else None)
        ctx.count(f"stream:{stream}")
        for st in steps:
            ctx.count(f"{stream}:parent:" + ("cdata-candidate" if st["parent"] in EXEMPT_CANDIDATES else "ordinary"))
        case = {"op": "scenario", "stream": stream, "steps": steps}
        for f in fails:
            ctx.count(f"oracle-fail:{stream}" + (":known" if f.get("kf") else ""))
            ctx.violation(f["what"], case=case | {"step": f["step"], "kinds": f.get("kinds"), "written": f.get("written")},
                          expected=f.get("expected"), observed=f.get("observed"), stream=stream, kf=f.get("kf"))
        real_fail = any(f.get("kf") not in ctx.known for f in fails)
        for l, r in corr:
            lines.append(l)
            impl.append(r)
            where.append((case, real_fail))
    rep = drv.ask(lines)
    for l, a, b, (case, real_fail) in zip(lines, impl, rep, where):
        if a != b:
            ctx.corr_disagreements += 1
            ctx.count("disagreement:" + case["stream"])
            if not real_fail:
                ctx.violation("model and implementation disagree (Formatter.substitute / attribute_value)", case=case | {"line": l},
                              observed=a, model=b, stream=case["stream"] + "-correspondence", no_failing_input=True)



# ---------------------------------------------------------------------------------------------------------------
# _populate_class_variables: the live tables and synthetic html5 tables against the model BS.Entities.populate*
# ---------------------------------------------------------------------------------------------------------------
_PARTICLE = re.compile(r"(.)\(\?!\[(.+)\]\)", re.S)


def canonical_tables(cls):
    """everything _populate_class_variables left on `cls`, in the driver's canonical rendering"""
    def L(x):
        return tok(x)
    parts = []
    for x in cls.CHARACTER_TO_HTML_ENTITY_WITH_AMPERSAND_RE.pattern[1:-1].split("|"):
        m = _PARTICLE.fullmatch(x)
        key, la = (m.group(1), m.group(2)) if m else (x, "")
        parts.append(([ord(c) for c in key], sorted({ord(c) for c in la})))
    parts.sort()
    pstr = ";".join(",".join(map(str, k)) + "|" + (",".join(map(str, la)) or "-") for k, la in parts)
    plain = sorted(x for x in cls.CHARACTER_TO_HTML_ENTITY_RE.pattern[1:-1].split("|") if x != "")  # "()" when the table is empty
    amp_minus = sorted(x for x in cls.CHARACTER_TO_HTML_ENTITY_WITH_AMPERSAND_RE.pattern[1:-1].split("|") if x != "&")
    ustr = ";".join(L(k) + "=" + L(v) for k, v in sorted(cls.CHARACTER_TO_HTML_ENTITY.items(), key=lambda kv: [ord(c) for c in kv[0]]))
    nstr = ";".join(L(k) + "=" + L(v) for k, v in sorted(cls.HTML_ENTITY_TO_CHARACTER.items(), key=lambda kv: [ord(c) for c in kv[0]]))
    so = getattr(cls, "SEMICOLON_OPTIONAL_ENTITY_RE", None)
    legacy = sorted(set(so.pattern.split("|")) - {""}) if so is not None else []
    lstr = ";".join(L(x) for x in legacy)
    return f"P {pstr} U {ustr} N {nstr} L {lstr}", plain == amp_minus


def synthetic_tables(rng, count):
    chars = ["<", ">", "é", "ü", "≧", "≧̸", "≧⃒", "<⃒", ">⃒", "=⃥", "fj", "a", "|", "≪", "≪̸", "≪⃒", "\U0001d538", "∾̳", "ǵ",
             "\xa0", "&"]
    names = ["a", "b", "ab", "lt", "gt", "LT", "amp", "x1", "nvlt", "gE", "ngE", "ngeqq", "eacute", "Eacute", "z9", "Aopf", "bne", "fjlig", "nbsp"]
    for _ in range(count):
        k = rng.randrange(1, 10)
        tbl = {}
        for _ in range(k):
            n = rng.choice(names)
            ch = rng.choice(chars)
            form = rng.randrange(3)
            if form in (0, 2):
                tbl[n + ";"] = ch
            if form in (1, 2):
                tbl[n] = ch if rng.random() < 0.9 else rng.choice(chars)
        cp = {}
        for _ in range(rng.randrange(0, 4)):
            c = rng.choice([c for c in chars if len(c) == 1] + ["〈", "x"])
            cp[ord(c)] = rng.choice(names)
        yield tbl, cp


def populate_checks(ctx, drv):
    import bs4.dammit as D
    from unittest import mock
    E = _E()
    lines, impl, cases = ["c09 populate-live"], [], [{"op": "populate", "table": "live"}]
    real, same = canonical_tables(E)
    impl.append(real)
    if not same:
        ctx.violation("CHARACTER_TO_HTML_ENTITY_WITH_AMPERSAND_RE is not CHARACTER_TO_HTML_ENTITY_RE plus '&'", case=cases[0], stream="populate")
    for tbl, cp in synthetic_tables(ctx.rng("populate"), ctx.n(300, 3000)):
        case = {"op": "populate", "html5": {k: tok(v) for k, v in tbl.items()}, "codepoint2name": cp}
        Tmp = type("Tmp", (E,), {})
        try:
            with mock.patch.object(D, "html5", tbl), mock.patch.object(D, "codepoint2name", cp):
                Tmp._populate_class_variables()
            real, same = canonical_tables(Tmp)
        except Exception as e:
            real, same = "exc:" + type(e).__name__, True
        items = "/".join(f"{tok(k)}:{tok(v)}" for k, v in sorted(tbl.items())) or "-"
        cpl = "/".join(f"{k}:{tok(v)}" for k, v in cp.items()) or "-"
        lines.append(f"c09 populate {items} {cpl}")
        impl.append(real)
        cases.append(case)
        if not same:
            ctx.violation("CHARACTER_TO_HTML_ENTITY_WITH_AMPERSAND_RE is not CHARACTER_TO_HTML_ENTITY_RE plus '&'", case=case, stream="populate")
        # by-construction facts, directly on the real result: every alternative has a name; alternatives mutually exclusive
        if not real.startswith("exc:"):
            keys = [uncps(p.split("|")[0]) for p in real.split(" ")[1].split(";") if p]
            for k in keys:
                if k != "&" and k not in Tmp.CHARACTER_TO_HTML_ENTITY:  # '&' is added to the alternation separately (dammit.py:227)
                    ctx.violation("an alternative of the generated regex has no name in CHARACTER_TO_HTML_ENTITY", case=case | {"key": tok(k)}, stream="populate")
    rep = drv.ask(lines)
    for l, a, b, c in zip(lines, impl, rep, cases):
        ctx.case(("populate", l[:200]))
        ctx.count("stream:populate")
        if a != b:
            ctx.corr_disagreements += 1
            sec = [n for n, x, y in zip("PUNL", a.split(" ")[1::2], b.split(" ")[1::2]) if x != y] if not a.startswith("exc") else ["exception"]
            ctx.violation("model and implementation disagree (_populate_class_variables): sections " + ",".join(sec), case=c | {"line": l[:300]},
                          observed=a[:2000], model=b[:2000], stream="populate-correspondence", no_failing_input=True)


# ---------------------------------------------------------------------------------------------------------------
def hash_seed_digest(seed):
    """substitute_html/html5 over all keys and their neighbours, in a fresh interpreter with the given PYTHONHASHSEED"""
    code = ("import sys,hashlib;sys.path.insert(0,%r);from bs4.dammit import EntitySubstitution as E;"
            "ks=sorted(E.CHARACTER_TO_HTML_ENTITY);h=hashlib.sha256();"
            "[h.update((E.substitute_html(x)+'|'+E.substitute_html5(x)).encode('utf8','surrogatepass')) for k in ks for x in (k,k+k,k[0]+'\\u0338',k[0]+'\\u20d2'+k,'&'+k)];"
            "print(h.hexdigest())") % str(REPO)
    env = dict(os.environ, PYTHONHASHSEED=str(seed))
    p = subprocess.run([sys.executable, "-c", code], env=env, capture_output=True, text=True)
    return p.stdout.strip() or ("error: " + p.stderr[-300:])


def run(ctx: Ctx):
    ctx.rule = ("one case = one string s: the five substitution functions, quoted_attribute_value, Formatter.substitute/attribute_value of "
                "every registered formatter, and what the real parser reads back from <pre t=QUOTED>TEXT</pre> for the xml/html/html5 "
                "outputs and for the raw string; non-trivial = substitute_html changes s (at least one escaped character); "
                "one scenario = 1-3 renderings, in this process and in order, of <parent t=S>S</parent> through Tag.decode() with a registered, "
                "default or custom-configured formatter (parents: 15 ordinary names + script/style; cdata_containing_tags: None, four empty "
                "collections, three non-empty), each checked against the property and the documented exemption")
    ctx.assumptions = ["text is read back inside <pre> so that bs4's collapsing of whitespace-only strings (builder policy) does not interfere",
                       "the document tail after the text (`</pre>`) holds no ';' (the tokenizer's `&#` bail looks there)",
                       "no decimal character reference of more than 4300 digits (C06's ValueError)",
                       "the canonical (sorted) order of the regex alternation stands for every order: theorem order_irrelevant + runs of the real code under eight PYTHONHASHSEED values"]
    import bs4
    ctx.notes.append(f"bs4 under test: {bs4.__file__}")
    streams = []
    cdir = os.path.join(os.path.dirname(os.path.dirname(os.path.abspath(__file__))), "corpus", "C09")
    if os.path.isdir(cdir):
        cs = []
        for f in sorted(os.listdir(cdir)):
            if f.endswith(".json"):
                cs.append(uncps(json.load(open(os.path.join(cdir, f)))["s"]))
        streams.append(("corpus", cs))
    streams.append(("bmp-exhaustive", list(gen_bmp())))
    streams.append(("table-keys", list(gen_keys())))
    streams.append(("entity-names", list(gen_names())))
    streams.append(("end-of-document", list(gen_end_of_document())))
    nalpha = 5 if ctx.thorough else 4
    streams.append((f"alphabet<={nalpha}", list(gen_alphabet(nalpha))))
    streams.append(("random", list(gen_random(ctx.rng("random"), ctx.n(8000, 80000)))))
    streams.append(("malformed", list(gen_malformed(ctx.rng("malformed"), ctx.n(2000, 20000)))))
    ctx.exhaustive_parts += ["every BMP code point c as 'c' and 'acb'", "every key of CHARACTER_TO_HTML_ENTITY and value of html5 (+ neighbours)",
                             "&name, &name;, &name y, &namey;, &name=1 for every entity name", f"all strings <= {nalpha} over {ALPHABET!r}"]
    all_cases, stream_of = [], []
    seen = set()
    for name, cases in streams:
        k = 0
        for s in cases:
            if s in seen:
                continue
            seen.add(s)
            all_cases.append(s)
            stream_of.append(name)
            k += 1
        ctx.count(f"stream:{name}", k)
    # --- real code, in parallel
    nproc = min(16, os.cpu_count() or 4)
    chunks = [all_cases[i:i + 400] for i in range(0, len(all_cases), 400)]
    mp = multiprocessing.get_context("fork")
    with mp.Pool(nproc) as pool:
        results = [r for part in pool.map(_work, chunks) for r in part]
    # --- Lean model, several driver processes
    lines = ["c09 all " + tok(s) for s in all_cases]
    drv = Driver()
    lchunks = [lines[i:i + 4000] for i in range(0, len(lines), 4000)]
    with ThreadPoolExecutor(max_workers=min(12, nproc)) as ex:
        replies = [r for part in ex.map(drv.ask, lchunks) for r in part]
    # --- compare
    for s, stream, (impl, fails, br), model in zip(all_cases, stream_of, results, replies):
        nontriv = "escaped" in br
        ctx.case(("s", s) if nontriv else None,
                 sample={"s": s, "html": uncps(impl.split()[2]) if " " in impl else impl} if nontriv and stream == "random" and len(ctx.samples) < 8 else None)
        for b in br:
            ctx.count("branch:" + b)
        case = {"op": "subst", "s": tok(s), "repr": ascii(s)}
        real_fail = False
        for f in fails:
            real_fail = real_fail or f.get("kf") not in ctx.known
            ctx.count("oracle-fail:" + f["kind"] + (":known" if f.get("kf") else ""))
            ctx.violation(f["what"], case=case | {"kind": f["kind"], "kinds": f.get("kinds"), "written": f.get("written")},
                          expected=f.get("expected"), observed=f.get("observed"), stream=stream, kf=f.get("kf"))
        if impl != model and "rte_" in " ".join(NAMES):
            # a text that is whitespace-only AFTER decoding (`&Tab;`) is collapsed by bs4 outside <pre>: builder policy
            def ws(x):
                return x not in ("skip", "exc", "-") and all(chr(int(c)) in _WS for c in x.split(","))
            a, b = impl.split(" "), model.split(" ")
            if len(a) == len(b) == len(NAMES):
                for i, n in enumerate(NAMES):
                    if n.startswith("rte_") and a[i] != b[i] and ws(a[i]) and ws(b[i]):
                        b[i] = a[i]
                model = " ".join(b)
        if impl != model:
            ctx.corr_disagreements += 1
            a, b = impl.split(" "), model.split(" ")
            diff = {n: {"real": x, "model": y} for n, x, y in zip(NAMES, a, b) if x != y} if len(a) == len(b) else {"line": {"real": impl, "model": model}}
            ctx.count("disagreement:" + ",".join(sorted(diff))[:60])
            if not real_fail:
                ctx.violation("model and implementation disagree: " + ",".join(sorted(diff)), case=case | {"diff": diff},
                              observed=impl, model=model, stream=stream + "-correspondence", no_failing_input=True)
    # --- Formatter.substitute on a NavigableString inside a cdata-containing tag, and the dictionaries themselves
    formatter_and_dict_checks(ctx, drv)
    # --- the same substitutions through Tag.decode(): every parent name, custom cdata_containing_tags, histories
    context_checks(ctx, drv)
    # --- _populate_class_variables against its model: the live tables and synthetic html5 tables
    populate_checks(ctx, drv)
    # --- the order of the alternation (hash seed)
    seeds = (0, 1, 2, 3, 5, 8, 13, 12345)
    with ThreadPoolExecutor(max_workers=8) as ex:
        digests = dict(zip(seeds, ex.map(hash_seed_digest, seeds)))
    ctx.extra["hash_seed_digests"] = digests
    if len(set(digests.values())) != 1 or any(d.startswith("error") for d in digests.values()):
        ctx.violation("substitute_html/substitute_html5 depend on PYTHONHASHSEED (order of the regex alternation)",
                      case={"op": "hashseed", "digests": digests}, stream="hash-seed")
    ctx.count("hash-seeds-compared", len(digests))
    if ctx.lean is not None and not ctx.lean.ok:
        ctx.notes.append("Lean obligations did not check: the oracle above ran over every key of the live tables and every entity name")


def formatter_and_dict_checks(ctx, drv):
    from bs4 import BeautifulSoup
    from bs4.formatter import HTMLFormatter, XMLFormatter
    from html.entities import html5
    E = _E()
    lines, impl, cases = [], [], []
    soup = BeautifulSoup("<script>a<b&c</script><style>d>e</style><p>f&lt;g&amp;</p>", "html.parser")
    for reg, regname in ((HTMLFormatter.REGISTRY, "h"), (XMLFormatter.REGISTRY, "x")):
        for k, f in reg.items():
            for tagname in ("script", "style", "p"):
                ns = soup.find(tagname).string
                got = f.substitute(ns)
                lines.append(f"c09 fmt {regname} {0 if k is None else 1} {tok(k or '')} {tok(tagname)} {tok(str(ns))}")
                impl.append(tok(got))
                cases.append({"op": "formatter", "registry": regname, "name": k, "parent": tagname, "s": tok(str(ns))})
            got = f.attribute_value("a<b&cé")
            lines.append(f"c09 fmt {regname} {0 if k is None else 1} {tok(k or '')} none {tok('a<b&c' + chr(233))}")
            impl.append(tok(got))
            cases.append({"op": "formatter", "registry": regname, "name": k, "parent": None, "s": tok("a<b&cé")})
    for name, d, op in (("CHARACTER_TO_HTML_ENTITY", E.CHARACTER_TO_HTML_ENTITY, "char2name"), ("HTML_ENTITY_TO_CHARACTER", E.HTML_ENTITY_TO_CHARACTER, "name2char"),
                        ("html5", html5, "html5get")):
        probes = list(d) + [k + "x" for k in list(d)[:200]] + [k[:-1] for k in list(d)[:200] if len(k) > 1] + ["", "zzzz", "￿"]
        for k in probes:
            lines.append(f"c09 {op} {tok(k)}")
            impl.append(show(d.get(k)))
            cases.append({"op": "dict", "dict": name, "key": tok(k)})
    rep = drv.ask(lines)
    for l, a, b, c in zip(lines, impl, rep, cases):
        ctx.case(None)
        ctx.count("aux:" + c["op"])
        if a != b:
            ctx.corr_disagreements += 1
            ctx.violation("model and implementation disagree (" + c["op"] + ")", case=c | {"line": l}, observed=a, model=b,
                          stream="aux-correspondence", no_failing_input=True)


def replay(path):
    v = json.load(open(path))
    c = v["case"]
    if c.get("op") == "subst":
        s = uncps(c["s"])
        impl, fails, br = real_case(s)
        print("input:", ascii(s))
        for n, x in zip(NAMES, impl.split(" ")):
            print(f"  {n:9} = {ascii(uncps(x)) if x not in ('none', 'skip') and not x.endswith(str(RUNAWAY)) else x}")
        for f in fails:
            print("  PROPERTY FAILS:", f["what"], "| expected", f.get("expected"), "observed", f.get("observed"), "| known-finding class:", f.get("kf"))
        return 1 if fails else 0
    if c.get("op") == "scenario":
        fails, _ = run_scenario(c["steps"])
        for i, st in enumerate(c["steps"]):
            print(f"step {i}: <{st['parent']}> text/attribute {ascii(uncps(st['s']))} formatter {st['formatter']}"
                  + (f"; the attribute value is the NavigableString object of a <{st['attr_holder']}> element" if st.get("attr_holder") else "")
                  + ("; element built by the parser" if st.get("parsed") else ""))
        for f in fails:
            print("  PROPERTY FAILS:", f["what"], "| expected", f.get("expected") and ascii(uncps(f["expected"])) if f.get("expected") and "/" not in f["expected"] else f.get("expected"),
                  "| observed", f.get("observed"), "| known-finding class:", f.get("kf"))
        return 1 if fails else 0
    if c.get("op") == "meta":
        from bs4 import BeautifulSoup
        src = uncps(c["source"])
        meta = BeautifulSoup(src, "html.parser").find("meta")
        kw = {} if c["eventual_encoding"] == "default" else {"eventual_encoding": c["eventual_encoding"]}
        rendered = meta.decode(formatter=c["formatter"], **kw)
        back = BeautifulSoup(rendered, "html.parser").find("meta")
        val = meta[c["attribute"]]
        eff = "utf-8" if c["eventual_encoding"] == "default" else c["eventual_encoding"]
        want = val.substitute_encoding(eff) if (hasattr(val, "substitute_encoding") and eff is not None) else str(val)
        got = None if back is None else back.get(c["attribute"])
        print(f"source {src!r}\nrendered with formatter={c['formatter']!r}, eventual_encoding={c['eventual_encoding']!r}: {rendered!r}")
        print(f"{c['attribute']} read back {got!r}; the property demands {want!r}")
        if re.search(r"=(\"[^\"]*[<>][^\"]*\"|'[^']*[<>][^']*')", rendered):
            print("PROPERTY FAILS: raw angle bracket inside a quoted attribute value")
        return 0 if got == want and "<" not in rendered[1:-2].replace("<meta", "") else 1
    if c.get("op") == "attr-form":
        from bs4 import BeautifulSoup
        v = c["value"]
        if c["kind"] == "tuple":
            v = tuple(v)
        soup = BeautifulSoup("", "html.parser")
        tag = soup.new_tag("p")
        tag["t"] = v
        rendered = tag.decode(formatter=c["formatter"])
        want = v if isinstance(v, str) else " ".join(v)
        back = BeautifulSoup(rendered, "html.parser").find("p")
        got = None if back is None else back.get("t")
        print(f"attribute t={v!r} rendered with formatter {c['formatter']!r}: {rendered!r}; read back {got!r}; the property demands {want!r}")
        return 0 if got == want else 1
    if c.get("op") == "populate" and "html5" in c:
        import bs4.dammit as D
        from unittest import mock
        E = _E()
        Tmp = type("Tmp", (E,), {})
        tbl = {k: uncps(v) for k, v in c["html5"].items()}
        cp = {int(k): v for k, v in c["codepoint2name"].items()}
        with mock.patch.object(D, "html5", tbl), mock.patch.object(D, "codepoint2name", cp):
            Tmp._populate_class_variables()
        real, same = canonical_tables(Tmp)
        items = "/".join(f"{tok(k)}:{tok(v)}" for k, v in sorted(tbl.items())) or "-"
        cpl = "/".join(f"{k}:{tok(v)}" for k, v in cp.items()) or "-"
        model = Driver().ask([f"c09 populate {items} {cpl}"])[0]
        print("html5 =", tbl, "codepoint2name =", cp)
        print("implementation:", real[:1500])
        print("model         :", model[:1500])
        return 0 if real == model and same else 1
    if c.get("op") == "hashseed":
        d = {seed: hash_seed_digest(seed) for seed in (0, 1, 2, 3, 5, 8, 13, 12345)}
        print(d)
        return 0 if len(set(d.values())) == 1 else 1
    print(json.dumps(v, indent=1))
    return 1
