"""C10 — searches return exactly the matches of their axis; find = first, limit = prefix.

For every case (tree, start element, family, form, limit, query):
  * the real bs4 runs the search (results identified by their position in an independent `.contents` pre-order,
    plus the log of calls made to a function given as the name criterion);
  * the ORACLE — an independent Python evaluator of the documented matching rules over an independent traversal
    (`.contents` recursion only, no `next_element`/`parent` pointers) — says what the property demands;
  * the Lean model (BS.Search.findAllFam & co., repaired variant) is asked the same question through the driver.
"""
import json, re, warnings

from .common import Ctx, Driver, cps, tok

MANIFEST = dict(
    text=("Lean theorems for every sound variant of the code (in particular /repo HEAD), over all element lists / trees / pointer heaps, "
          "start elements, criteria and oracle predicates (regular expressions and user functions are arbitrary predicates): the "
          "code-mirror of _find_all (both fast paths, the no-criteria branch, the SoupStrainer path with rule construction, one-rule "
          "shortcut, prefixed-name retry, _attribute_match with the joined-value retry, string= via Tag.string, the ElementFilter limit "
          "loop) returns exactly axis.filter(sat) for the documented meaning `sat` (findAll_eq_spec, fast_eq_general, "
          "no_criteria_all_tags, sole_empty_criterion_nothing), limit k>=1 is the k-prefix (limit_is_spec_prefix, limit_prefix), the "
          "singular methods are head? of the plural (find_first_spec, find_first), tag(...) and tag.NAME are the same searches "
          "(call_is_find_all, getattr_is_find, getattr_tag_suffix, getattr_dunder), a name function is called once per candidate tag "
          "with the Tag and a limit only cuts that sequence (fn_called_once_with_tag, fn_calls_limit_prefix). The same on the pointer "
          "heap with the real generators (Model/Heap iterators): heap_findAll_exact, heap_axes, heap_find_all_descendants, "
          "recursive_false_sublist, and for the heap after ANY edit history / parse + edit history via C01 (search_after_any_history, "
          "search_after_parse_and_edits). Forwarding glue of all sixteen wrappers read from the live source through ast and proved "
          "over the whole generated table (forwarders_checked, forwarding_glue). CSS: dispatch of Tag.select/select_one/Tag.css.* to "
          "soupsieve mirrored with the engine as a parameter (select_dispatch), simple selectors agree with their find_all form "
          "(css_agrees) and through the dispatch under EngineSpec (css_select_eq_find_all). Hypotheses: Variant.Covers (for HEAD: "
          "outside the known findings C10-empty-list-combined / C10-falsy-attrs-ignored; with the two proposed, unapplied patches: "
          "none, *_proposed theorems), k>=1 (C10-limit-zero), well-formed prefixes; witnesses for each. Tie: differential runs of the "
          "real find_* methods, Tag.__call__, Tag.__getattr__, select()/select_one against the Lean tree-level model, the Lean "
          "heap-level model fed with the real pointer fields, and an independent Python evaluator, over parsed / API-built / edited "
          "trees; exhaustive dispatch stream with a recording stand-in for soupsieve."),
    design="7/C10",
    note=("regex and user functions enter the model as per-case truth tables; the soupsieve ENGINE is recorded, not modelled (its "
          "EngineSpec hypothesis — select = matching descendants in document order, limit k = prefix, select_one = first — is "
          "validated on every CSS case; descendant/child combinators are compared with nested find_all in the harness only); at tree "
          "level the BeautifulSoup root is not used as start element of the next/previous axes and is dropped from previous-axis "
          "results (C01 leaves its chain position free) — the heap-level stream compares those cases too, on the real pointers; "
          "ElementFilter.filter never yields an empty NavigableString (stated); the tree-level axes of Model/Search.lean are "
          "definitions over the tree (the independent traversal), the heap-level axes are C01's iterators with C01's theorems; no Lean "
          "theorem links a `Node` tree to a `Heap` (both are compared with the real code)."),
    technique="Lean 4 refinement proof (code-mirror = documented meaning) + differential correspondence + independent evaluator",
)

NAMES = ["a", "b", "p", "div", "i", "x:y", "em"]
PREFIXES = ["p", "q", "svg"]
ATTRS = ["id", "class", "title", "href", "lang", "rel", "data-x", "class_"]
KWKEYS = ["id", "class_", "title", "href", "lang", "rel"]
CLASS_TOKENS = ["u", "v", "w", "big", "u-v", "U", "\u00e9"]
VALUES = ["v", "w", "x1", "", "u v", "a b c", "3", "True", "V", "\u00e9", "\u2603 v", "1"]
TEXTS = ["hi", "x", "a b", "zz", " ", "3", "u", "HI", "\u00e9\u2603", "1"]
REGEXES = ["^a", "b", ":", "^p:", "v$", ".", "x|i", "^$", " ", "^u"]
FAMILIES = ["desc", "child", "next", "prev", "nsib", "psib", "par"]
# names only the API can produce (html.parser lower-cases and cannot start a tag with `_`): single-underscore names (legal
# XML names), names that collide with real attributes of Tag, the deprecated `…Tag` spelling, a dunder name
API_EXTRA_NAMES = ["_id", "_", "_x1", "_rev", "name", "string", "contents", "parent", "attrs", "bigTag", "big", "Tag", "__x"]
N_TAGFN = 6
N_STRFN = 6
_RE = [re.compile(r) for r in REGEXES]


def tag_fn(i, tag):
    """pure meaning of user function i when given a Tag"""
    if i == 0: return tag.has_attr("id")
    if i == 1: return len(tag.contents) == 1
    if i == 2: return tag.name in ("a", "b")
    if i == 3: return bool(tag.prefix)
    if i == 4: return True
    return False


def str_fn(i, s):
    """pure meaning of user function i when given a str or None"""
    if i == 0: return s is not None and len(s) > 1
    if i == 1: return s is None
    if i == 2: return s is not None and "a" in s
    if i == 3: return True
    if i == 4: return bool(s)
    return False


# --------------------------------------------------------------------------------------------------
# trees
# --------------------------------------------------------------------------------------------------
def gen_spec(r, depth=0, budget=None):
    """random tree spec: ('T', name, prefix, attrs(list of pairs), kids) | ('S', text, cls)"""
    if budget is None:
        budget = [r.randint(3, 16)]
    kids = []
    arity = (r.choice([0, 1, 1, 2, 2, 3, 4]) if depth else r.choice([1, 2, 3, 4])) if depth < 5 else 0
    for _ in range(arity):
        if budget[0] <= 0:
            break
        budget[0] -= 1
        if r.random() < 0.38:
            cls = r.choices([0, 1, 2], [0.85, 0.1, 0.05])[0]
            kids.append(("S", r.choice(TEXTS), cls))
        else:
            kids.append(gen_tag(r, depth + 1, budget))
    return kids


def gen_tag(r, depth, budget):
    name = r.choice(NAMES)
    attrs = []
    for a in r.sample(ATTRS[:7], r.choice([0, 0, 1, 1, 2, 3])):
        if a == "class" or a == "rel":
            k = r.choice([0, 1, 1, 2, 2, 3])
            attrs.append((a, r.sample(CLASS_TOKENS, k)))
        else:
            attrs.append((a, r.choice(VALUES)))
    return ("T", name, None, attrs, gen_spec(r, depth, budget))


def markup_of(kids):
    out = []
    prev_str = False
    for k in kids:
        if k[0] == "S":
            t, cls = k[1], k[2]
            if cls == 1:
                out.append(f"<!--{t}-->")
                prev_str = False
            elif cls == 2:
                out.append(f"<![CDATA[{t}]]>")
                prev_str = False
            else:
                if prev_str:
                    out.append("<!--sep-->")
                out.append(t)
                prev_str = True
        else:
            prev_str = False
            _, name, _p, attrs, ks = k
            at = "".join(f' {a}="{" ".join(v) if isinstance(v, list) else v}"' for a, v in attrs)
            out.append(f"<{name}{at}>{markup_of(ks)}</{name}>")
    return "".join(out)


def build_parsed(kids):
    from bs4 import BeautifulSoup
    return BeautifulSoup(markup_of(kids), "html.parser")


def build_api(r, kids):
    """the same kind of tree through the API, with namespace prefixes, str-valued class, empty lists and empty strings"""
    from bs4 import BeautifulSoup
    from bs4.element import NavigableString, Comment, CData
    soup = BeautifulSoup("", "html.parser")
    exotic = r.random() < 0.5

    def add(parent, ks):
        for k in ks:
            if k[0] == "S":
                cls = [NavigableString, Comment, CData][k[2]]
                txt = "" if r.random() < 0.06 else k[1]
                parent.append(cls(txt))
            else:
                _, name, _p, attrs, sub = k
                pfx = r.choice(PREFIXES) if r.random() < 0.35 else None
                if ":" in name and pfx is not None:
                    name = "y"
                if exotic and r.random() < 0.3:
                    name = r.choice(API_EXTRA_NAMES)
                t = soup.new_tag(name, nsprefix=pfx)
                for a, v in attrs:
                    if isinstance(v, list) and r.random() < 0.15:
                        v = " ".join(v)        # a str-valued class, as set through the API
                    t[a] = list(v) if isinstance(v, list) else v
                parent.append(t)
                add(t, sub)
                if not t.contents and r.random() < 0.15:
                    t.append(NavigableString(""))      # a cleared cell: `.string == ""` (present, not None)
    add(soup, kids)
    return soup


def edit(r, soup):
    """a few random moves / insertions through the editing API (C01 covers the pointers; here: more shapes)"""
    from bs4.element import Tag, NavigableString
    for _ in range(r.randint(1, 5)):
        nodes = walk(soup)
        tags = [n for n in nodes if isinstance(n, Tag)]
        if len(nodes) < 2:
            break
        kind = r.random()
        if kind < 0.45:
            x = r.choice(nodes[1:])
            sub = set(map(id, walk(x)))
            targets = [t for t in tags if id(t) not in sub]
            if not targets:
                continue
            t = r.choice(targets)
            x.extract()
            t.insert(r.randint(0, len(t.contents)), x)
        elif kind < 0.75:
            t = r.choice(tags)
            n = soup.new_tag(r.choice(NAMES[:5] + (API_EXTRA_NAMES if r.random() < 0.4 else [])), nsprefix=r.choice([None, None] + PREFIXES))
            if r.random() < 0.5:
                n["class"] = r.sample(CLASS_TOKENS, r.randint(0, 2))
            if r.random() < 0.4:
                n["id"] = r.choice(VALUES)
            t.insert(r.randint(0, len(t.contents)), n)
        elif kind < 0.83:
            t = r.choice(tags)
            t.insert(r.randint(0, len(t.contents)), NavigableString(r.choice(TEXTS + [""])))
        elif kind < 0.9:
            t = r.choice(tags[1:] or tags)
            if t is not soup:
                t.string = r.choice(["", "", "hi"])          # `.string = ""`: an empty text node as only child
        else:
            x = r.choice(nodes[1:])
            x.extract()


def walk(el):
    """independent traversal: `.contents` recursion only"""
    from bs4.element import Tag
    out = [el]
    if isinstance(el, Tag):
        for c in el.contents:
            out.extend(walk(c))
    return out


class Snap:
    """the tree as the independent traversal sees it"""

    def __init__(self, soup):
        from bs4.element import Tag, Comment, CData
        self.soup = soup
        self.nodes = walk(soup)
        self.idx = {id(n): i for i, n in enumerate(self.nodes)}
        self.is_tag = [isinstance(n, Tag) for n in self.nodes]
        self.parent = {}
        self.kids = {}
        for i, n in enumerate(self.nodes):
            if self.is_tag[i]:
                self.kids[i] = [self.idx[id(c)] for c in n.contents]
                for c in self.kids[i]:
                    self.parent[c] = i
            else:
                self.kids[i] = []
        self.size = {}
        for i in range(len(self.nodes) - 1, -1, -1):
            self.size[i] = 1 + sum(self.size[c] for c in self.kids[i])
        toks = []
        uni = set()
        for i, n in enumerate(self.nodes):
            if self.is_tag[i]:
                ats = []
                uni.add(n.name)
                if n.prefix:
                    uni.add(f"{n.prefix}:{n.name}")
                for k, v in n.attrs.items():
                    if isinstance(v, list):
                        ats.append(f"{tok(k)}=l." + "+".join(tok(x) for x in v))
                        uni.update(v)
                        uni.add(" ".join(v))
                    else:
                        ats.append(f"{tok(k)}=s.{tok(v)}")
                        uni.add(v)
                pf = "~" if n.prefix is None else tok(n.prefix)
                toks.append(f"T:{i}:{tok(n.name)}:{pf}:{'&'.join(ats) if ats else '-'}:{len(n.contents)}")
            else:
                cls = 1 if isinstance(n, Comment) else 2 if isinstance(n, CData) else 0
                toks.append(f"S:{i}:{tok(str(n))}:{cls}")
                uni.add(str(n))
        self.enc = ";".join(toks)
        self.universe = sorted(uni)
        self._henc = None

    @property
    def henc(self):
        """the pointer heap as the real objects hold it: the six link fields and `contents` of every element"""
        if self._henc is None:
            from bs4 import BeautifulSoup
            from bs4.element import PreformattedString
            ref = lambda o: "~" if o is None else str(self.idx.get(id(o), 99999))
            out = []
            for i, n in enumerate(self.nodes):
                if self.is_tag[i]:
                    kind = "g" if isinstance(n, BeautifulSoup) else "t"
                    val, pf = tok(n.name), ("~" if n.prefix is None else tok(n.prefix))
                    ats = self.enc.split(";")[i].split(":")[4]
                    kids = "+".join(str(self.idx[id(c)]) for c in n.contents) or "-"
                else:
                    kind = "p" if isinstance(n, PreformattedString) else "s"
                    val, pf, ats, kids = tok(str(n)), "~", "-", "-"
                out.append(f"{i}:{kind}:{ref(n.parent)}:{ref(n.previous_sibling)}:{ref(n.next_sibling)}:"
                           f"{ref(n.previous_element)}:{ref(n.next_element)}:{kids}:{val}:{pf}:{ats}")
            self._henc = ";".join(out)
        return self._henc

    # axes from the independent traversal (indices)
    def axis(self, fam, s):
        if fam == "desc":
            return list(range(s + 1, s + self.size[s]))
        if fam == "child":
            return list(self.kids[s])
        if fam == "next":
            return list(range(s + 1, len(self.nodes)))
        if fam == "prev":
            return list(range(s - 1, -1, -1))
        if fam in ("nsib", "psib"):
            if s not in self.parent:
                return []
            sibs = self.kids[self.parent[s]]
            k = sibs.index(s)
            return sibs[k + 1:] if fam == "nsib" else sibs[:k][::-1]
        out = []
        while s in self.parent:
            s = self.parent[s]
            out.append(s)
        return out

    def tag_string(self, i):
        """Tag.string, re-derived: the single string under a chain of only children"""
        while self.is_tag[i]:
            if len(self.kids[i]) != 1:
                return None
            i = self.kids[i][0]
        return str(self.nodes[i])


# --------------------------------------------------------------------------------------------------
# criteria: AST  ('n',) ('s',str) ('y',str) ('b',bool) ('f',i) ('r',i) ('o',obj) ('L',[items]) ; item ('N',) = nested list
# --------------------------------------------------------------------------------------------------
def enc_crit(c):
    k = c[0]
    if k == "n": return "n"
    if k == "s": return "s." + tok(c[1])
    if k == "y": return "y." + tok(c[1])
    if k == "b": return "b.1" if c[1] else "b.0"
    if k == "f": return f"f.{c[1]}"
    if k == "r": return f"r.{c[1]}"
    if k == "o": return "o." + tok(str(c[1])) + (".1" if c[1] else ".0")
    if k == "N": return "N"
    return "L" + "|".join(enc_crit(x) for x in c[1])


def py_crit(c, fnmk, seq=0, strsub=0):
    """the Python object for a criterion. `seq`: a list criterion is passed as list (0) / tuple (1) / generator (2);
    `strsub`: a str criterion is passed as a plain str (0) or as an instance of a str subclass (1: NavigableString)"""
    k = c[0]
    if k == "n": return None
    if k == "s":
        if strsub:
            from bs4.element import NavigableString
            return NavigableString(c[1])
        return c[1]
    if k == "y": return c[1].encode("utf8")
    if k == "b": return c[1]
    if k == "f": return fnmk(c[1])
    if k == "r": return _RE[c[1]]
    if k == "o": return c[1]
    if k == "N": return [True, "a"]
    # a nested list is ignored as a whole (filter.py:458-469); its content would match a lot if it were looked into
    items = [py_crit(x, fnmk, seq, strsub) if x[0] != "N" else [True, "a", re.compile(".")] for x in c[1]]
    return items if seq == 0 else tuple(items) if seq == 1 else (x for x in items)


def atoms(c):
    """the non-iterable alternatives a criterion offers (a list = any of its items; nested lists are ignored)"""
    if c[0] == "L":
        return [x for x in c[1] if x[0] != "N"]
    return [c]


def yields_no_rule(c):
    return c[0] == "L" and all(x[0] in ("N", "n") for x in c[1])


def atom_sat(a, v, tag=None):
    k = a[0]
    if k == "n": return False
    if k in ("s", "y"): return v == a[1]
    if k == "o": return v == str(a[1])
    if k == "b": return (v is not None) if a[1] else (v is None)
    if k == "r": return v is not None and _RE[a[1]].search(v) is not None
    if k == "f": return tag_fn(a[1], tag) if tag is not None else str_fn(a[1], v)
    raise AssertionError(k)


def crit_sat(c, v):
    return any(atom_sat(a, v) for a in atoms(c))


def name_sat(c, tag):
    pn = f"{tag.prefix}:{tag.name}" if tag.prefix else None
    for a in atoms(c):
        if atom_sat(a, tag.name, tag):
            return True
        if a[0] != "f" and pn is not None and atom_sat(a, pn):
            return True
    return False


def attr_sat(c, value):
    vals = [None] if value is None else list(value) if isinstance(value, list) else [value]
    if any(crit_sat(c, x) for x in vals):
        return True
    # a multi-valued attribute also counts as one space-joined string (no values at all: the empty string)
    return len(vals) != 1 and crit_sat(c, " ".join(vals))


class Q:
    """name, attrs (('D', [(k, crit)]) | ('S', crit)), string, kwargs [(k, crit)]"""

    def __init__(self, name=("n",), attrs=("D", []), string=("n",), kwargs=()):
        self.name, self.attrs, self.string, self.kwargs = name, attrs, string, list(kwargs)

    def pairs(self):
        fix = lambda c: ("b", False) if c == ("n",) else c
        d = self.attrs[1] if self.attrs[0] == "D" else [("class", self.attrs[1])]
        return [(k, fix(c)) for k, c in d] + [("class" if k == "class_" else k, fix(c)) for k, c in self.kwargs]

    def enc(self):
        if self.attrs[0] == "D":
            a = "D" + "&".join(f"{tok(k)}={enc_crit(c)}" for k, c in self.attrs[1])
        else:
            a = "S" + enc_crit(self.attrs[1])
        kw = "&".join(f"{tok(k)}={enc_crit(c)}" for k, c in self.kwargs) or "-"
        return f"{enc_crit(self.name)} {a} {enc_crit(self.string)} {kw}"

    def crits(self):
        out = []
        if self.name != ("n",): out.append(self.name)
        out += [c for _, c in self.pairs()]
        if self.string != ("n",): out.append(self.string)
        return out

    def describe(self):
        return {"name": repr(self.name), "attrs": repr(self.attrs), "string": repr(self.string), "kwargs": repr(self.kwargs)}

    def fn_ids(self):
        out = set()

        def go(c):
            if c[0] == "f": out.add(c[1])
            if c[0] == "L":
                for x in c[1]: go(x)
        for c in self.crits(): go(c)
        return out

    def re_ids(self):
        out = set()

        def go(c):
            if c[0] == "r": out.add(c[1])
            if c[0] == "L":
                for x in c[1]: go(x)
        for c in self.crits(): go(c)
        return out


def sat(q: Q, snap: Snap, i: int) -> bool:
    """THE DOCUMENTED MEANING of a query on one element (independent of the code's rule machinery)."""
    el = snap.nodes[i]
    pairs = q.pairs()
    no_criteria = q.name == ("n",) and not pairs and q.string == ("n",)
    if no_criteria:
        return snap.is_tag[i]
    if any(yields_no_rule(c) for c in q.crits()):
        return False          # a criterion offering no alternative ([] / only nested lists / only None): nothing satisfies it
    has_tag_criteria = q.name != ("n",) or bool(pairs)
    if snap.is_tag[i]:
        if not has_tag_criteria:
            return False
        if q.name != ("n",) and not name_sat(q.name, el):
            return False
        for k, _ in pairs:
            if not any(attr_sat(c, el.attrs.get(k)) for k2, c in pairs if k2 == k):
                return False
        if q.string != ("n",):
            s = snap.tag_string(i)
            if s is None or not crit_sat(q.string, s):
                return False
        return True
    # a string: found only by a query made of a string criterion alone; an empty string is never yielded
    if has_tag_criteria or str(el) == "":
        return False
    return crit_sat(q.string, str(el))


# --------------------------------------------------------------------------------------------------
# query grammar
# --------------------------------------------------------------------------------------------------
def gen_atom(r, pool, role):
    """role: 'name' | 'attr' | 'string'"""
    x = r.random()
    if x < 0.42:
        return ("s", r.choice(pool))
    if x < 0.47:
        return ("y", r.choice(pool))
    if x < 0.62:
        return ("r", r.randrange(len(REGEXES)))
    if x < 0.74:
        return ("f", r.randrange(N_TAGFN if role == "name" else N_STRFN))
    if x < 0.84:
        return ("b", True)
    if x < 0.90:
        return ("b", False)
    if x < 0.94:
        return ("o", r.choice([3, 0, 2.5, 1, 1.0]))
    return ("n",)


def gen_crit(r, pool, role, allow_none=True):
    x = r.random()
    if x < 0.72:
        a = gen_atom(r, pool, role)
        if a == ("n",) and not allow_none:
            a = ("b", True)
        return a
    if x < 0.77:
        return ("L", [] if r.random() < 0.6 else [("N",)] * r.randint(1, 2))
    items = []
    for _ in range(r.randint(1, 3)):
        items.append(("N",) if r.random() < 0.08 else gen_atom(r, pool, role))
    return ("L", items)


def gen_query(r, snap: Snap, target=None):
    """a query from the grammar; with a `target` element of the axis the pools are biased towards what it satisfies"""
    from bs4.element import Tag
    names = [n.name for n in snap.nodes[1:] if isinstance(n, Tag)] or ["a"]
    pnames = [f"{n.prefix}:{n.name}" for n in snap.nodes[1:] if isinstance(n, Tag) and n.prefix]
    name_pool = names * 6 + pnames * 6 + NAMES + ["p:a", "q:b", "zz", "", "[document]", ":", "a:", ":a", ":b", "A", "B"]
    texts = [str(n) for n in snap.nodes if not isinstance(n, Tag)] or ["x"]
    text_pool = texts * 5 + TEXTS
    val_pool = [u for u in snap.universe] * 3 + VALUES + CLASS_TOKENS
    keys_pool = None
    tvals = {}
    if target is not None:
        t = snap.nodes[target]
        if isinstance(t, Tag):
            name_pool = [t.name] * 40 + ([f"{t.prefix}:{t.name}"] * 25 if t.prefix else []) + name_pool
            for k, v in t.attrs.items():
                tvals[k] = (list(v) + [" ".join(v)]) if isinstance(v, list) else [v]
            keys_pool = list(t.attrs) or None
            ts = snap.tag_string(target)
            if ts is not None:
                text_pool = [ts] * 60 + text_pool
        else:
            text_pool = [str(t)] * 60 + text_pool
    q = Q()
    shape = r.random()
    if shape < 0.06:
        return q                                    # no criteria at all
    if shape < 0.26:                                # a name alone: the fast paths of _find_all (when no limit is given)
        q.name = ("b", True) if r.random() < 0.2 else ("s", r.choice(name_pool))
        return q
    only_string = target is not None and not snap.is_tag[target] and r.random() < 0.8
    if not only_string:
        if r.random() < 0.6:
            q.name = gen_crit(r, name_pool, "name")
        if r.random() < 0.3:
            if r.random() < 0.25:
                c = gen_crit(r, tvals.get("class", []) * 5 + CLASS_TOKENS + ["u v", "v u", ""], "attr")
                q.attrs = ("S", c)                      # non-dict attrs = class sugar
            else:
                keys = r.sample(ATTRS, r.choice([1, 1, 1, 2]))
                if keys_pool and r.random() < 0.7:
                    keys = [r.choice(keys_pool)]
                q.attrs = ("D", [(k, gen_crit(r, tvals.get(k, []) * 12 + ((CLASS_TOKENS + ["u v"]) if k in ("class", "rel") else val_pool), "attr")) for k in keys])
        if r.random() < 0.22:
            keys = r.sample(KWKEYS, r.choice([1, 1, 1, 2]))
            if keys_pool and r.random() < 0.7:
                kk = [("class_" if k == "class" else k) for k in keys_pool if ("class_" if k == "class" else k) in KWKEYS]
                if kk:
                    keys = [r.choice(kk)]
            q.kwargs = [(k, ("n",) if r.random() < 0.06 else
                         gen_crit(r, tvals.get("class" if k == "class_" else k, []) * 12 + ((CLASS_TOKENS + ["u v", "v w"]) if k in ("class_", "rel") else val_pool), "attr")) for k in keys]
    if only_string or r.random() < 0.22:
        q.string = gen_crit(r, text_pool, "string")
    if not q.crits() and r.random() < 0.8:
        q.name = gen_crit(r, name_pool, "name", allow_none=False)
    return q


# --------------------------------------------------------------------------------------------------
# running one case on the real code
# --------------------------------------------------------------------------------------------------
METHODS = {
    "desc": ("find_all", "find"), "child": ("find_all", "find"),
    "next": ("find_all_next", "find_next"), "prev": ("find_all_previous", "find_previous"),
    "nsib": ("find_next_siblings", "find_next_sibling"), "psib": ("find_previous_siblings", "find_previous_sibling"),
    "par": ("find_parents", "find_parent"),
}


# the documented renamings (BS4 "method names" table and the BS3 fetch*/findChild* names): alias -> the method it replaces
ALIASES = {
    "findAll": "find_all", "findChildren": "find_all", "findChild": "find", "findAllNext": "find_all_next", "findNext": "find_next",
    "findNextSibling": "find_next_sibling", "findNextSiblings": "find_next_siblings", "fetchNextSiblings": "find_next_siblings",
    "findAllPrevious": "find_all_previous", "fetchAllPrevious": "find_all_previous", "findPrevious": "find_previous",
    "findPreviousSibling": "find_previous_sibling", "findPreviousSiblings": "find_previous_siblings",
    "fetchPreviousSiblings": "find_previous_siblings", "findParent": "find_parent", "findParents": "find_parents",
    "fetchParents": "find_parents",
}
AXIS_PROP = {"desc": "descendants", "child": "children", "next": "next_elements", "prev": "previous_elements",
             "nsib": "next_siblings", "psib": "previous_siblings", "par": "parents"}


def case_hash(snap, start, fam, form, limit, q):
    import zlib
    return zlib.crc32(f"{snap.enc}|{start}|{fam}|{form}|{limit}|{q.enc()}".encode())


def entry_of(snap, start, fam, form, limit, q):
    """which public entry point runs the case (deterministic per case): ('method', name) — the canonical method or one of its
    deprecated aliases; ('as-name', name) — a SoupStrainer object given as the `name` argument; ('strainer', how) — the
    SoupStrainer's own find_all(generator, limit) / find(generator) / filter(generator) on the family's generator"""
    canon = METHODS[fam][0 if form != "one" else 1]
    if form == "call":
        return ("method", "__call__")
    e = (case_hash(snap, start, fam, form, limit, q) // 36) % 10
    names = [canon] + sorted(a for a, t in ALIASES.items() if t == canon)
    if e <= 3:
        return ("method", canon)
    if e <= 6:
        return ("method", names[1 + (e - 4) % (len(names) - 1)]) if len(names) > 1 else ("method", canon)
    if not q.crits():
        return ("method", canon)            # SoupStrainer() without criteria is not the "no criteria" search
    if e == 7:
        return ("as-name", canon)
    if form == "one":
        return ("strainer", "find")
    return ("strainer", "filter" if (limit is None and e == 9) else "find_all")


def run_real(snap: Snap, start: int, fam: str, form: str, limit, q: Q):
    """returns (ids or id/None or 'exc:…', log). log entries: ('t', fn, id) | ('s', fn, str)"""
    from bs4.element import Tag
    log = []

    def name_fn(i):
        def f(x):
            if isinstance(x, Tag):
                log.append(("t", i, snap.idx.get(id(x), -1)))
                return tag_fn(i, x)
            log.append(("s", i, str(x)))
            return str_fn(i, x)
        return f

    def other_fn(i):
        return lambda x: str_fn(i, None if x is None else str(x))

    el = snap.nodes[start]
    # the argument forms are varied deterministically per case (so that a replay repeats them): list criteria as list / tuple /
    # generator, str criteria as str / str subclass, and the call itself positional / defaults omitted / all keywords
    hsh = case_hash(snap, start, fam, form, limit, q)
    entry = entry_of(snap, start, fam, form, limit, q)
    seq, strsub, style = hsh % 3, (hsh // 3) % 4 == 0, (hsh // 12) % 3
    kw = {}
    kw.update({k: py_crit(c, other_fn, seq, strsub) for k, c in q.kwargs})
    name = py_crit(q.name, name_fn, seq, strsub)
    # (a generator is always truthy: as a non-dict `attrs` value only list/tuple keep the truth value the model assumes)
    attrs = {k: py_crit(c, other_fn, seq, strsub) for k, c in q.attrs[1]} if q.attrs[0] == "D" \
        else py_crit(q.attrs[1], other_fn, seq % 2, strsub)
    if q.string != ("n",):
        kw["string"] = py_crit(q.string, other_fn, seq, strsub)
    if fam == "child":
        kw["recursive"] = False
    if style == 0:
        args = [name, attrs]
    elif style == 1:        # leave out what is at its default: `find_all()`, `find_all("a")`, `find_all(id="x")`
        args = []
        if not (q.attrs == ("D", [])):
            kw["attrs"] = attrs
        if name is not None:
            args = [name]
    else:
        args = []
        kw["name"], kw["attrs"] = name, attrs
    try:
        with warnings.catch_warnings():
            warnings.simplefilter("ignore")
            if entry[0] in ("as-name", "strainer"):
                from bs4.filter import SoupStrainer
                skw = {k: v for k, v in kw.items() if k not in ("recursive", "limit", "name", "attrs")}
                strainer = SoupStrainer(name, attrs, **skw)
                if entry[0] == "as-name":
                    m = getattr(el, entry[1])
                    rkw = {k: v for k, v in kw.items() if k == "recursive"}
                    if form == "one":
                        res = m(strainer, **rkw)
                        return (None if res is None else snap.idx.get(id(res), -1)), log
                    if limit is not None:
                        rkw["limit"] = limit
                    return [snap.idx.get(id(x), -1) for x in m(strainer, **rkw)], log
                gen = getattr(el, AXIS_PROP[fam])
                if entry[1] == "find":
                    res = strainer.find(gen)
                    return (None if res is None else snap.idx.get(id(res), -1)), log
                if entry[1] == "filter":
                    return [snap.idx.get(id(x), -1) for x in strainer.filter(gen)], log
                return [snap.idx.get(id(x), -1) for x in strainer.find_all(gen, limit)], log
            if form == "all":
                m = getattr(el, entry[1])
                if limit is not None:
                    kw["limit"] = limit
                res = m(*args, **kw)
                return [snap.idx.get(id(x), -1) for x in res], log
            if form == "one":
                m = getattr(el, entry[1])
                res = m(*args, **kw)
                return (None if res is None else snap.idx.get(id(res), -1)), log
            if form == "call":
                if limit is not None:
                    kw["limit"] = limit
                res = el(*args, **kw)
                return [snap.idx.get(id(x), -1) for x in res], log
            raise AssertionError(form)
    except Exception as e:  # the property names no exception
        return f"exc:{type(e).__name__}", log


def expected(snap: Snap, start: int, fam: str, form: str, limit, q: Q):
    """what the property demands: (ids | id/None, log or None when the property does not fix the log)"""
    ax = snap.axis(fam, start)
    full = [i for i in ax if sat(q, snap, i)]
    if form == "one":
        res = full[0] if full else None
        consumed_to = res
    else:
        res = full if limit is None else full[:limit]
        consumed_to = res[-1] if (limit is not None and len(res) == limit and res) else None
    log = None
    if q.name[0] == "f":
        # a function given as the name criterion is called once per candidate tag, with the Tag
        # (a query that nothing can satisfy has no candidates)
        cand = ax if consumed_to is None else ax[:ax.index(consumed_to) + 1]
        unsat = any(yields_no_rule(c) for c in q.crits())
        # (an unsatisfiable query has no candidates: the log is then left free — /repo HEAD drops the empty criterion and
        # calls the function, the proposed matches_nothing patch answers before calling it)
        log = None if unsat else [("t", q.name[1], i) for i in cand if snap.is_tag[i]]
    return res, log


def drop_root(fam, res, log):
    """C01 leaves the root's position in/out of the element chain free: it is not compared on the previous axis."""
    if fam != "prev":
        return res, log
    if isinstance(res, list):
        res = [i for i in res if i != 0]
    elif res == 0:
        res = None
    if log is not None:
        log = [c for c in log if not (c[0] == "t" and c[2] == 0)]
    return res, log


def show_res(res):
    if isinstance(res, str):
        return res
    if res is None:
        return "none"
    if isinstance(res, int):
        return str(res)
    return ",".join(map(str, res)) if res else "-"


def show_log(log):
    return ";".join(f"t:{c[1]}:{c[2]}" if c[0] == "t" else f"s:{c[1]}:{tok(c[2])}" for c in log) if log else "-"


def tables(snap: Snap, q: Q):
    """truth tables of the external functions on everything the model may ask about (only the true entries)"""
    uni = snap.universe
    re_t = [f"{i}:{tok(s)}:1" for i in sorted(q.re_ids()) for s in uni if _RE[i].search(s) is not None]
    fids = sorted(q.fn_ids())
    ft = [f"{i}:{k}:1" for i in fids for k, n in enumerate(snap.nodes) if snap.is_tag[k] and i < N_TAGFN and tag_fn(i, n)]
    fs = [f"{i}:{tok(s)}:1" for i in fids for s in uni if str_fn(i, s)] + [f"{i}:~:1" for i in fids if str_fn(i, None)]
    return (";".join(re_t) or "-"), (";".join(ft) or "-"), (";".join(fs) or "-")


MODEL_VARIANT = __import__("os").environ.get("C10_MODEL_VARIANT", "r")   # r = /repo HEAD, p = HEAD + fixes/proposed, u = 4.13.0


def model_line(snap, start, fam, form, limit, q, variant=None, tabs=None):
    variant = variant or MODEL_VARIANT
    re_t, ft, fs = tabs or tables(snap, q)
    lim = "none" if limit is None else str(limit)
    f = {"all": "all", "one": "one", "call": "call.1" if fam == "desc" else "call.0"}.get(form, form)
    entry = entry_of(snap, start, fam, form, limit, q)
    if entry[0] in ("as-name", "strainer"):
        f = "sone" if form == "one" else "sall"       # the SoupStrainer-object route of the model (no shortcut applies)
    elif entry[0] == "method" and entry[1] != "__call__":
        # the model resolves the method name (canonical or alias) itself: BS.Search.methodOf
        mfam, mform = method_model(entry[1])
        fam = mfam if mfam != "byrec" else fam
        f = mform
    return f"c10 find {variant} {snap.enc} {start} {fam} {f} {lim} {q.enc()} {re_t} {ft} {fs}"


_METHOD_MODEL = {}


def method_model(name):
    """what the Lean model says a method name searches (driver op `method`), cached"""
    if not _METHOD_MODEL:
        names = sorted(set(ALIASES) | set(ALIASES.values()))
        for n, rep_ in zip(names, Driver().ask([f"c10 method {n}" for n in names])):
            a, b = (rep_.split() + ["?"])[:2] if rep_ != "unknown" else ("unknown", "?")
            _METHOD_MODEL[n] = (b, a)
    return _METHOD_MODEL[name]


def heap_line(snap, start, fam, form, limit, q, variant=None, tabs=None):
    """the same question to the heap-level model (findAllH / findOneH on the real pointer state)"""
    variant = variant or MODEL_VARIANT
    re_t, ft, fs = tabs or tables(snap, q)
    lim = "none" if limit is None else str(limit)
    fam2 = fam
    f = "one" if form == "one" else "all"
    entry = entry_of(snap, start, fam, form, limit, q)
    if entry[0] == "method" and entry[1] != "__call__":
        mfam, mform = method_model(entry[1])          # the model resolves the method name (canonical or alias)
        fam2 = mfam if mfam != "byrec" else fam
        f = mform
    return f"c10 findh {variant} {snap.henc} {start} {fam2} {f} {lim} {q.enc()} {re_t} {ft} {fs}"


def parse_model(fam, reply, singular, keep_root=False):
    """model reply -> (res, log) with the root dropped on the previous axis"""
    if " | " not in reply:
        return reply, None
    a, b = reply.split(" | ")
    if singular:
        res = None if a == "none" else int(a)
    else:
        res = [] if a == "-" else [int(x) for x in a.split(",")]
    log = []
    if b != "-":
        for c in b.split(";"):
            k, i, x = c.split(":")
            log.append(("t", int(i), int(x)) if k == "t" else ("s", int(i), "" if x == "-" else "".join(chr(int(y)) for y in x.split(","))))
    return (res, log) if keep_root else drop_root(fam, res, log)


# --------------------------------------------------------------------------------------------------
# known-finding classifiers (computed from the case itself)
# --------------------------------------------------------------------------------------------------
def classify(q: Q, limit, form):
    if form in ("all", "call") and limit == 0:
        return "C10-limit-zero"
    if q.attrs[0] == "S" and not py_truthy(q.attrs[1]):
        return "C10-falsy-attrs-ignored"
    cr = ([q.name] if q.name != ("n",) else []) + ([c for _, c in (q.attrs[1] if q.attrs[0] == "D" else [("class", q.attrs[1])])]) \
        + [c for _, c in q.kwargs] + ([q.string] if q.string != ("n",) else [])
    if len(cr) >= 2 and any(yields_no_rule(c) for c in cr):
        return "C10-empty-list-combined"
    return None


def code_path(q: Q, limit):
    """which branch of _find_all the case is expected to take (for the input distribution only)"""
    basic = q.string == ("n",) and not q.kwargs and (not q.attrs[1] if q.attrs[0] == "D" else not py_truthy(q.attrs[1]))
    if basic and q.name == ("n",):
        return "no-criteria-branch"
    if basic and not limit:
        if q.name == ("b", True):
            return "fast-all-tags"
        if q.name[0] == "s":
            return "fast-name-prefixed" if q.name[1].count(":") == 1 else "fast-name"
    return "soupstrainer" + ("-limit" if limit else "")


def py_truthy(c):
    k = c[0]
    if k == "n": return False
    if k in ("s", "y"): return bool(c[1])
    if k == "b": return c[1]
    if k == "o": return bool(c[1])
    if k == "L": return bool(c[1])
    return True


# --------------------------------------------------------------------------------------------------
# CSS (soupsieve is recorded): select() against find_all on the fragment both express
# --------------------------------------------------------------------------------------------------
IDENT = re.compile(r"^[a-z][a-z0-9]*$")


def css_cases(r, snap: Snap):
    """yield (selector, model form or None, expected ids computed with find_all on the real tree, start)"""
    from bs4.element import Tag
    tags = [i for i, t in enumerate(snap.is_tag) if t]
    names = sorted({snap.nodes[i].name for i in tags[1:] if IDENT.match(snap.nodes[i].name)}) or ["a"]
    out = []
    for _ in range(6):
        start = r.choice(tags)
        el = snap.nodes[start]
        kind = r.choice(["type", "cls", "id", "has", "eq", "desc", "child"])
        if kind == "type":
            n = r.choice(names + ["zz"])
            out.append((n, f"css.type/{tok(n)}", el.find_all(n), start))
        elif kind == "cls":
            c = r.choice(["u", "v", "w", "big"])
            out.append(("." + c, f"css.cls/{tok(c)}", el.find_all(class_=c), start))
        elif kind == "id":
            ids = [snap.nodes[i].get("id") for i in tags if isinstance(snap.nodes[i].get("id"), str) and IDENT.match(snap.nodes[i].get("id"))]
            v = r.choice(ids + ["v", "x1"])
            out.append(("#" + v, f"css.id/{tok(v)}", el.find_all(id=v), start))
        elif kind == "has":
            a = r.choice(["title", "href", "lang", "id", "class"])
            out.append((f"[{a}]", f"css.has/{tok(a)}", el.find_all(attrs={a: True}), start))
        elif kind == "eq":
            a = r.choice(["title", "href", "lang"])
            v = r.choice(["v", "w", "x1", "3", "a b c", ""])
            out.append((f'[{a}="{v}"]', f"css.eq/{tok(a)}/{tok(v)}", el.find_all(attrs={a: v}), start))
        else:
            a, b = r.choice(names), r.choice(names)
            # ancestors may lie anywhere in the document; the result must lie below the start element
            below = set(map(id, el.find_all(True)))
            res, seen = [], set()
            for x in snap.soup.find_all(a):
                for y in (x.find_all(b) if kind == "desc" else x.find_all(b, recursive=False)):
                    if id(y) in below and id(y) not in seen:
                        seen.add(id(y))
                        res.append(y)
            res.sort(key=lambda y: snap.idx[id(y)])
            out.append((f"{a} {b}" if kind == "desc" else f"{a} > {b}", None, res, start))
    return out


def css_comparable(snap: Snap):
    """the fragment where both mean the same: lower-case plain names, class list-valued, other attributes plain strings"""
    for i, n in enumerate(snap.nodes):
        if snap.is_tag[i] and i > 0:
            if not re.match(r"^[A-Za-z_:][A-Za-z0-9_:]*$", n.name):
                return False
            for k, v in n.attrs.items():
                if k in ("class", "rel") and not isinstance(v, list):
                    return False
                if isinstance(v, list) and any((" " in x or x == "") for x in v):
                    return False
    return True


# --------------------------------------------------------------------------------------------------
def make_tree(r, kind):
    spec = gen_spec(r)
    if kind == "parsed":
        soup = build_parsed(spec)
    elif kind == "api":
        soup = build_api(r, spec)
    else:
        soup = build_parsed(spec) if r.random() < 0.5 else build_api(r, spec)
        edit(r, soup)
    return soup


def gen_case(r, snap: Snap):
    n = len(snap.nodes)
    fam = r.choice(FAMILIES)
    if fam in ("desc", "child"):
        start = r.choice([i for i in range(n) if snap.is_tag[i]])
    elif fam in ("next", "prev"):
        if n < 2:
            fam, start = "desc", 0
        else:
            # the BeautifulSoup root may stand outside the chain: as a start element it is compared at heap level only
            start = 0 if r.random() < 0.04 else r.randrange(1, n)
    else:
        start = r.randrange(n)
    ax = snap.axis(fam, start)
    target = r.choice(ax) if ax and r.random() < 0.7 else None
    q = gen_query(r, snap, target)
    forms = ["all", "all", "one"] + (["call"] if fam in ("desc", "child") else [])
    form = r.choice(forms)
    limit = None
    if form != "one":
        limit = r.choice([None, None, None, 1, 1, 2, 2, 3, 50]) if r.random() < 0.94 else 0
    if fam == "par":
        q.string = ("n",)                    # find_parents/find_parent take no string argument
    return start, fam, form, limit, q


def check_case(ctx: Ctx, snap, case, tree_kind, lines, pend):
    start, fam, form, limit, q = case
    real, rlog = run_real(snap, start, fam, form, limit, q)
    raw, rawlog = real, list(rlog)
    heap_only = start == 0 and fam in ("next", "prev")
    if heap_only:
        # the BeautifulSoup root as start of the next/previous axes: whether it stands inside the element chain is left free
        # by C01, so there is no tree-level expectation; the heap-level model runs on the real pointers and must agree
        ctx.case(None)
        ctx.count("heap-only:root-start")
        tabs = tables(snap, q)
        lines.append(heap_line(snap, start, fam, form, limit, q, tabs=tabs))
        pend.append(({"op": "findh", "tree": snap.enc, "tree_kind": tree_kind, "markup": str(snap.soup), "start": start,
                      "family": fam, "form": form, "limit": limit, "query": q.describe(),
                      "q": [q.name, q.attrs, q.string, q.kwargs]}, raw, rawlog, fam, form, False, classify(q, limit, form), True))
        return
    want, wlog = expected(snap, start, fam, form, limit, q)
    if not isinstance(real, str):
        real, rlog = drop_root(fam, real, rlog)
    want, wlog = drop_root(fam, want, wlog)
    kf = classify(q, limit, form)
    desc = {"op": "find", "tree": snap.enc, "tree_kind": tree_kind, "markup": str(snap.soup), "start": start, "family": fam,
            "form": form, "limit": limit, "query": q.describe(), "q": [q.name, q.attrs, q.string, q.kwargs]}
    nontriv = (q.crits() and (isinstance(real, list) and 0 < len(real)) or isinstance(real, int))
    ctx.case((snap.enc, start, fam, form, limit, q.enc()) if nontriv else None,
             sample={"markup": str(snap.soup), "start": start, "family": fam, "form": form, "limit": limit,
                     "query": q.describe(), "result": show_res(real)} if nontriv and ctx.evaluations % 997 == 0 else None)
    ctx.count(f"family:{fam}")
    ctx.count(f"form:{form}")
    ctx.count("path:" + code_path(q, limit if form != "one" else 1))
    if any(snap.is_tag[i] and snap.nodes[i].prefix for i in snap.axis(fam, start)):
        ctx.count("axis:has-prefixed-tag")
    ctx.count(f"limit:{limit}")
    ctx.count(f"tree:{tree_kind}")
    ctx.count("result:" + ("exc" if isinstance(real, str) else "none" if real in (None, []) else "some"))
    for c in q.crits():
        for a in atoms(c) or [("emptylist",)]:
            ctx.count(f"crit:{a[0]}")
        if c[0] == "L":
            ctx.count("crit:list")
    if not q.crits():
        ctx.count("crit:no-criteria")
    bad = False
    if real != want:
        bad = True
        ctx.violation("search result differs from the documented meaning (axis order, matches, limit prefix, first)",
                      case=desc, expected=show_res(want), observed=show_res(real), stream="oracle-result", kf=kf)
    elif wlog is not None and rlog != wlog:
        bad = True
        ctx.violation("function given as the name criterion is not called exactly once per candidate tag with the Tag",
                      case=desc, expected=show_log(wlog), observed=show_log(rlog), stream="oracle-calllog", kf=kf)
    tabs = tables(snap, q)
    lines.append(model_line(snap, start, fam, form, limit, q, tabs=tabs))
    pend.append((desc, real, rlog, fam, form, bad, kf, False))
    entry = entry_of(snap, start, fam, form, limit, q)
    ctx.count("entry:" + (entry[1] if entry[0] == "method" else f"SoupStrainer-{entry[0]}:{entry[1]}"))
    desc["entry"] = list(entry)
    if entry[0] == "method":
        # the heap-level model on the real pointer state: compared without any canonicalisation of the root
        lines.append(heap_line(snap, start, fam, form, limit, q, tabs=tabs))
        pend.append((desc | {"op": "findh"}, raw, rawlog, fam, form, bad, kf, True))


def flush_model(ctx: Ctx, drv: Driver, lines, pend):
    if not lines:
        return
    replies = drv.ask(lines)
    for line, rep, (desc, real, rlog, fam, form, bad, kf, heap) in zip(lines, replies, pend):
        mres, mlog = parse_model(fam, rep, form == "one", keep_root=heap)
        if heap:
            ctx.count("model:heap-requests")
        if isinstance(real, str) or mres != real or mlog != rlog:
            ctx.corr_disagreements += 1
            if bad and kf is not None:
                # the case is in a known-finding class (its oracle failure is suppressed), but the code no longer behaves as
                # the finding was recorded and modelled: that is a change of behaviour, reported unsuppressed
                ctx.violation(f"behaviour inside the known-finding class {kf} differs from the recorded one (Lean mirror)",
                              case=desc | {"line": line}, expected=f"{show_res(mres)} | {show_log(mlog or [])}",
                              observed=f"{show_res(real)} | {show_log(rlog)}", model=rep, stream="correspondence-known-class")
            elif not bad:
                # model = documented meaning + mirrored quirks: a disagreement on results/log is a failing input
                ctx.violation("real search differs from the Lean model (" + ("findAllH on the real pointers" if heap else "findAllFam") + ")",
                              case=desc | {"line": line},
                              expected=f"{show_res(mres)} | {show_log(mlog or [])}",
                              observed=f"{show_res(real)} | {show_log(rlog)}", model=rep, stream="correspondence", kf=kf)
    ctx.count("model:requests", len(lines))
    lines.clear()
    pend.clear()


GETATTR_EXTRA = ["zz", "_zz", "_", "_id", "_x1", "_rev", "aTag", "bTag", "divTag", "Tag", "xTag", "_idTag", "bigTag", "big",
                 "__x", "__len__x", "__", "name", "string", "contents", "parent", "attrs", "children", "text", "prefix", "hidden"]


def is_real_attribute(el, nm):
    """normal attribute lookup succeeds, i.e. Python never gets to Tag.__getattr__ (object.__getattribute__ does not
    fall back to __getattr__)"""
    try:
        object.__getattribute__(el, nm)
        return True
    except AttributeError:
        return False


def getattr_want(snap, start, nm):
    """the property: tag.NAME is the search tag.find(NAME) for every NAME that is not a real attribute and does not start
    with a double underscore (those raise AttributeError); NAMETag is the deprecated BS3 spelling of find(NAME), as its
    DeprecationWarning documents"""
    if nm.startswith("__"):
        return "attrerr"
    target = nm[:-3] if (len(nm) > 3 and nm.endswith("Tag")) else nm
    for i in snap.axis("desc", start):
        if sat(Q(name=("s", target)), snap, i):
            return i
    return None


def getattr_real(snap, el, nm):
    with warnings.catch_warnings():
        warnings.simplefilter("ignore")
        try:
            got = getattr(el, nm)
            return None if got is None else snap.idx.get(id(got), -1)
        except AttributeError:
            return "attrerr"
        except Exception as e:
            return f"exc:{type(e).__name__}"


def getattr_cases(ctx, r, snap, lines, pend):
    """tag.NAME for every tag name of the tree and a sample of other names (single-underscore names, names ending in
    `Tag`, dunder names, names of real attributes), from the root and a few other tags"""
    tags = [i for i, t in enumerate(snap.is_tag) if t]
    names = sorted({snap.nodes[i].name for i in tags[1:]}) + r.sample(GETATTR_EXTRA, 7)
    starts = [0] + (r.sample(tags[1:], min(3, len(tags) - 1)) if len(tags) > 1 else [])
    for start in starts:
        for nm in names:
            getattr_one(ctx, snap, start, nm, lines, pend)


def getattr_one(ctx, snap, start, nm, lines, pend):
    el = snap.nodes[start]
    if nm.startswith("__") and nm.endswith("Tag") and len(nm) > 3:
        return
    if not nm.isidentifier():
        return                                     # `x:y` cannot be written tag.x:y; getattr() of it is not the shorthand
    desc = {"op": "getattr", "tree": snap.enc, "markup": str(snap.soup), "start": start, "attr": nm}
    if is_real_attribute(el, nm):
        # a real attribute of the object shadows the shorthand (documented: use find() for such names)
        ctx.count("getattr:real-attribute")
        ctx.case(None)
        try:
            got = getattr(el, nm)
            ok = (nm not in el.__dict__) or got is el.__dict__[nm]
        except Exception:
            ok = False
        if not ok:
            ctx.violation("a real attribute of a Tag is not returned as such", case=desc, expected="the attribute",
                          observed="something else / exception", stream="oracle-getattr")
        return
    real = getattr_real(snap, el, nm)
    want = getattr_want(snap, start, nm)
    ctx.case((snap.enc, start, "getattr", nm) if isinstance(real, int) else None)
    ctx.count("form:getattr")
    ctx.count("getattr:" + ("dunder" if nm.startswith("__") else "underscore" if nm.startswith("_") else
                            "Tag-suffix" if (len(nm) > 3 and nm.endswith("Tag")) else "plain")
              + (":found" if isinstance(real, int) else ""))
    bad = real != want
    if bad:
        ctx.violation("tag.NAME differs from tag.find(NAME)", case=desc, expected=show_res(want), observed=show_res(real),
                      stream="oracle-getattr")
    lines.append(f"c10 find r {snap.enc} {start} desc getattr.{tok(nm)} none n D n - - - -")
    pend.append((desc, real, nm, bad))


def flush_getattr(ctx, drv, lines, pend):
    if not lines:
        return
    for line, rep, (desc, real, nm, bad) in zip(lines, drv.ask(lines), pend):
        if rep != show_res(real):
            ctx.corr_disagreements += 1
            if not bad:
                ctx.violation("Tag.__getattr__ differs from the Lean model (getattrImpl)", case=desc | {"line": line},
                              expected=rep, observed=show_res(real), model=rep, stream="correspondence-getattr")
    lines.clear()
    pend.clear()


def run_css(ctx, r, snap, lines, pend):
    if not css_comparable(snap):
        ctx.count("css:tree-outside-fragment")
        return
    for sel, form, res, start in css_cases(r, snap):
        el = snap.nodes[start]
        try:
            got = [snap.idx.get(id(x), -1) for x in el.select(sel)]
        except Exception as e:
            got = f"exc:{type(e).__name__}"
        want = [snap.idx[id(x)] for x in res]
        # EngineSpec of Props/C10.lean, validated on the real soupsieve: limit k = the first k, limit 0/None = all, select_one = first
        try:
            k = r.choice([1, 2, 3])
            lim = [snap.idx.get(id(x), -1) for x in el.select(sel, limit=k)]
            lim0 = [snap.idx.get(id(x), -1) for x in el.select(sel, limit=r.choice([0, None]))]
            one = el.select_one(sel)
            one = None if one is None else snap.idx.get(id(one), -1)
            if isinstance(got, list) and (lim != want[:k] or lim0 != want or one != (want[0] if want else None)):
                ctx.violation("select(limit=k) / select_one are not the prefix / first of select()", case={"op": "css", "markup": str(snap.soup),
                              "tree": snap.enc, "start": start, "selector": sel, "limit": k},
                              expected=f"{show_res(want[:k])} ; {show_res(want)} ; {show_res(want[0] if want else None)}",
                              observed=f"{show_res(lim)} ; {show_res(lim0)} ; {show_res(one)}", stream="css")
            ctx.count("css:limit+select_one")
        except Exception as e:
            ctx.violation("select(limit=k)/select_one raised", case={"op": "css", "markup": str(snap.soup), "selector": sel},
                          expected="no exception", observed=type(e).__name__, stream="css")
        ctx.case((snap.enc, start, sel) if want else None)
        ctx.count("css:" + ("combinator" if form is None else form.split("/")[0]))
        desc = {"op": "css", "markup": str(snap.soup), "tree": snap.enc, "start": start, "selector": sel}
        bad = got != want
        if bad:
            ctx.violation("select() disagrees with find_all on a selector both express", case=desc,
                          expected=show_res(want), observed=show_res(got), stream="css")
        if form is not None:
            lines.append(f"c10 find r {snap.enc} {start} desc {form} none n D n - - - -")
            pend.append((desc, got, bad))


def flush_css(ctx, drv, lines, pend):
    if not lines:
        return
    for line, rep, (desc, got, bad) in zip(lines, drv.ask(lines), pend):
        if rep != show_res(got):
            ctx.corr_disagreements += 1
            if not bad:
                ctx.violation("select() differs from the Lean cssSpec", case=desc | {"line": line}, expected=rep,
                              observed=show_res(got), model=rep, stream="correspondence-css")
    lines.clear()
    pend.clear()


# --------------------------------------------------------------------------------------------------
# CSS dispatch: Tag.select / Tag.select_one / Tag.css.* -> soupsieve call arguments, with a recording stand-in engine
# --------------------------------------------------------------------------------------------------
class _FakeSieve:
    """drop-in for the soupsieve module (css.py documents `api` as such): records every call"""

    class SoupSieve:        # the class css.py tests precompiled selectors against
        pass

    def __init__(self):
        self.calls = []

    def _rec(self, fn, has_limit, select, tag, ns, *rest, **kw):
        if has_limit:
            limit, flags = rest
        else:
            limit, flags = "-", rest[0]
        self.calls.append((fn, select, tag, ns, limit, flags, dict(kw)))
        return [tag] if fn in ("select", "filter", "iselect") else tag

    def select(self, select, tag, ns=None, limit=0, flags=0, **kw): return self._rec("select", True, select, tag, ns, limit, flags, **kw)
    def iselect(self, select, tag, ns=None, limit=0, flags=0, **kw): return self._rec("iselect", True, select, tag, ns, limit, flags, **kw)
    def select_one(self, select, tag, ns=None, flags=0, **kw): return self._rec("select_one", False, select, tag, ns, flags, **kw)
    def closest(self, select, tag, ns=None, flags=0, **kw): return self._rec("closest", False, select, tag, ns, flags, **kw)
    def match(self, select, tag, ns=None, flags=0, **kw): return self._rec("match", False, select, tag, ns, flags, **kw)
    def filter(self, select, tag, ns=None, flags=0, **kw): return self._rec("filter", False, select, tag, ns, flags, **kw)

    def compile(self, select, ns=None, flags=0, **kw):
        self.calls.append(("compile", select, None, ns, "-", flags, dict(kw)))
        return _FakeSieve.SoupSieve()

    def escape(self, ident):
        return ident


def css_dispatch_stream(ctx: Ctx, drv: Driver):
    """every entry point x selector kind x namespaces x limit x flags x extra keyword: the recorded soupsieve call against
    BS.Css.dispatch"""
    import itertools
    import bs4.css as cssmod
    from bs4 import BeautifulSoup, ResultSet
    from bs4.css import CSS
    soup = BeautifulSoup('<a xmlns:x="u"><b>t</b></a>', "html.parser")
    tag = soup.a
    tag._namespaces = {"x": "u"}         # what a namespace-aware builder leaves there
    given = {"y": "v"}
    entries = ["tag.select", "tag.select_one", "css.select", "css.select_one", "css.iselect", "css.closest", "css.match",
               "css.filter", "css.compile"]
    lines, obs, cases = [], [], []
    for entry, selk, nsk, lim, flg, extra in itertools.product(entries, "sc", ("none", "given"), ("unset", "none", "0", "3"),
                                                             ("unset", "5"), (0, 1)):
        takes_limit = entry in ("tag.select", "css.select", "css.iselect")
        if not takes_limit and lim != "unset":
            continue
        fake = _FakeSieve()
        sel = _FakeSieve.SoupSieve() if selk == "c" else "b"
        kw = {}
        if nsk == "given":
            kw["namespaces"] = given
        if lim != "unset":
            kw["limit"] = None if lim == "none" else int(lim)
        if flg != "unset":
            kw["flags"] = int(flg)
        if extra:
            kw["custom"] = True
        saved = cssmod.soupsieve
        cssmod.soupsieve = fake            # Tag.css builds CSS(self) with the module global
        try:
            if entry.startswith("tag."):
                res = getattr(tag, entry[4:])(sel, **kw)
            else:
                res = getattr(CSS(tag, api=fake), entry[4:])(sel, **kw)
        except Exception as e:
            res = e
        finally:
            cssmod.soupsieve = saved
        if isinstance(res, Exception) or len(fake.calls) != 1:
            got = f"exc:{type(res).__name__}" if isinstance(res, Exception) else f"calls:{len(fake.calls)}"
        else:
            fn, cs, ct, cns, climit, cflags, ckw = fake.calls[0]
            nss = "none" if cns is None else "given" if cns is given else "tagns" if cns is tag._namespaces else "other"
            lims = "-" if climit == "-" else "~" if climit is None else str(climit)
            sels = "c" if cs is sel and selk == "c" else "s" if cs == "b" else "other"
            got = (f"fn={fn} sel={sels} tag={1 if ct is tag else 0} ns={nss} limit={lims} flags={cflags} "
                   f"extra={1 if ckw == {'custom': True} else 0 if not ckw else 'other'} wrap={1 if isinstance(res, ResultSet) else 0}")
        lines.append(f"c10 cssd {entry} {selk} {nsk} {lim} {flg} {extra}")
        obs.append(got)
        cases.append({"op": "css-dispatch", "entry": entry, "selector": "precompiled" if selk == "c" else "str", "namespaces": nsk,
                      "limit": lim, "flags": flg, "extra_kw": extra})
    for line, rep_, got, c in zip(lines, drv.ask(lines), obs, cases):
        ctx.case(("cssd", line))
        ctx.count("cssd:" + c["entry"])
        if rep_ != got:
            ctx.corr_disagreements += 1
            # the model is the documented forwarding (css.py docstrings): a difference is a failing input
            ctx.violation("the CSS proxy does not hand soupsieve the documented arguments", case=c | {"line": line},
                          expected=rep_, observed=got, model=rep_, stream="css-dispatch")
    ctx.exhaustive_parts.append(f"CSS dispatch: all {len(lines)} combinations of entry point x selector kind x namespaces x limit x flags x extra keyword")


DIRECTED = [
    # (markup, start selector index, family, form, limit, Q) — the minimal inputs of DESIGN.md section 8
    ("<a><b>x</b></a><b>y</b>", 0, "desc", "one", None, Q()),
    ("<a><b>x</b></a><b>y</b>", 0, "desc", "all", 2, Q()),
    ("<a><b>x</b></a><b>y</b>", 2, "par", "one", None, Q()),
    ("<a><b>x</b></a><b>y</b>", 1, "next", "one", None, Q()),
    ("<a><b>x</b></a><b>y</b>", 0, "desc", "all", 0, Q(name=("s", "b"))),
    ("<a><b>x</b></a><b>y</b>", 0, "desc", "all", 0, Q(name=("s", "b"), kwargs=[("id", ("b", False))])),
    ('<a id="1">x</a><a>y</a>', 0, "desc", "all", None, Q(name=("s", "a"), kwargs=[("id", ("L", []))])),
    ('<a id="1">x</a><a>y</a>', 0, "desc", "all", None, Q(kwargs=[("id", ("L", []))])),
    ('<a class="u">x</a><a>y</a>', 0, "desc", "all", None, Q(name=("s", "a"), attrs=("S", ("s", "")))),
    ('<a class="u">x</a><a>y</a>', 0, "desc", "all", 5, Q(name=("s", "a"), attrs=("S", ("n",)))),
]


def run(ctx: Ctx):
    ctx.rule = ("a case = (tree, start element, family, form, limit, query); non-trivial = the query has at least one criterion and "
                "the real search returned at least one element (plural) or an element (singular/getattr); CSS: the find_all form "
                "selects at least one element")
    ctx.assumptions = [
        "node identity = position in the `.contents` pre-order of the case's tree (labels; no id() crosses the protocol)",
        "regular expressions and user functions enter the Lean model as truth tables computed by the harness on every name, "
        "prefixed name, attribute value (single and space-joined) and string of the case's tree (and None)",
        "user functions are pure functions of the tag / of the string text; attribute values are str or list of str; "
        "attribute names occur once per tag",
        "the BeautifulSoup root object is not used as start element of the next/previous-element axes, and it is dropped "
        "from previous-axis results and call logs (C01 leaves its position in/out of the element chain free)",
        "ElementFilter.filter never yields an empty NavigableString (`if i:`); the evaluator mirrors this stated quirk",
        "criteria given for the same attribute through attrs and kwargs are pooled (any of them), as SoupStrainer.matches_tag documents",
        "find_parents/find_parent are not given a string argument (they have no such parameter)",
        "tag.NAME must be tag.find(NAME) for every NAME that is not a real attribute of the object (normal lookup through "
        "object.__getattribute__ fails) and does not start with a double underscore (those raise AttributeError); NAMETag is the "
        "documented BS3 alias of find(NAME); names that are real attributes (name, string, contents, parent, attrs, ...) are "
        "documented not to search and are only checked to return the attribute; API-built and edited trees contain tags named "
        "_id, _, _x1, _rev, name, string, contents, parent, attrs, bigTag, big, Tag, __x",
        "CSS: trees inside the comparable fragment (lower-case names, class/rel list-valued without empty/space items); selectors type, "
        ".class, #id, [a], [a=v] (non-class attributes), descendant and child combinators; soupsieve itself is recorded",
        "an ElementFilter object passed as `name` is outside the query grammar; a broken Lean obligation (the model has no data "
        "tables, only the literals checked by gen_constants_agree) is searched for with the same directed + random streams",
        "tag prefixes are None or non-empty and colon-free with colon-free local names (XML NCNames); unprefixed names may contain colons",
    ]
    drv = Driver()
    lines, pend = [], []
    glines, gpend = [], []
    clines, cpend = [], []

    # 1. corpus + directed minimal inputs (the defects of section 8 must be re-found here or by the random stream)
    from bs4 import BeautifulSoup
    for mk, start, fam, form, limit, q in DIRECTED:
        snap = Snap(BeautifulSoup(mk, "html.parser"))
        check_case(ctx, snap, (start, fam, form, limit, q), "directed", lines, pend)
    # prefixed tag + function name (defect b)
    s = BeautifulSoup("<a>x</a>", "html.parser")
    s.a.append(s.new_tag("b", nsprefix="p"))
    snap = Snap(s)
    check_case(ctx, snap, (0, "desc", "all", None, Q(name=("f", 5))), "directed", lines, pend)
    check_case(ctx, snap, (0, "desc", "all", None, Q(name=("s", "p:b"))), "directed", lines, pend)
    check_case(ctx, snap, (0, "desc", "all", 3, Q(name=("s", "p:b"))), "directed", lines, pend)
    flush_model(ctx, drv, lines, pend)
    # the attribute shorthand on names starting with a single underscore (legal XML names, e.g. <_id> in database dumps)
    s = BeautifulSoup("<docs><doc><title>t</title></doc></docs>", "html.parser")
    s.doc.insert(0, s.new_tag("_id"))
    s.doc.append(s.new_tag("bigTag"))
    s.doc.append(s.new_tag("big"))
    snap = Snap(s)
    for start in (0, 1, 2):
        for nm in ("_id", "_missing", "_", "title", "doc", "missing", "bigTag", "big", "__x", "__wrapped__"):
            getattr_one(ctx, snap, start, nm, glines, gpend)

    css_dispatch_stream(ctx, drv)

    # 2. generated trees x cases
    ntrees = ctx.n(500, 6000)
    per_tree = 96
    for t in range(ntrees):
        r = ctx.rng("tree", t)
        kind = ["parsed", "api", "edited"][t % 3]
        soup = make_tree(r, kind)
        snap = Snap(soup)
        ctx.count(f"size:{min(len(snap.nodes), 16)}")
        for _ in range(per_tree):
            check_case(ctx, snap, gen_case(r, snap), kind, lines, pend)
        getattr_cases(ctx, r, snap, glines, gpend)
        run_css(ctx, r, snap, clines, cpend)
        if len(lines) > 20000:
            flush_model(ctx, drv, lines, pend)
    flush_model(ctx, drv, lines, pend)
    flush_getattr(ctx, drv, glines, gpend)
    flush_css(ctx, drv, clines, cpend)
    ctx.exhaustive_parts.append("the minimal inputs of DESIGN.md section 8 for C10 (directed cases) are run first on every run")


def build_from_enc(enc):
    """rebuild a tree from its protocol encoding through the API (for replays)"""
    from bs4 import BeautifulSoup
    from bs4.element import NavigableString, Comment, CData
    un = lambda x: "" if x == "-" else "".join(chr(int(y)) for y in x.split(","))
    toks = enc.split(";")
    soup = BeautifulSoup("", "html.parser")
    pos = [1]

    def kids(parent, n):
        for _ in range(n):
            f = toks[pos[0]].split(":")
            pos[0] += 1
            if f[0] == "S":
                parent.append([NavigableString, Comment, CData][int(f[3])](un(f[2])))
            else:
                t = soup.new_tag(un(f[2]), nsprefix=None if f[3] == "~" else un(f[3]))
                if f[4] != "-":
                    for kv in f[4].split("&"):
                        k, v = kv.split("=")
                        t[un(k)] = un(v[2:]) if v.startswith("s.") else ([un(x) for x in v[2:].split("+")] if v[2:] else [])
                parent.append(t)
                kids(t, int(f[5]))
    kids(soup, int(toks[0].split(":")[5]))
    return soup


def replay(path):
    v = json.load(open(path))
    c = v["case"]
    print("case:", json.dumps({k: c[k] for k in c if k not in ("tree", "line")}, default=str)[:1500])
    print("property demands:", v.get("expected"))
    print("recorded observation:", v.get("observed"))
    if c.get("op") == "getattr":
        snap = Snap(build_from_enc(c["tree"]))
        assert snap.enc == c["tree"], "tree could not be rebuilt"
        real = getattr_real(snap, snap.nodes[c["start"]], c["attr"])
        want = getattr_want(snap, c["start"], c["attr"])
        print(f"re-run on the implementation: tag.{c['attr']} ->", show_res(real))
        print(f"property demands (tag.find({c['attr']!r}) / AttributeError for dunder names):", show_res(want))
        return 0 if real == want else 1
    if c.get("op") not in ("find", "findh") or "q" not in c or (c.get("start") == 0 and c.get("family") in ("next", "prev")):
        print("(no automatic re-run for this kind of case; see the fields above)")
        return 1

    def tup(x):
        return tuple(tup(y) for y in x) if isinstance(x, list) else x

    def crit(x):
        x = tup(x)
        if x[0] == "L":
            return ("L", [crit(y) for y in x[1]])
        return x
    qn, qa, qs, qk = c["q"]
    attrs = ("D", [(k, crit(cc)) for k, cc in qa[1]]) if qa[0] == "D" else ("S", crit(qa[1]))
    q = Q(crit(qn), attrs, crit(qs), [(k, crit(cc)) for k, cc in qk])
    snap = Snap(build_from_enc(c["tree"]))
    assert snap.enc == c["tree"], "tree could not be rebuilt"
    real, rlog = run_real(snap, c["start"], c["family"], c["form"], c["limit"], q)
    want, wlog = expected(snap, c["start"], c["family"], c["form"], c["limit"], q)
    if not isinstance(real, str):
        real, rlog = drop_root(c["family"], real, rlog)
    want, wlog = drop_root(c["family"], want, wlog)
    print("re-run on the implementation:", show_res(real), "|", show_log(rlog))
    print("property demands (re-computed):", show_res(want), "|", "(not fixed)" if wlog is None else show_log(wlog))
    ok = real == want and (wlog is None or wlog == rlog)
    return 0 if ok else 1
