"""C11 — working with a tree never recurses on its depth.

Measurement (the tie of the Lean accounting `BS.Depth` to CPython): every listed operation on every nesting shape
family, built WITHOUT the parser (elements created and linked by hand, iteratively) and — for the parse and
document operations — through `BeautifulSoup(markup, "html.parser")`, at depths d and 2d under `sys.setprofile`
(call/c_call/return/c_return/c_exception; maximum call depth), then at a depth beyond `sys.getrecursionlimit()`
(limit left at its default) without a profile function.  Oracle = the property statement: depth(2d) - depth(d) <= 3
and no RecursionError beyond the limit.  Correspondence = the growth the Lean accounting computes for the very same
tree (sent as an event list) in its repaired variant must equal the measured growth (zero); the unrepaired variant
of the accounting is asked too and quoted in a violation when the measured growth matches it.

Every measurement runs in a worker subprocess (`python harness/c11.py --worker`), one per shape family, so that a hard
crash (C stack overflow) is survived and reported with its exit code.  Nothing in this file recurses on a tree."""
from __future__ import annotations

import json
import os
import subprocess
import sys
import time
from concurrent.futures import ThreadPoolExecutor
from pathlib import Path

MANIFEST = dict(
    text=("Lean theorems about an instrumented cost semantics (`BS.Depth`: a loop costs the deepest of its iterations, a call one frame "
          "plus its callee, a structural ==/!= between tags costs eqDepth) that follows the call graph of bs4. REFINEMENT of the main "
          "anchor: the statement-by-statement mirror of `_event_stream` (loop + explicit tag stack, both the self_and_descendants form "
          "and the descendants form used by decode_contents/__deepcopy__/hidden receivers) yields exactly the recursive skeleton and its "
          "deepest comparison IS the recursive characterisation evCmp the accountings use (event_stream_refines_skeleton, "
          "event_stream_deepest_comparison, event_stream_contents_refines, event_stream_identity_makes_no_call). PARSE: for every "
          "tokenizer event sequence and every pair of builder tables (overlapping or not) the side stacks are the tag stack filtered "
          "by name, so popTag's == never recurses (depth_bounded_parse, for any cost of that recursion), and after _feed nothing is "
          "left on the parser stacks (after_parse_no_tree_object); field-level mirror of BeautifulSoup.__dict__/__getstate__: the "
          "pickled state holds no tree object (getstate_fields_hold_no_tree_object, pickled_state_has_no_tree_object, "
          "depth_bounded_pickle). For all trees, receivers, ancestor contexts, queries and argument lists: decode/encode/prettify/str/"
          "hash/*_contents, copy/deepcopy, get_text/strings/.string, every find_* family incl. string= (the .string getter is read "
          "exactly where matches_tag's earlier exits are passed: matching_reads_string_only_where_reached), and every editing call "
          "(parametrised by the cost of an 'are these the same object' test; bounded for identity tests) are bounded by explicit "
          "constants, all below the generated sys.getrecursionlimit() (handled_beyond_the_recursion_limit). DEPENDENCE/witness theorems: "
          "the unrepaired forms grow linearly on explicit families (!= in _event_stream, recursive .string/smooth/_is_xml, links kept "
          "by __getstate__), and so do the variants 'only the outermost <pre> is pushed', 'elif in popTag', '== instead of is in "
          "replace_with/index'. TIE: (1) max call depth under sys.setprofile of ~150 operations (incl. editing histories with near "
          "copies as arguments/siblings, parse under 4 builder configurations, the pure-Python pickler) x ~45 shape families at "
          "depths 50/100/200 (+400/800) must not grow and must survive depth 3000 (6000) with the default recursion limit, and must "
          "equal the growth the Lean accounting computes for the same tree; (2) differential streams against the real code: "
          "_event_stream events on random bushy trees vs mirror and skeleton; __dict__/__getstate__() field classes vs the mirror "
          "over parse/insert/copy/unpickle histories and configurations; which tags' .string a search reads vs the mirror of "
          "matches_tag; (3) runtime oracles of the proof invariants on the running parser (side stacks = filtered tag stack; "
          "after-parse state free of tree objects)."),
    design="7/C11",
    note=("PARTIAL by nature: the theorems are about an accounting of the code's call graph; that the accounting matches CPython is "
          "measured (growth between depths, warm-up first, threshold 3 — for the inhomogeneous seeded shapes one frame per 8 levels; "
          "absolute depths are never compared). Leaf helpers that never receive a tree-navigating argument (formatter, constructors, "
          "html.parser's tokenizer, MatchRule) are constants of the accounting; the C pickler is modelled as 'walks every element "
          "reachable from a tree object in the state' and measured with the pure-Python pickler; soupsieve (select) is recorded only. "
          "The pointer guards inside extract/_insert (previous_element is not next_element, new_child.parent is self) are identity "
          "tests the accounting does not parametrise: they are exercised by the near-copy/twin histories only. `a == b`, `x in tag` "
          "and pickling a single Tag are inherently recursive, not in the property's list: recorded (eq_copy doubles as positive "
          "control), never flagged."),
    technique="Lean 4 refinement + invariant proofs over an instrumented call-depth semantics; sys.setprofile measurement at several depths and beyond the recursion limit (subprocess-isolated); differential streams (events, pickled state, .string reads); runtime invariant oracles",
)

GROWTH_MAX = 3          # "zero growth" threshold calibrated in DESIGN.md (a real recursion shows >= d)
WARM_DEPTH = 3

# --------------------------------------------------------------------------------------
# shape families: flat event lists (never nested Python data)
#   ("o", name, attrs, level)   open a tag; level = k for the k-th tag of the nesting chain, else None
#   ("c",)                      close
#   ("t", text)                 a string
# --------------------------------------------------------------------------------------
FAMILIES = [
    # name, parsed?, builder-less?
    "chain",            # <a><a>…x…</a></a>                      pure chain
    "chain_text",       # <a><a>…</a>t</a>t                      trailing text at every level
    "chain_sibling",    # <a><a>…</a><b></b></a><b></b>          trailing sibling at every level
    "chain_void",       # <a><a>…</a><br/></a><br/>              trailing void sibling at every level
    "lead_text",        # <a>t<a>t…</a></a>                      leading text only
    "alternating",      # <a><b><a>…</a>t</b>t</a>t              alternating names, trailing text
    "attrs_same",       # <a class="c">…</a>t                    identical attribute at every level, trailing text
    "attrs_distinct",   # <a id="k">…</a>t                       distinct attribute at every level, trailing text
    "attrs_multi",      # <a class="c k" id="i">…</a>t            multi-valued + plain attributes at every level, trailing text
    "chain_comment",    # <a><a>…</a><!--c--></a><!--c-->        a trailing comment (a special string class) at every level
    "chain_entity",     # <a><a>…</a>a&amp;b&lt;c</a>…            trailing text that needs entity substitution at every level
    "repeated",         # <div><p>x</p> … <p>x</p></div>         identical sub-structure before and after every level
    "pre_chain",        # <pre><a><a>…</a>t</a>t</pre>            chain inside <pre> (popTag's == on the preserve stack)
    "pre_nested",       # <pre><pre>…</pre>t</pre>t               nested whitespace-preserving tags, trailing text
    "rt_nested",        # <rt><rt>…</rt>t</rt>t                   nested string-container tags, trailing text
    "unclosed",         # <a><b><b>…x</a>            markup only: one end tag closes n open tags (`_popToTag`)
    "unclosed_eof",     # <a><a><a>…x                markup only: nothing is closed before the end of input (`_feed`)
    # markup only: nested whitespace-preserving / string-container tags around deep look-alike content (popTag's == on the
    # side stacks while PARSING): (<X> CHAIN(n)) * 3 + </X> * 3 — when the middle X closes it has as many children as
    # the outer one, and an identical deep leading child
    "nest3_pre", "nest3_textarea", "nest3_rt", "nest3_rp", "nest3_template",
    # markup only: <X>t<X>t<X>t…</X></X></X> — n nested X, each starting with the same text
    "nestlead_pre", "nestlead_textarea", "nestlead_rt", "nestlead_template",
    "style_head",       # <style>x</style><b><b>…</b>t</b>t   markup only: a string container closed before the deep part
    "both_unclosed_end",  # <b><b>…<style>x                  markup only: a string container still open at the end of input
    # markup only, with a builder configuration: tags that are in BOTH tables / in neither
    "nest3_rt@pw_plus", "nestlead_rt@pw_plus", "nestlead_template@pw_plus", "style_head@pw_plus", "both_unclosed_end@pw_plus",
    "chain_text@pw_plus", "pre_nested@pw_plus",
    "nest3_pre@sc_plus", "nestlead_pre@sc_plus", "nestlead_textarea@sc_plus", "pre_chain@sc_plus", "style_head@sc_plus",
    "chain_text@sc_plus",
    "nest3_pre@empty", "nestlead_rt@empty", "chain_text@empty", "style_head@empty",
    # trees whose elements are instances of (empty) user subclasses — element_classes={Tag: MyTag, NavigableString: MyStr, …},
    # a BeautifulSoup subclass as the document — or a mix of library classes and subclasses
    "chain#sub", "chain_text#sub", "chain_sibling#sub", "pre_nested#sub", "twins#sub", "chain#mixed", "chain_text#mixed",
    "builderless#sub",
    "twins",            # <a> <a><a>…x…</a></a> <a><a>…x…</a></a> </a>   two identical deep chains side by side
    "builderless",      # Tag(name="a") nested by hand (known_xml is None), trailing text
]
PARSED_ONLY_OPS_FAMILIES = [f for f in FAMILIES if f != "builderless"]


# builder configurations (the tables `pushTag`/`popTag`/`endData`/`string_container` consult). A family name may carry one:
# "<base>@<config>"; such families are parsed (never hand-linked) with these constructor arguments.
CONFIG_NAMES = ("default", "pw_plus", "sc_plus", "empty")


def split_family(fam: str):
    fam = fam.partition("#")[0]
    base, _, cfg = fam.partition("@")
    return base, (cfg or "default")


def class_mode(fam: str) -> str:
    """element classes of the tree: "" = the library's own classes; "sub" = every element is an instance of an (empty) user
    subclass — BeautifulSoup, Tag, NavigableString, Comment —, as `element_classes={Tag: MyTag, …}` makes them; "mixed" =
    library classes and subclasses alternate from element to element (trees assembled through the API)"""
    return fam.partition("#")[2]


_USER = {}
CLASS_MODE = [""]          # set once per worker process from its family


def user_classes():
    """empty user subclasses, importable by name from this module (so that documents made of them pickle)"""
    if not _USER:
        from bs4 import BeautifulSoup
        from bs4.element import Tag, NavigableString, Comment
        for nm, base in (("MySoup", BeautifulSoup), ("MyTag", Tag), ("MyStr", NavigableString), ("MyComment", Comment)):
            cls = type(nm, (base,), {"__module__": __name__, "__doc__": "a user subclass that changes nothing"})
            globals()[nm] = cls
            _USER[nm] = cls
    return _USER


def soup_class():
    if CLASS_MODE[0] == "sub":
        return user_classes()["MySoup"]
    from bs4 import BeautifulSoup
    return BeautifulSoup


def class_kwargs() -> dict:
    if CLASS_MODE[0] != "sub":
        return {}
    from bs4.element import Tag, NavigableString, Comment
    u = user_classes()
    return {"element_classes": {Tag: u["MyTag"], NavigableString: u["MyStr"], Comment: u["MyComment"]}}


def config_kwargs(name: str) -> dict:
    if name == "default":
        return {}
    from bs4.builder import HTMLTreeBuilder
    from bs4.element import RubyTextString, PreformattedString
    if name == "pw_plus":      # "do not re-indent these either": whitespace-preserving tags that are ALSO string containers
        return {"preserve_whitespace_tags": set(HTMLTreeBuilder.DEFAULT_PRESERVE_WHITESPACE_TAGS) | {"script", "style", "rt", "rp", "template"}}
    if name == "sc_plus":      # string containers that are ALSO whitespace-preserving
        d = dict(HTMLTreeBuilder.DEFAULT_STRING_CONTAINERS)
        d.update({"pre": RubyTextString, "textarea": PreformattedString, "b": RubyTextString})
        return {"string_containers": d}
    if name == "empty":
        return {"preserve_whitespace_tags": set(), "string_containers": {}}
    raise KeyError(name)


def config_tables(name: str):
    """(whitespace-preserving name codes, string-container name codes) as the LIVE builder holds them"""
    from bs4.builder import HTMLParserTreeBuilder
    b = HTMLParserTreeBuilder(**config_kwargs(name))
    pre = sorted(NAME_CODE[x] for x in b.preserve_whitespace_tags if x in NAME_CODE)
    sc = sorted(NAME_CODE[x] for x in b.string_containers if x in NAME_CODE)
    return pre, sc


def family_events(fam: str, n: int):
    fam = split_family(fam)[0]
    ev = []
    o, c, t = (lambda nm, at, lv: ev.append(("o", nm, at, lv))), (lambda: ev.append(("c",))), (lambda s: ev.append(("t", s)))
    if fam == "chain":
        for k in range(n):
            o("a", {}, k)
        t("x")
        for k in range(n):
            c()
    elif fam in ("chain_text", "builderless"):
        for k in range(n):
            o("a", {}, k)
        for k in range(n):
            c()
            t("t")
    elif fam == "chain_sibling":
        for k in range(n):
            o("a", {}, k)
        for k in range(n):
            c()
            o("b", {}, None)
            c()
    elif fam == "chain_void":
        for k in range(n):
            o("a", {}, k)
        for k in range(n):
            c()
            o("br", {}, None)
            c()
    elif fam == "lead_text":
        for k in range(n):
            o("a", {}, k)
            t("t")
        for k in range(n):
            c()
    elif fam == "alternating":
        for k in range(n):
            o("ab"[k % 2], {}, k)
        for k in range(n):
            c()
            t("t")
    elif fam == "attrs_same":
        for k in range(n):
            o("a", {"class": "c"}, k)
        for k in range(n):
            c()
            t("t")
    elif fam == "attrs_multi":
        for k in range(n):
            o("a", {"class": "c k", "id": "i"}, k)
        for k in range(n):
            c()
            t("t")
    elif fam == "chain_comment":
        for k in range(n):
            o("a", {}, k)
        for k in range(n):
            c()
            ev.append(("t", "c", "Comment"))
    elif fam == "chain_entity":
        for k in range(n):
            o("a", {}, k)
        for k in range(n):
            c()
            t("a&b<c")
    elif fam == "attrs_distinct":
        for k in range(n):
            o("a", {"id": "i%d" % k}, k)
        for k in range(n):
            c()
            t("t")
    elif fam == "repeated":
        for k in range(n):
            o("div", {}, k)
            o("p", {}, None)
            t("x")
            c()
        for k in range(n):
            o("p", {}, None)
            t("x")
            c()
            c()
    elif fam == "pre_chain":
        o("pre", {}, None)
        for k in range(n):
            o("a", {}, k)
        for k in range(n):
            c()
            t("t")
        c()
    elif fam == "pre_nested":
        for k in range(n):
            o("pre", {}, k)
        for k in range(n):
            c()
            t("t")
    elif fam == "rt_nested":
        for k in range(n):
            o("rt", {}, k)
        for k in range(n):
            c()
            t("t")
    elif fam.startswith("nest3_"):
        x = fam.split("_", 1)[1]
        for j in range(3):
            o(x, {}, None)
            for k in range(n):
                o("b", {}, k if j == 0 else None)
            for k in range(n):
                c()
        for j in range(3):
            c()
    elif fam.startswith("nestlead_"):
        x = fam.split("_", 1)[1]
        for k in range(n):
            o(x, {}, k)
            t("t")
        for k in range(n):
            c()
    elif fam == "style_head":
        o("style", {}, None)
        t("x")
        c()
        for k in range(n):
            o("b", {}, k)
        for k in range(n):
            c()
            t("t")
    elif fam == "both_unclosed_end":
        for k in range(n):
            o("b", {}, k)
        o("style", {}, None)
        t("x")
        ev.append(("c", "implicit"))
        for k in range(n):
            ev.append(("c", "implicit"))
    elif fam == "unclosed":
        o("a", {}, 0)
        for k in range(1, n):
            o("b", {}, k)
        t("x")
        for k in range(1, n):
            ev.append(("c", "implicit"))
        c()
    elif fam == "unclosed_eof":
        for k in range(n):
            o("a", {}, k)
        t("x")
        for k in range(n):
            ev.append(("c", "implicit"))
    elif fam == "twins":
        o("a", {}, 0)
        for k in range(1, n):
            o("a", {}, None)
        t("x")
        for k in range(1, n):
            c()
        for k in range(1, n):
            o("a", {}, k)
        t("x")
        for k in range(1, n):
            c()
        c()
    elif fam.startswith("random:"):
        # a seeded shape; the decisions of level k do not depend on n, so the shape at depth 2d extends the one at d.
        # Each level repeats the previous level's decisions with probability 0.9 (long runs of look-alike levels are
        # what makes a structural comparison recurse).
        import random
        r = random.Random(fam)
        prev = None
        levels = []
        for k in range(n):
            if prev is None or r.random() < 0.1:
                prev = (r.choice(("a", "a", "b", "b", "pre", "rt")), r.choice(("none", "none", "same", "distinct")),
                        r.choice(("none", "none", "text", "tag")), r.choice(("none", "text", "text", "tag", "void", "tagtext")))
            else:
                r.random()
            levels.append(prev)
        for k, (nm, at, lead, trail) in enumerate(levels):
            o(nm, {} if at == "none" else {"class": "c"} if at == "same" else {"id": "i%d" % k}, k)
            if lead == "text":
                t("t")
            elif lead == "tag":
                o("p", {}, None)
                t("x")
                c()
        for k in range(n - 1, -1, -1):
            trail = levels[k][3]
            c()
            if trail in ("text",):
                t("t")
            elif trail in ("tag", "tagtext"):
                o("b", {}, None)
                c()
                if trail == "tagtext":
                    t("t")
            elif trail == "void":
                o("br", {}, None)
                c()
    else:
        raise KeyError(fam)
    return ev


VOID = {"br"}


def events_markup(ev) -> str:
    out = []
    names = []
    for e in ev:
        if e[0] == "o":
            at = "".join(' %s="%s"' % kv for kv in e[2].items())
            if e[1] in VOID:
                out.append("<%s%s/>" % (e[1], at))
                names.append(None)
            else:
                out.append("<%s%s>" % (e[1], at))
                names.append(e[1])
        elif e[0] == "c":
            nm = names.pop()
            if nm is not None and len(e) == 1:       # ("c", "implicit"): the end tag is missing from the markup
                out.append("</%s>" % nm)
        elif len(e) > 2 and e[2] == "Comment":
            out.append("<!--%s-->" % e[1])
        else:
            out.append(e[1].replace("&", "&amp;").replace("<", "&lt;"))
    return "".join(out)


NAME_CODE = {"a": 1, "b": 2, "br": 3, "div": 4, "p": 5, "pre": 6, "rt": 7, "n": 8, "textarea": 9, "rp": 10, "template": 11,
             "style": 12, "script": 13}
ATTR_CODE = {}


def attr_code(at: dict) -> int:
    if not at:
        return 0
    key = json.dumps(at, sort_keys=True)
    if key == '{"class": "c"}':
        return 1
    if key == '{"class": "c k", "id": "i"}':
        return 2
    return ATTR_CODE.setdefault(key, 100 + len(ATTR_CODE))


def events_tokens(ev, builderless: bool) -> str:
    """the same tree for the Lean driver: o<name>.<attrs>.<kx>.<void>  c  ci (end tag missing from the markup)  t<text id>"""
    out = []
    for e in ev:
        if e[0] == "o":
            out.append("o%d.%d.%d.%d" % (NAME_CODE[e[1]], attr_code(e[2]), 0 if builderless else 1, 1 if e[1] in VOID else 0))
        elif e[0] == "c":
            out.append("c" if len(e) == 1 else "ci")
        else:
            out.append("t%d" % (1 if e[1] == "x" else 3 if len(e) > 2 else 2))
    return " ".join(out)


# --------------------------------------------------------------------------------------
# worker side: building trees by hand, measuring
# --------------------------------------------------------------------------------------
class H:
    """handles into one built tree"""
    __slots__ = ("soup", "root", "top", "mid", "inner", "levels", "elems", "markup", "n", "extra", "args", "cfg", "deepstr")


def _bs():
    import bs4
    return bs4


def build_raw(ev, builderless: bool) -> H:
    """Create the elements and set parent/contents/next_element/previous_element/next_sibling/previous_sibling directly,
    in one pass over the events. With a builder the root is a BeautifulSoup object left OUTSIDE the element chain, exactly
    as after a parse (root.next_element is None, first element's previous_element is None); builder-less the root is a
    plain `Tag(name="root")`."""
    from bs4 import BeautifulSoup
    from bs4.element import Tag, NavigableString
    h = H()
    h.extra = []
    h.cfg = {}
    if builderless:
        soup = None
        root = Tag(name="root")
        builder = None
    else:
        soup = soup_class()("", "html.parser", **class_kwargs())
        root = soup
        builder = soup.builder
    mode = CLASS_MODE[0]
    u = user_classes() if mode else {}
    made = [0]

    def pick(lib, user):
        made[0] += 1
        return u[user] if mode == "sub" or (mode == "mixed" and made[0] % 2) else lib
    h.soup, h.root = soup, root
    stack = [root]
    deepest = [0, None]
    prev = None if not builderless else root
    levels = []
    elems = [root]
    for e in ev:
        if e[0] == "c":
            stack.pop()
            continue
        parent = stack[-1]
        if e[0] == "o":
            if builderless:
                el = pick(Tag, "MyTag")(name=e[1], attrs=dict(e[2]))
            else:
                el = pick(Tag, "MyTag")(None, builder, e[1], None, None, builder.attribute_dict_class(**e[2]))
            if e[3] is not None:
                levels.append(el)
        else:
            if len(e) > 2 and e[2] == "Comment":
                from bs4.element import Comment
                el = pick(Comment, "MyComment")(e[1])
            else:
                el = pick(NavigableString, "MyStr")(e[1])
            if len(stack) >= deepest[0]:
                deepest[0], deepest[1] = len(stack), el
        elems.append(el)
        d = el.__dict__
        d["parent"] = parent
        d["previous_element"] = prev
        d["next_element"] = None
        d["next_sibling"] = None
        if prev is not None:
            prev.__dict__["next_element"] = el
        sibs = parent.__dict__["contents"]
        if sibs:
            ps = sibs[-1]
            d["previous_sibling"] = ps
            ps.__dict__["next_sibling"] = el
        else:
            d["previous_sibling"] = None
        sibs.append(el)
        prev = el
        if e[0] == "o":
            stack.append(el)
    h.levels, h.elems = levels, elems
    h.n = len(levels)
    h.top, h.inner, h.mid = levels[0], levels[-1], levels[len(levels) // 2]
    h.deepstr = deepest[1]
    return h


def build_parsed(ev, cfg=None) -> H:
    from bs4 import BeautifulSoup
    from bs4.element import Tag
    h = H()
    h.extra = []
    h.cfg = cfg or {}
    h.markup = events_markup(ev)
    soup = soup_class()(h.markup, "html.parser", **h.cfg, **class_kwargs())
    h.soup = h.root = soup
    # the chain levels, found iteratively along the element chain
    want = [e for e in ev if e[0] == "o"]
    levels, elems = [], [soup]
    i = 0
    el = soup.contents[0] if soup.contents else None
    while el is not None:
        elems.append(el)
        if isinstance(el, Tag):
            if i < len(want) and want[i][3] is not None:
                levels.append(el)
            i += 1
        el = el.__dict__.get("next_element")
    h.levels, h.elems, h.n = levels, elems, len(levels)
    h.top, h.inner, h.mid = levels[0], levels[-1], levels[len(levels) // 2]
    return h


def teardown(*roots):
    """break every link of every element reachable through .contents, iteratively"""
    stack = [r for r in roots if r is not None]
    while stack:
        e = stack.pop()
        if isinstance(e, (list, tuple)):
            stack.extend(e)
            continue
        d = getattr(e, "__dict__", None)
        if d is None:
            continue
        c = d.get("contents")
        if c:
            stack.extend(c)
        d.clear()


def teardown_h(h: H, result=None):
    elems = h.elems
    h.elems = []
    teardown(h.root, result, h.extra, elems)


class Meter:
    __slots__ = ("cur", "max", "min")

    def __init__(self):
        self.cur = self.max = self.min = 0

    def __call__(self, frame, event, arg):
        if event == "call" or event == "c_call":
            self.cur += 1
            if self.cur > self.max:
                self.max = self.cur
        else:
            self.cur -= 1
            if self.cur < self.min:
                self.min = self.cur


def measure(fn, h):
    """-> (max call depth below the call of fn, result) under a profile function"""
    m = Meter()
    sys.setprofile(m)
    try:
        r = fn(h)
    finally:
        sys.setprofile(None)
    return m.max, r


# ---- operations: name -> (kind, function of the handles). kind: "tree" (any build), "doc" (needs a BeautifulSoup root),
#      "markup" (only the markup), "rec" (recorded only: outside the property's list)
def _new_tag(h, name="n"):
    from bs4.element import Tag
    if h.soup is not None:
        t = h.soup.new_tag(name)          # honours element_classes
    else:
        t = (user_classes()["MyTag"] if CLASS_MODE[0] else Tag)(name=name)
    h.extra.append(t)
    return t


def _consume(it):
    n = 0
    for _ in it:
        n += 1
    return n


def _api_build(h):
    """the same nesting built through the API, top down: new_tag + append at every level, a trailing string after each"""
    cur = _new_tag(h, "a")
    for _ in range(h.n):
        nxt = _new_tag(h, "a")
        cur.append(nxt)
        cur.append("t")
        cur = nxt
    return cur


def _op_smooth(h):
    h.inner.append("p")
    h.inner.append("q")
    h.mid.append("p")
    h.mid.append("q")
    h.top.smooth()


def _op_pickle(h):
    import pickle
    s = pickle.loads(pickle.dumps(h.soup))
    return s


def _op_pickle_insert0(h):
    import pickle
    h.soup.insert(0, "lead")
    return pickle.loads(pickle.dumps(h.soup))


def _op_pickle_copy(h):
    import pickle, copy
    c = copy.copy(h.soup)
    h.extra.append(c)
    return pickle.loads(pickle.dumps(c))


def _op_wrap(h):
    return h.mid.wrap(_new_tag(h))


def _op_extend(h):
    return h.mid.extend(["p", _new_tag(h), "q"])


def _op_move(h):
    # move the lower half of the chain to the end of the top tag
    return h.top.append(h.mid)


def _op_eq_copy(h):
    import copy
    c = copy.copy(h.top)
    h.extra.append(c)
    return h.top == c


def _op_contains_copy(h):
    import copy
    c = copy.copy(h.top)
    h.extra.append(c)
    return c in h.top.parent


def _op_pickle_tag(h):
    import pickle
    return pickle.loads(pickle.dumps(h.top))


def _strainer_parse(h):
    from bs4 import BeautifulSoup, SoupStrainer
    return soup_class()(h.markup, "html.parser", parse_only=SoupStrainer(["a", "div", "pre", "rt"]), **h.cfg, **class_kwargs())


def _parse(h):
    return soup_class()(h.markup, "html.parser", **h.cfg, **class_kwargs())


def _parse_bytes(h):
    from bs4 import BeautifulSoup
    return soup_class()(h.markup.encode("utf8"), "html.parser", **h.cfg, **class_kwargs())


class InvariantBroken(Exception):
    pass


def _parse_invariant(h):
    """Runtime oracle of the invariant `depth_bounded_parse` rests on (Proofs/Depth.lean `Inv`): after every pushTag /
    popTag, preserve_whitespace_tag_stack and string_container_stack are exactly the open tags (tagStack) whose name is
    in the builder's preserve_whitespace_tags / string_containers — the same objects, in the same order."""
    from bs4 import BeautifulSoup

    def check(soup):
        b = soup.builder
        for side, names in ((soup.preserve_whitespace_tag_stack, b.preserve_whitespace_tags),
                            (soup.string_container_stack, b.string_containers)):
            want = [t for t in soup.tagStack if t.name in names]
            if len(side) != len(want) or any(x is not y for x, y in zip(side, want)):
                raise InvariantBroken("C11-invariant: side stack %r is not the tag stack filtered by name %r (open tags: %s)"
                                     % ([t.name for t in side], [t.name for t in want], len(soup.tagStack)))

    class Checked(soup_class()):
        def pushTag(self, tag):
            r = BeautifulSoup.pushTag(self, tag)
            check(self)
            return r

        def popTag(self):
            r = BeautifulSoup.popTag(self)
            check(self)
            return r
    return Checked(h.markup, "html.parser", **h.cfg, **class_kwargs())


class StateLeak(Exception):
    pass


def _state_refs(soup, d, budget=20000):
    """tree objects (other than the document object itself) reachable from the state dict `d` through plain containers and
    the attributes of non-tree objects (the builder, a strainer, …) — an iterative walk"""
    from bs4.element import PageElement
    hits, seen = [], set()
    stack = [("state[%r]" % k, v) for k, v in d.items()]
    while stack and budget > 0:
        budget -= 1
        path, v = stack.pop()
        if v is soup or v is None or isinstance(v, (str, bytes, int, float, bool, type)) and not isinstance(v, PageElement):
            continue
        if id(v) in seen:
            continue
        seen.add(id(v))
        if isinstance(v, PageElement):
            hits.append("%s -> %s %r" % (path, type(v).__name__, getattr(v, "name", None) or str(v)[:10]))
            continue
        if isinstance(v, dict):
            stack.extend(("%s[%r]" % (path, k), x) for k, x in v.items())
            stack.extend(("%s.key" % path, k) for k in v)
        elif isinstance(v, (list, tuple, set, frozenset)):
            stack.extend(("%s[%d]" % (path, i), x) for i, x in enumerate(v))
        elif hasattr(v, "__dict__") and not callable(v):
            stack.extend(("%s.%s" % (path, k), x) for k, x in vars(v).items())
    return hits


def _parse_state_clean(h):
    """After the parse no parser-side reference to a tree object may survive: both side stacks empty, the tag stack back to
    the document object, and the state `__getstate__` hands to pickle free of Tag / NavigableString objects (in any
    container, or behind the builder)."""
    from bs4 import BeautifulSoup
    soup = soup_class()(h.markup, "html.parser", **h.cfg, **class_kwargs())
    bad = []
    if soup.preserve_whitespace_tag_stack:
        bad.append("preserve_whitespace_tag_stack = %r" % [t.name for t in soup.preserve_whitespace_tag_stack])
    if soup.string_container_stack:
        bad.append("string_container_stack = %r" % [t.name for t in soup.string_container_stack])
    if len(soup.tagStack) != 1 or soup.tagStack[0] is not soup or soup.currentTag is not soup:
        bad.append("tagStack has %d entries" % len(soup.tagStack))
    refs = _state_refs(soup, soup.__getstate__())
    if refs:
        bad.append("pickled state holds tree objects: " + "; ".join(refs[:3]))
    if bad:
        raise StateLeak("C11-state: after the parse " + " | ".join(bad))
    return soup


def _op_pickle_py(h):
    """the pure-Python pickler: every level of object traversal is a Python frame the profile can see"""
    import pickle
    return pickle._loads(pickle._dumps(h.soup))


def _op_pickle_py_insert0(h):
    import pickle
    h.soup.insert(0, "lead")
    return pickle._loads(pickle._dumps(h.soup))


def _op_pickle_py_copy(h):
    import pickle, copy
    c = copy.copy(h.soup)
    h.extra.append(c)
    return pickle._loads(pickle._dumps(c))


def _position(parent, child):
    i = 0
    for k in parent.contents:
        if k is child:
            return i
        i += 1
    raise ValueError("harness: child not found")


def _near_copy(h, level: int, mark="!"):
    """copy.copy of the chain-level tag `level` with one change at the very bottom: a string appended to the copy of the
    innermost chain tag (found by following the same child positions as in the original — a loop)."""
    import copy
    el = h.levels[level]
    path = [_position(h.levels[k - 1], h.levels[k]) for k in range(level + 1, len(h.levels))]
    c = copy.copy(el)
    h.extra.append(c)
    t = c
    for j in path:
        t = t.contents[j]
    if mark is not None:
        t.append(mark)
    return c


def _prep_ab(h):
    m = len(h.levels) // 2
    h.args = {"A": _near_copy(h, m, "!"), "B": _near_copy(h, m, "?")}


def _prep_a(h):
    h.args = {"A": _near_copy(h, len(h.levels) // 2, "!")}


def _prep_exact(h):
    h.args = {"A": _near_copy(h, len(h.levels) // 2, None)}


def _prep_top(h):
    h.args = {"A": _near_copy(h, 0, "!")}


def _prep_parent(h):
    h.args = {"A": _near_copy(h, max(len(h.levels) // 2 - 1, 0), "!")}


def _prep_twins(h):
    """the receiver between two near copies of itself: [… A, mid, B …, "p", "q"]"""
    _prep_ab(h)
    h.args["parent"] = h.mid.parent
    h.mid.parent.append("p")           # two adjacent strings: smooth() always finds work
    h.mid.parent.append("q")
    h.mid.insert_before(h.args["A"])
    h.mid.insert_after(h.args["B"])


def _prep_after_parentcopy(h):
    _prep_parent(h)
    h.mid.insert_after(h.args["A"])


import re as _re
_RX = _re.compile("^zz")

OPS = {
    # parse
    "parse": ("markup", _parse),
    "parse_bytes": ("markup", _parse_bytes),
    "parse_strainer": ("markup", _strainer_parse),
    "parse_invariant": ("markup", _parse_invariant),
    "parse_state_clean": ("markup", _parse_state_clean),
    # render
    "decode": ("tree", lambda h: h.top.decode()),
    "decode_html": ("tree", lambda h: h.top.decode(formatter="html")),
    "decode_fn": ("tree", lambda h: h.top.decode(formatter=lambda s: s)),
    "decode_mid": ("tree", lambda h: h.mid.decode()),
    "decode_inner": ("tree", lambda h: h.inner.decode()),
    "encode": ("tree", lambda h: h.top.encode()),
    "encode_inner": ("tree", lambda h: h.inner.encode("latin-1")),
    "prettify": ("tree", lambda h: h.top.prettify()),
    "prettify_enc": ("tree", lambda h: h.top.prettify("utf8")),
    "str": ("tree", lambda h: str(h.top)),
    "repr": ("tree", lambda h: repr(h.top)),
    "decode_contents": ("tree", lambda h: h.top.decode_contents()),
    "encode_contents": ("tree", lambda h: h.top.encode_contents()),
    "hash": ("tree", lambda h: hash(h.top)),
    "doc_decode": ("doc", lambda h: h.soup.decode()),
    "doc_prettify": ("doc", lambda h: h.soup.prettify()),
    "doc_encode": ("doc", lambda h: h.soup.encode()),
    # copy
    "copy": ("tree", lambda h: __import__("copy").copy(h.top)),
    "deepcopy": ("tree", lambda h: __import__("copy").deepcopy(h.top)),
    "copy_mid": ("tree", lambda h: __import__("copy").copy(h.mid)),
    "copy_inner": ("tree", lambda h: h.inner.__copy__()),
    "doc_copy": ("doc", lambda h: __import__("copy").copy(h.soup)),
    "doc_deepcopy": ("doc", lambda h: __import__("copy").deepcopy(h.soup)),
    # pickle a document
    "doc_pickle": ("doc", _op_pickle),
    "doc_pickle_insert0": ("doc", _op_pickle_insert0),
    "doc_pickle_copy": ("doc", _op_pickle_copy),
    "doc_pickle_py": ("doc", _op_pickle_py),
    "doc_pickle_py_insert0": ("doc", _op_pickle_py_insert0),
    "doc_pickle_py_copy": ("doc", _op_pickle_py_copy),
    # text
    "get_text": ("tree", lambda h: h.top.get_text()),
    "get_text_sep_strip": ("tree", lambda h: h.top.get_text("|", strip=True)),
    "text": ("tree", lambda h: h.top.text),
    "strings": ("tree", lambda h: _consume(h.top.strings)),
    "stripped_strings": ("tree", lambda h: _consume(h.top.stripped_strings)),
    "doc_get_text": ("doc", lambda h: h.soup.get_text()),
    "string_getter": ("tree", lambda h: h.top.string),
    "string_getter_mid": ("tree", lambda h: h.mid.string),
    # search
    "find_all": ("tree", lambda h: h.top.find_all()),
    "find_all_true": ("tree", lambda h: h.top.find_all(True)),
    "find_all_name": ("tree", lambda h: h.top.find_all("a")),
    "find_all_limit": ("tree", lambda h: h.top.find_all("a", limit=10 ** 9)),
    "find_all_name_string": ("tree", lambda h: h.top.find_all(h.mid.name, string="x")),
    "find_all_true_string": ("tree", lambda h: h.top.find_all(True, string="x")),
    "find_all_string": ("tree", lambda h: h.top.find_all(string="x")),
    "find_all_attrs": ("tree", lambda h: h.top.find_all(class_="c")),
    "find_all_attrs_string": ("tree", lambda h: h.top.find_all(attrs={"class": "c"}, string="x")),
    "find_all_re": ("tree", lambda h: h.top.find_all(_RX)),
    "find_all_fn": ("tree", lambda h: h.top.find_all(lambda t: False)),
    "find_all_list": ("tree", lambda h: h.top.find_all(["a", "p"])),
    "find_all_nonrec": ("tree", lambda h: h.top.find_all("a", recursive=False)),
    "find": ("tree", lambda h: h.top.find("zzz")),
    "find_string": ("tree", lambda h: h.top.find(h.mid.name, string="zzz")),
    "getattr_find": ("tree", lambda h: h.top.zzz),
    "call": ("tree", lambda h: h.top("a")),
    "doc_find_all": ("doc", lambda h: h.soup.find_all("a")),
    "find_parents": ("tree", lambda h: h.inner.find_parents()),
    "find_parents_name": ("tree", lambda h: h.inner.find_parents("a")),
    "find_parent": ("tree", lambda h: h.inner.find_parent("zzz")),
    "find_all_next": ("tree", lambda h: h.top.find_all_next()),
    "find_all_next_name": ("tree", lambda h: h.top.find_all_next("b")),
    "find_next": ("tree", lambda h: h.top.find_next("zzz")),
    "find_all_previous": ("tree", lambda h: h.inner.find_all_previous()),
    "find_previous": ("tree", lambda h: h.inner.find_previous("zzz")),
    "find_next_siblings": ("tree", lambda h: h.mid.find_next_siblings()),
    "find_next_sibling": ("tree", lambda h: h.mid.find_next_sibling("zzz")),
    "find_previous_siblings": ("tree", lambda h: h.mid.find_previous_siblings()),
    "descendants": ("tree", lambda h: _consume(h.top.descendants)),
    "next_elements": ("tree", lambda h: _consume(h.top.next_elements)),
    "previous_elements": ("tree", lambda h: _consume(h.inner.previous_elements)),
    "parents": ("tree", lambda h: _consume(h.inner.parents)),
    # editing
    "extract_inner": ("tree", lambda h: h.inner.extract()),
    "extract_mid": ("tree", lambda h: h.mid.extract()),
    "extract_top": ("tree", lambda h: h.top.extract()),
    "decompose_top": ("tree", lambda h: h.top.decompose()),
    "decompose_mid": ("tree", lambda h: h.mid.decompose()),
    "clear_top": ("tree", lambda h: h.top.clear()),
    "clear_decompose": ("tree", lambda h: h.top.clear(decompose=True)),
    "unwrap_mid": ("tree", lambda h: h.mid.unwrap()),
    "unwrap_top": ("tree", lambda h: h.top.unwrap()),
    "wrap_mid": ("tree", _op_wrap),
    "replace_with_mid": ("tree", lambda h: h.mid.replace_with(_new_tag(h), "s")),
    "insert_before_inner": ("tree", lambda h: h.inner.insert_before("s", _new_tag(h))),
    "insert_after_inner": ("tree", lambda h: h.inner.insert_after("s", _new_tag(h))),
    "insert_after_mid": ("tree", lambda h: h.mid.insert_after(_new_tag(h))),
    "append_inner": ("tree", lambda h: h.inner.append(_new_tag(h))),
    "append_top": ("tree", lambda h: h.top.append("s")),
    "insert0_top": ("tree", lambda h: h.top.insert(0, _new_tag(h), "s")),
    "insert0_root": ("tree", lambda h: h.root.insert(0, "s")),
    "extend_mid": ("tree", _op_extend),
    "move_subtree": ("tree", _op_move),
    "index": ("tree", lambda h: h.top.index(h.top.contents[-1])),
    "extract_last_child": ("tree", lambda h: h.top.contents[-1].extract()),
    "replace_last_child": ("tree", lambda h: h.top.contents[-1].replace_with("s")),
    "smooth": ("tree", _op_smooth),
    "doc_smooth": ("doc", lambda h: h.soup.smooth()),
    "string_setter_mid": ("tree", lambda h: setattr(h.mid, "string", "new")),
    "string_setter_inner": ("tree", lambda h: setattr(h.inner, "string", "new")),
    # editing calls whose ARGUMENT is a near copy of the receiver (copy.copy + one change at the very bottom): wherever the
    # code compares two elements it must do so by identity — a structural == / != / in / list.index would walk both
    # subtrees in lock-step
    "nc_replace_with": ("tree", lambda h: h.mid.replace_with(h.args["A"]), _prep_a),
    "nc_replace_with_exact": ("tree", lambda h: h.mid.replace_with(h.args["A"]), _prep_exact),
    "nc_replace_with_top": ("tree", lambda h: h.top.replace_with(h.args["A"]), _prep_top),
    "nc_replace_with_two": ("tree", lambda h: h.mid.replace_with(h.args["A"], h.args["B"]), _prep_ab),
    "nc_replace_with_parentcopy": ("tree", lambda h: h.mid.replace_with(h.args["A"]), _prep_parent),
    "nc_insert_before": ("tree", lambda h: h.mid.insert_before(h.args["A"], h.args["B"]), _prep_ab),
    "nc_insert_before_exact": ("tree", lambda h: h.mid.insert_before(h.args["A"]), _prep_exact),
    "nc_insert_after": ("tree", lambda h: h.mid.insert_after(h.args["A"], h.args["B"]), _prep_ab),
    "nc_append_to_parent": ("tree", lambda h: h.mid.parent.append(h.args["A"]), _prep_a),
    "nc_append_into_self": ("tree", lambda h: h.mid.append(h.args["A"]), _prep_a),
    "nc_append_child_of_copy": ("tree", lambda h: h.mid.append(h.args["A"].contents[0]), _prep_a),
    "nc_insert0_parent": ("tree", lambda h: h.mid.parent.insert(0, h.args["A"]), _prep_a),
    "nc_insert_two": ("tree", lambda h: h.mid.parent.insert(1, h.args["A"], h.args["B"]), _prep_ab),
    "nc_extend": ("tree", lambda h: h.mid.parent.extend([h.args["A"], h.args["B"]]), _prep_ab),
    "nc_wrap_in_copy": ("tree", lambda h: h.mid.wrap(h.args["A"]), _prep_a),
    "nc_extract_before_parentcopy": ("tree", lambda h: h.mid.extract(), _prep_after_parentcopy),
    # the receiver BETWEEN two near copies of itself (its previous and next sibling)
    "tw_index": ("tree", lambda h: h.args["parent"].index(h.mid), _prep_twins),
    "tw_index_last": ("tree", lambda h: h.args["parent"].index(h.args["B"]), _prep_twins),
    "tw_extract": ("tree", lambda h: h.mid.extract(), _prep_twins),
    "tw_extract_last": ("tree", lambda h: h.args["B"].extract(), _prep_twins),
    "tw_replace_with": ("tree", lambda h: h.mid.replace_with("s"), _prep_twins),
    "tw_replace_with_sibling": ("tree", lambda h: h.mid.replace_with(h.args["B"]), _prep_twins),
    "tw_insert_before": ("tree", lambda h: h.mid.insert_before("s"), _prep_twins),
    "tw_insert_after": ("tree", lambda h: h.mid.insert_after("s", h.args["A"]), _prep_twins),
    "tw_unwrap": ("tree", lambda h: h.mid.unwrap(), _prep_twins),
    "tw_wrap": ("tree", lambda h: h.mid.wrap(_new_tag(h)), _prep_twins),
    "tw_decompose": ("tree", lambda h: h.mid.decompose(), _prep_twins),
    "tw_move_first_to_end": ("tree", lambda h: h.args["parent"].append(h.args["A"]), _prep_twins),
    "tw_insert_existing": ("tree", lambda h: h.args["parent"].insert(0, h.args["B"]), _prep_twins),
    "tw_clear": ("tree", lambda h: h.args["parent"].clear(), _prep_twins),
    "tw_string_setter": ("tree", lambda h: setattr(h.args["parent"], "string", "s"), _prep_twins),
    "tw_smooth": ("tree", lambda h: h.args["parent"].smooth(), _prep_twins),
    "tw_decode": ("tree", lambda h: h.mid.decode(), _prep_twins),
    "tw_decode_parent": ("tree", lambda h: h.args["parent"].prettify(), _prep_twins),
    "tw_get_text": ("tree", lambda h: h.mid.get_text(), _prep_twins),
    "tw_find_all": ("tree", lambda h: h.mid.find_all(h.mid.name), _prep_twins),
    "tw_find_next_siblings": ("tree", lambda h: h.mid.find_next_siblings(h.mid.name), _prep_twins),
    "tw_copy_parent": ("tree", lambda h: __import__("copy").copy(h.args["parent"]), _prep_twins),
    "nc_extend_tag": ("tree", lambda h: h.mid.extend(h.args["A"]), _prep_a),
    # a string deep in the tree as the receiver
    "str_extract": ("tree", lambda h: h.deepstr.extract()),
    "str_replace_with": ("tree", lambda h: h.deepstr.replace_with("s", _new_tag(h))),
    "str_insert_before": ("tree", lambda h: h.deepstr.insert_before(_new_tag(h))),
    "str_insert_after": ("tree", lambda h: h.deepstr.insert_after("s")),
    "str_wrap": ("tree", lambda h: h.deepstr.wrap(_new_tag(h))),
    "str_find_parents": ("tree", lambda h: h.deepstr.find_parents("a")),
    "str_find_parent": ("tree", lambda h: h.deepstr.find_parent("zzz")),
    "str_find_all_previous": ("tree", lambda h: h.deepstr.find_all_previous("a")),
    "str_find_next": ("tree", lambda h: h.deepstr.find_next("zzz")),
    "str_get_text": ("tree", lambda h: (h.deepstr.get_text(), _consume(h.deepstr.strings), h.deepstr.text)),
    "str_output_ready": ("tree", lambda h: (h.deepstr.output_ready("html"), h.deepstr.output_ready())),
    "str_copy": ("tree", lambda h: __import__("copy").copy(h.deepstr)),
    "str_decompose": ("tree", lambda h: h.deepstr.decompose()),
    # an edit, then the whole tree is worked with again (the measured call includes both)
    "after_move_decode": ("tree", lambda h: (h.top.append(h.mid), h.top.decode(), h.top.get_text())),
    "after_wrap_decode": ("tree", lambda h: (h.mid.wrap(_new_tag(h)), h.top.prettify(), h.top.find_all("a", string="x"))),
    "after_unwrap_copy": ("tree", lambda h: (h.mid.unwrap(), __import__("copy").copy(h.top))),
    "after_replace_decode": ("tree", lambda h: (h.mid.replace_with(h.args["A"]), h.top.decode(), h.top.smooth()), _prep_a),
    "api_build": ("tree", lambda h: _api_build(h)),
    "doc_pickle_proto2": ("doc", lambda h: __import__("pickle").loads(__import__("pickle").dumps(h.soup, protocol=2))),
    # small protocol methods
    "len_bool_iter": ("tree", lambda h: (len(h.top), bool(h.top), _consume(iter(h.top)))),
    "contains_str": ("tree", lambda h: "zzz" in h.top),
    "contains_child": ("tree", lambda h: h.top.contents[0] in h.top),
    # recorded only (inherently recursive or third party; outside the property's list of operations)
    "eq_copy": ("rec", _op_eq_copy),
    "contains_copy": ("rec", _op_contains_copy),
    "pickle_tag": ("rec", _op_pickle_tag),
    "select": ("rec", lambda h: h.top.select("a a, b")),
    "select_one": ("rec", lambda h: h.top.select_one("zzz")),
}

MID_OPS = {"decode_mid", "copy_mid", "string_getter_mid", "find_next_siblings", "find_next_sibling", "find_previous_siblings",
           "extract_mid", "decompose_mid", "unwrap_mid", "wrap_mid", "replace_with_mid", "insert_after_mid", "extend_mid",
           "string_setter_mid"}
INNER_OPS = {"decode_inner", "encode_inner", "copy_inner", "find_parents", "find_parents_name", "find_parent",
             "find_all_previous", "find_previous", "previous_elements", "parents", "extract_inner", "insert_before_inner",
             "insert_after_inner", "append_inner", "string_setter_inner"}
LINKED_OPS = {"doc_pickle_insert0", "doc_pickle_copy", "doc_pickle_py_insert0", "doc_pickle_py_copy"}


def receiver(op: str) -> str:
    if OPS[op][0] in ("markup", "doc") or op == "insert0_root":
        return "root"
    if op.startswith(("nc_", "tw_", "after_")):
        return "top" if op == "nc_replace_with_top" else "mid"
    if op.startswith("str_"):
        return "inner"
    return "mid" if op in MID_OPS else "inner" if op in INNER_OPS else "top"


MARKUP_OPS = [k for k, v in OPS.items() if v[0] == "markup"]
DOC_OPS = [k for k, v in OPS.items() if v[0] == "doc"]


MARKUP_ONLY = ("style_head", "both_unclosed_end", "unclosed", "unclosed_eof", "nest3_pre", "nest3_textarea", "nest3_rt", "nest3_rp", "nest3_template",
               "nestlead_pre", "nestlead_textarea", "nestlead_rt", "nestlead_template")


def is_markup_only(fam: str) -> bool:
    return "@" in fam or fam in MARKUP_ONLY


def applicable(op: str, fam: str, build: str) -> bool:
    kind = OPS[op][0]
    mode = class_mode(fam)
    fam = fam.partition("#")[0]
    if mode == "mixed" and build == "parsed":
        return False                         # a parse makes every element of one class
    if is_markup_only(fam):
        return build == "parsed" and kind in ("markup", "doc")
    if op == "api_build":
        return fam in ("chain", "builderless") and build == "raw"
    if fam == "builderless":
        if build != "raw" or kind in ("markup", "doc"):
            return False
        if op.startswith(("nc_", "tw_")):
            # a copy of a builder-less subtree costs O(depth) per element (_is_xml walks up): a representative subset only
            return op in ("nc_replace_with", "nc_append_to_parent", "nc_wrap_in_copy", "tw_extract", "tw_index")
        if op in ("select", "select_one"):
            return True
        return True
    if kind == "markup":
        return build == "parsed"
    return True


def _tail(tb: str, n=6):
    lines = [l for l in tb.strip().splitlines()]
    # collapse the repeated frames of a recursion
    out, last, rep = [], None, 0
    for l in lines:
        if l == last:
            rep += 1
            continue
        if rep:
            out.append("  [previous line repeated %d more times]" % rep)
            rep = 0
        out.append(l)
        last = l
    return out[-n * 2:]


def worker_main():
    import traceback
    job = json.loads(sys.stdin.read())
    repo = job["repo"]
    sys.path.insert(0, repo)
    import warnings
    warnings.simplefilter("ignore")
    import bs4
    assert os.path.realpath(bs4.__file__).startswith(os.path.realpath(repo)), (bs4.__file__, repo)
    fam = job["family"]
    builderless = split_family(fam)[0] == "builderless"
    CLASS_MODE[0] = class_mode(fam)
    cfg = config_kwargs(split_family(fam)[1])
    out = sys.stdout

    def emit(**kw):
        out.write(json.dumps(kw) + "\n")
        out.flush()

    emit(ev="hello", limit=sys.getrecursionlimit(), bs4=bs4.__file__, py=sys.version.split()[0])

    def build0(kind, n, markup_only=False):
        ev = family_events(fam, n)
        if kind == "raw":
            h = build_raw(ev, builderless)
            h.markup = None if builderless else events_markup(ev)
        elif markup_only:
            h = H()                      # the parse operations need the markup only
            h.extra, h.elems, h.root, h.soup = [], [], None, None
            h.markup = events_markup(ev)
            h.cfg = cfg
        else:
            h = build_parsed(ev, cfg)
        return h

    for op, bkind, *_deep in job["jobs"]:
        deep_list = _deep[0] if _deep else job["deep"]
        fn = OPS[op][1]
        prep = OPS[op][2] if len(OPS[op]) > 2 else (lambda h: None)
        build = (lambda k, n, mo=(OPS[op][0] == "markup"): build0(k, n, mo))
        PREP = "(while preparing the arguments: copy + a change at the bottom)"
        emit(ev="begin", op=op, build=bkind)
        rec = {"ev": "done", "op": op, "build": bkind, "depths": {}, "deep": {}}
        # warm-up on a tiny tree: lazy imports / regex caches make the first call deeper
        try:
            h = build(bkind, WARM_DEPTH)
            r = None
            try:
                prep(h)
                r = fn(h)
            finally:
                teardown_h(h, r)
            h = build(bkind, WARM_DEPTH)
            r = None
            try:
                prep(h)
                w, r = measure(fn, h)
            finally:
                teardown_h(h, r)
            rec["warm"] = w
        except RecursionError:
            rec["warm"] = "RecursionError"
        except Exception as e:  # the operation itself does not apply to this shape (recorded, not a verdict)
            rec["warm"] = "error: %s: %s" % (type(e).__name__, str(e)[:120])
            emit(**rec)
            continue
        for n in job["depths"]:
            h = r = None
            stage = "(while building the tree by parsing)"
            try:
                h = build(bkind, n)
                stage = PREP
                prep(h)
                stage = ""
                d, r = measure(fn, h)
                rec["depths"][str(n)] = d
            except RecursionError:
                rec["depths"][str(n)] = "RecursionError" + stage
                rec.setdefault("tb", _tail(traceback.format_exc()))
            except Exception as e:
                rec["depths"][str(n)] = "error%s: %s: %s" % (stage, type(e).__name__, str(e)[:120])
            finally:
                sys.setprofile(None)
                if h is not None:
                    teardown_h(h, r)
        for n in deep_list:
            h = r = None
            t0 = time.time()
            stage = "(while building the tree by parsing)"
            try:
                h = build(bkind, n)
                stage = PREP
                prep(h)
                stage = ""
                r = fn(h)
                rec["deep"][str(n)] = "ok"
            except RecursionError:
                rec["deep"][str(n)] = "RecursionError" + stage
                rec.setdefault("tb", _tail(traceback.format_exc()))
            except Exception as e:
                rec["deep"][str(n)] = "error%s: %s: %s" % (stage, type(e).__name__, str(e)[:120])
            finally:
                rec.setdefault("deep_s", {})[str(n)] = round(time.time() - t0, 3)
                if h is not None:
                    teardown_h(h, r)
        emit(**rec)
    emit(ev="bye")


if __name__ == "__main__" and "--worker" in sys.argv:
    worker_main()
    sys.exit(0)


# --------------------------------------------------------------------------------------
# check side
# --------------------------------------------------------------------------------------
# quick tier: the near-copy / twin-sibling histories run on these families only (thorough: on every tree family)
HISTORY_FAMILIES_QUICK = ("chain", "chain_text", "chain_sibling", "attrs_same", "repeated", "twins", "pre_nested", "builderless")


# quick tier: these tree families run the core operations only (thorough: everything)
LIGHT_FAMILIES_QUICK = ("attrs_multi", "chain_comment", "chain_entity", "chain_void", "lead_text", "alternating", "attrs_distinct",
                        "pre_chain", "rt_nested")
CORE_OPS = ("decode", "decode_mid", "prettify", "encode", "hash", "copy", "deepcopy", "copy_mid", "get_text", "stripped_strings",
            "string_getter", "string_getter_mid", "find_all_name_string", "find_all_attrs_string", "find_all_true_string", "find_string",
            "find_all", "getattr_find", "find_parents", "find_all_next", "smooth",
            "extract_mid", "append_inner", "insert_after_inner", "insert_before_inner", "replace_with_mid", "unwrap_mid", "wrap_mid",
            "decompose_mid", "clear_top", "string_setter_mid", "move_subtree", "extend_mid", "index", "str_extract", "str_replace_with",
            "str_find_parents", "str_output_ready", "str_wrap", "after_move_decode", "after_unwrap_copy", "eq_copy")
CORE_DOC_OPS = ("doc_decode", "doc_prettify", "doc_copy", "doc_deepcopy", "doc_pickle", "doc_pickle_copy", "doc_pickle_py", "doc_get_text",
                "doc_find_all", "doc_smooth")
HISTORY_OPS_QUICK_RANDOM = ("nc_replace_with", "nc_insert_before", "nc_append_to_parent", "nc_wrap_in_copy", "tw_index", "tw_extract",
                            "tw_replace_with_sibling", "tw_decode", "tw_smooth", "tw_insert_after")


def _jobs_for(fam: str, thorough: bool = True):
    jobs = []
    for op, v in OPS.items():
        kind = v[0]
        if not thorough and (fam in LIGHT_FAMILIES_QUICK or "#" in fam) and kind in ("tree", "rec") and op not in CORE_OPS:
            continue
        if not thorough and "#" in fam and kind == "doc" and op not in CORE_DOC_OPS:
            continue
        if not thorough and op.startswith(("nc_", "tw_")):
            if fam.startswith("random:"):
                if op not in HISTORY_OPS_QUICK_RANDOM:
                    continue
            elif fam not in HISTORY_FAMILIES_QUICK:
                continue
        if applicable(op, fam, "raw"):
            jobs.append((op, "raw"))
        if kind in ("markup", "doc") and applicable(op, fam, "parsed"):
            jobs.append((op, "parsed"))
    return jobs


def run_worker(repo: str, fam: str, jobs, depths, deep, timeout=1500):
    """-> (records, crashes). Restarts the worker after a hard crash, skipping the operation that died."""
    here = Path(__file__).resolve()
    records, crashes = [], []
    todo = list(jobs)
    hello = None
    t_start = time.time()
    while todo:
        job = dict(repo=repo, family=fam, jobs=todo, depths=depths, deep=deep)
        env = dict(os.environ)
        env.pop("PYTHONPATH", None)
        try:
            p = subprocess.run([sys.executable, str(here), "--worker"], input=json.dumps(job), capture_output=True,
                               text=True, timeout=timeout, env=env)
            rc, out, err = p.returncode, p.stdout, p.stderr
        except subprocess.TimeoutExpired as e:
            rc, out, err = "timeout", (e.stdout or b"").decode() if isinstance(e.stdout, bytes) else (e.stdout or ""), "timeout"
        begun, done, bye = None, set(), False
        for line in out.splitlines():
            try:
                r = json.loads(line)
            except ValueError:
                continue
            if r["ev"] == "hello":
                hello = r
            elif r["ev"] == "begin":
                begun = (r["op"], r["build"])
            elif r["ev"] == "done":
                records.append(r)
                done.add((r["op"], r["build"]))
                begun = None
            elif r["ev"] == "bye":
                bye = True
        if bye:
            break
        # died: the operation in progress is the culprit
        if begun is None and not done:
            crashes.append({"op": None, "build": None, "rc": rc, "stderr": err[-600:]})
            break
        if begun is not None:
            crashes.append({"op": begun[0], "build": begun[1], "rc": rc, "stderr": err[-600:]})
            done.add(begun)
        todo = [j for j in todo if tuple(j[:2]) not in done]
    if hello is not None:
        hello["wall_s"] = round(time.time() - t_start, 1)
    return records, crashes, hello


def classify(op: str, fam: str) -> str | None:
    """which recorded defect class a failing (operation, family) falls into — from the case itself. Only ids listed in
    known_findings.json with status `known` are ever suppressed."""
    if op in ("smooth", "doc_smooth"):
        return "C11-smooth-recursive"
    if op in ("string_getter", "string_getter_mid", "find_all_name_string", "find_all_true_string", "find_string",
              "find_all_attrs_string") and fam in ("chain",):
        return "C11-string-getter-recursive"
    if op in LINKED_OPS:
        return "C11-getstate-links"
    if split_family(fam)[0] == "builderless" and receiver(op) in ("mid", "inner") and OPS[op][0] == "tree":
        return "C11-is-xml-recursive"
    return None


def recv_index(ev, which: str):
    """pre-order index (among the tags) of the receiver"""
    if which == "root":
        return "r"
    idx, lv = 0, []
    for e in ev:
        if e[0] == "o":
            if e[3] is not None:
                lv.append(idx)
            idx += 1
    return str(lv[0] if which == "top" else lv[-1] if which == "inner" else lv[len(lv) // 2])


def mid_name_code(ev) -> int:
    lv = [e for e in ev if e[0] == "o" and e[3] is not None]
    return NAME_CODE[lv[len(lv) // 2][1]]


MODEL_D = (50, 100)       # the pair of depths at which model and measurement are compared


def model_growth(fams, ops_by_fam):
    """ask the Lean accounting (repaired and unrepaired variant) for every (family, op) at the two depths ->
    {(fam, op): (growth_new, growth_old)}; None where the accounting has no such operation"""
    from .common import Driver
    lines, keys = [], []
    tables = {c: config_tables(c) for c in CONFIG_NAMES}
    for fam in fams:
        ops = ops_by_fam[fam]
        if not ops:
            continue
        bl = split_family(fam)[0] == "builderless"
        for n in MODEL_D:
            ev = family_events(fam, n)
            toks = events_tokens(ev, bl)
            specs = " ".join("%s:%s:%d" % (op, recv_index(ev, receiver(op)), 1 if op in LINKED_OPS else 0) for op in ops)
            for variant in ("new", "old"):
                pre, sc = tables[split_family(fam)[1]]
                lines.append("c11 depth %s %d %d %s %s %d %s %s" % (variant, 0 if bl else 1, mid_name_code(ev),
                                                                 ",".join(map(str, pre)) or "-", ",".join(map(str, sc)) or "-",
                                                                 len(ops), specs, toks))
                keys.append((fam, n, variant))
    replies = Driver().ask(lines)
    val = {}
    for (fam, n, variant), rep in zip(keys, replies):
        parts = rep.split(" ")
        ops = ops_by_fam[fam]
        if len(parts) != len(ops):
            raise RuntimeError("driver reply malformed for %s: %s" % (fam, rep[:200]))
        for op, x in zip(ops, parts):
            val[(fam, op, n, variant)] = int(x) if x.isdigit() else None
    out = {}
    for fam in fams:
        for op in ops_by_fam[fam]:
            a, b = val.get((fam, op, MODEL_D[0], "new")), val.get((fam, op, MODEL_D[1], "new"))
            c, d = val.get((fam, op, MODEL_D[0], "old")), val.get((fam, op, MODEL_D[1], "old"))
            out[(fam, op)] = None if None in (a, b, c, d) else (b - a, d - c, b)
    return out


# --------------------------------------------------------------------------------------
# stream "events": the real `_event_stream` against its Lean code mirror (stack machine) and the recursive skeleton
# --------------------------------------------------------------------------------------
def gen_bushy_events(r, raw: bool):
    """a small random tree as an event list: nesting, runs of siblings, void tags (raw: sometimes WITH children), never two
    adjacent strings (the parser would merge them)"""
    ev, open_ = [], []
    budget = r.randint(1, 40)
    last_text = False
    while budget > 0:
        budget -= 1
        k = r.random()
        if open_ and k < 0.30:
            ev.append(("c",))
            open_.pop()
            last_text = False
        elif k < 0.50 and not last_text:
            ev.append(("t", r.choice("xt")))
            last_text = True
        elif k < 0.62 and (not open_ or open_[-1] != "br"):
            ev.append(("o", "br", {}, None))
            if raw and r.random() < 0.25:
                open_.append("br")        # a void tag that was given children through the API
            else:
                ev.append(("c",))
            last_text = False
        elif len(open_) < 8:
            nm = r.choice(("a", "a", "b", "p", "pre", "div"))
            ev.append(("o", nm, r.choice(({}, {}, {"class": "c"})), len(open_) if len(open_) == 0 and not any(e[0] == "o" and e[3] is not None for e in ev) else None))
            open_.append(nm)
            last_text = False
    while open_:
        ev.append(("c",))
        open_.pop()
    if not any(e[0] == "o" and e[3] is not None for e in ev):
        ev = [("o", "a", {}, 0)] + ev + [("c",)]
    return ev


def real_events(recv, contents=False):
    """`recv._event_stream()` with every element replaced by its position in document order below `recv` (positions found
    by the harness' own walk over .contents, not by the navigation code)"""
    from bs4.element import Tag
    pos, stack, i = {}, [recv], 0
    while stack:
        e = stack.pop()
        pos[id(e)] = i
        i += 1
        if isinstance(e, Tag):
            stack.extend(reversed(e.contents))
    name = {id(Tag.START_ELEMENT_EVENT): "S", id(Tag.END_ELEMENT_EVENT): "E", id(Tag.EMPTY_ELEMENT_EVENT): "X",
            id(Tag.STRING_ELEMENT_EVENT): "T"}
    it = recv.descendants if contents else None
    return " ".join("%s%d" % (name[id(evt)], pos[id(el)]) for evt, el in recv._event_stream(it))


def run_events_stream(ctx):
    from .common import Driver
    from bs4.element import Tag
    r = ctx.rng("events")
    n = ctx.n(300, 3000)
    lines, real, cases = [], [], []
    for t in range(n):
        raw = r.random() < 0.5
        ev = gen_bushy_events(r, raw)
        h = build_raw(ev, False) if raw else build_parsed(ev)
        toks = events_tokens(ev, False)
        tags = [e for e in h.elems[1:] if isinstance(e, Tag)]
        some = sorted(r.sample(range(len(tags)), min(len(tags), 3)))
        picks = ["r"] + [str(i) for i in some] + ["c%d" % i for i in some[:2]]
        for p in picks:
            recv = h.root if p == "r" else tags[int(p.lstrip("c"))]
            real.append(real_events(recv, contents=p.startswith("c")))
            lines.append("c11 events %s %s" % (p, toks))
            cases.append({"stream": "events", "build": "raw" if raw else "parsed", "recv": p, "events": toks,
                          "markup": None if raw else h.markup})
        teardown_h(h)
    replies = Driver().ask(lines)
    for got, rep, case in zip(real, replies, cases):
        parts = [x.strip() for x in rep.split("|")]
        nontriv = got.count("S") >= 2 and "X" in got or got.count("E") >= 3
        ctx.case(("events", case["events"], case["recv"]) if nontriv else None,
                 sample={"real": got[:120], "recv": case["recv"]} if nontriv and t % 50 == 0 else None)
        ctx.count("events:" + ("with-void" if "X" in got else "plain"))
        if len(parts) != 3 or parts[0] != got or parts[1] != got:
            ctx.corr_disagreements += 1
            ctx.violation("the real _event_stream and its Lean code mirror / recursive skeleton differ", case=case, expected=got,
                          observed=rep, model=rep, stream="events", no_failing_input=True)
        elif parts[2].split()[0] != parts[2].split()[1]:
            ctx.corr_disagreements += 1
            ctx.violation("mirror cost and evCmp differ (contradicts eventStreamImpl_cost)", case=case, observed=rep,
                          stream="events", no_failing_input=True)


# --------------------------------------------------------------------------------------
# stream "state": the document object's __dict__ and __getstate__() against the Lean field-level mirror
# --------------------------------------------------------------------------------------
def classify_value(soup, v):
    from bs4.element import PageElement
    if _state_refs(soup, {"x": v}):
        return "tree"
    stack, seen = [v], set()
    while stack:
        x = stack.pop()
        if x is soup:
            return "self"
        if id(x) in seen or isinstance(x, (str, bytes, int, float, type)) or x is None:
            continue
        seen.add(id(x))
        if isinstance(x, dict):
            stack.extend(x.values())
        elif isinstance(x, (list, tuple, set, frozenset)):
            stack.extend(x)
    return "flat"


def run_state_stream(ctx):
    import copy
    from .common import Driver
    from bs4 import BeautifulSoup
    r = ctx.rng("state")
    tables = {c: config_tables(c) for c in CONFIG_NAMES}
    fams = [f for f in FAMILIES if is_markup_only(f)] + ["chain_text", "pre_nested", "rt_nested", "repeated", "twins", "chain_void"]
    lines, reals, cases = [], [], []
    for fam in fams:
        base, cfgname = split_family(fam)
        for n in (1, 2, r.randint(3, 12)):
            ev = family_events(fam, n)
            markup = events_markup(ev)
            toks = events_tokens(ev, False)
            pre, sc = tables[cfgname]
            for history in ("parsed", "insert0", "copy", "unpickled"):
                soup = BeautifulSoup(markup, "html.parser", **config_kwargs(cfgname))
                hist_toks, linked, most = toks, 0, 1
                if history == "insert0":
                    soup.insert(0, "lead")
                    linked = 1
                elif history == "copy":
                    soup = copy.copy(soup)
                    hist_toks, linked, most = "-", 1, 0           # the clone parsed "", then was appended to
                elif history == "unpickled":
                    import pickle
                    soup = pickle.loads(pickle.dumps(soup))       # __setstate__: reset + _feed of the rendered markup
                haskids = 1 if soup.contents else 0
                before = {k: classify_value(soup, v) for k, v in soup.__dict__.items()}
                after = {k: classify_value(soup, v) for k, v in soup.__getstate__().items()}
                reals.append((before, after))
                lines.append("c11 state new %d %d %d %s %s %s" % (linked, haskids, most, ",".join(map(str, pre)) or "-",
                                                                  ",".join(map(str, sc)) or "-", hist_toks))
                cases.append({"stream": "state", "family": fam, "n": n, "history": history, "markup": markup, "config": cfgname})
                soup.decompose()
    replies = Driver().ask(lines)
    for (before, after), rep, case in zip(reals, replies, cases):
        ctx.case(("state", case["family"], case["n"], case["history"]))
        ctx.count("state:" + case["history"])
        try:
            mb, ma = [dict(x.split("=") for x in part.split()) for part in rep.split(" | ")]
        except ValueError:
            raise RuntimeError("driver reply malformed: " + rep[:200])
        bad = []
        for which, real, model in (("__dict__", before, mb), ("__getstate__()", after, ma)):
            for k, v in model.items():
                if k in real and real[k] != v:
                    bad.append("%s[%r]: real %s, mirror %s" % (which, k, real[k], v))
                # a key the pickled state does not carry at all cannot make pickling walk the tree: which bookkeeping fields
                # __getstate__ keeps is free (free-behaviour round: the parser's scratch fields dropped from the state)
                if k not in real and v != "flat" and not (k == "_most_recent_element") and which == "__dict__":
                    bad.append("%s[%r]: absent in the real dict, mirror %s" % (which, k, v))
            for k, v in real.items():
                if k not in model and v == "tree":
                    bad.append("%s[%r] holds tree objects; the mirror does not know this attribute" % (which, k))
            if which == "__getstate__()" and "_most_recent_element" in real:
                bad.append("__getstate__() kept _most_recent_element")
        leak = [k for k, v in after.items() if v == "tree"]
        if leak:
            ctx.violation("the state handed to pickle holds tree objects", case=case, expected="no Tag/NavigableString under any key",
                          observed={k: after[k] for k in leak}, model=rep, stream="state")
        elif bad:
            ctx.corr_disagreements += 1
            ctx.violation("the document object's __dict__/__getstate__() and the Lean field-level mirror differ", case=case,
                          expected=rep, observed=bad[:6], model=rep, stream="state", no_failing_input=True)


# --------------------------------------------------------------------------------------
# stream "reads": for which tags does a search read the `.string` property? (the only tree-dependent call of matching)
# --------------------------------------------------------------------------------------
QUERIES = [
    # (protocol: name, other, attrs, str), kwargs factory
    (("1", "0", "-", "1"), lambda: dict(name="a", string="x")),
    (("2", "0", "-", "1"), lambda: dict(name="b", string=_RX)),
    (("-", "1", "-", "1"), lambda: dict(name=True, string="x")),
    (("-", "2", "-", "1"), lambda: dict(name=_RX, string="x")),
    (("-", "2", "-", "1"), lambda: dict(name=(lambda t: False), string="x")),
    (("-", "1", "-", "1"), lambda: dict(name=(lambda t: True), string=lambda s: True)),
    (("-", "0", "-", "1"), lambda: dict(string="x")),
    (("-", "0", "1", "1"), lambda: dict(attrs={"class": "c"}, string="x")),
    (("1", "0", "1", "1"), lambda: dict(name="a", attrs={"class": "c"}, string="t")),
    (("1", "0", "-", "0"), lambda: dict(name="a")),
    (("-", "0", "1", "0"), lambda: dict(attrs={"class": "c"})),
    (("1", "0", "-", "1"), lambda: dict(name="a", string="x", limit=10 ** 6)),
]


def run_reads_stream(ctx):
    from .common import Driver
    from bs4.element import Tag
    r = ctx.rng("reads")
    n = ctx.n(150, 1500)
    orig = Tag.__dict__["string"]
    log = []
    Tag.string = property(lambda self: (log.append(id(self)), orig.fget(self))[1], orig.fset)
    lines, reals, cases = [], [], []
    try:
        for t in range(n):
            raw = r.random() < 0.5
            ev = gen_bushy_events(r, raw)
            h = build_raw(ev, False) if raw else build_parsed(ev)
            toks = events_tokens(ev, False)
            pos, stack, i = {}, [h.root], 0
            while stack:
                e = stack.pop()
                pos[id(e)] = i
                i += 1
                if isinstance(e, Tag):
                    stack.extend(reversed(e.contents))
            for qi in r.sample(range(len(QUERIES)), 4):
                proto, mk = QUERIES[qi]
                del log[:]
                h.root.find_all(**mk())
                reals.append(",".join(str(x) for x in sorted(pos[i] for i in set(log))) or "-")
                lines.append("c11 reads %s %s" % (" ".join(proto), toks))
                cases.append({"stream": "reads", "query": qi, "events": toks, "build": "raw" if raw else "parsed"})
            teardown_h(h)
    finally:
        Tag.string = orig
    replies = Driver().ask(lines)
    for got, rep, case in zip(reals, replies, cases):
        ctx.case(("reads", case["events"], case["query"]) if got != "-" else None)
        ctx.count("reads:" + ("some" if got != "-" else "none"))
        if got != rep:
            ctx.corr_disagreements += 1
            ctx.violation("the tags whose .string a search reads differ from the Lean mirror of matches_tag's exits", case=case,
                          expected=rep, observed=got, model=rep, stream="reads", no_failing_input=True)


def run(ctx):
    from .common import REPO
    streams_ok = ctx.lean is None or ctx.lean.driver_ok
    ctx.rule = ("one case = (operation, shape family, construction) with the operation measured at every depth of the tier and "
                "run once more beyond the recursion limit; non-trivial = the operation ran (did not reject the shape) at every "
                "depth. Oracle: call depth grows by <= %d between consecutive depths (seeded random shapes, which are not homogeneous: "
                "total growth <= one frame per 8 levels) and no RecursionError beyond the limit; "
                "correspondence: measured growth between depths %d and %d = growth of the repaired Lean accounting on the same "
                "tree (+-%d)" % (GROWTH_MAX, MODEL_D[0], MODEL_D[1], GROWTH_MAX))
    ctx.assumptions = [
        "the theorems are about an accounting of the call graph (BS.Depth); its agreement with CPython is measured, per (operation, "
        "family), as growth of the sys.setprofile call depth — absolute depths are never compared",
        "html.parser's tokenizer, the C pickler and soupsieve are outside the accounting: parse and pickle are measured end to end, "
        "select()/select_one() are recorded only",
        "a == b, x in tag (list containment uses ==) and pickling a single Tag are inherently recursive and not among the listed "
        "operations: measured and recorded (eq_copy doubles as a positive control of the measurement), never flagged",
        "sys.getrecursionlimit() left at its default; every measurement in a subprocess",
    ]
    depths = [50, 100, 200] + ([400, 800] if ctx.thorough else [])
    deep = [3000] + ([6000] if ctx.thorough else [])
    deep_all = deep

    def op_deep(op, deep_fam):
        # the histories copy the deep element once or twice before the measured call: half the depth (still beyond the limit)
        return [max(x // 2, 1500) for x in deep_fam] if op.startswith(("nc_", "tw_")) else deep_fam

    def deep_of(fam):
        # copying a builder-less tree costs O(depth) per element (_is_xml walks up to the root): half the depth, still
        # well beyond the recursion limit
        return [x // 2 for x in deep_all] if split_family(fam)[0] in ("builderless", "repeated") else deep_all
    nrand = ctx.n(2, 10)
    r = ctx.rng("families")
    fams = list(FAMILIES) + ["random:%d:%d" % (ctx.seed, r.randrange(10 ** 6)) for _ in range(nrand)]
    jobs = {fam: _jobs_for(fam, ctx.thorough) for fam in fams}
    t0 = time.time()
    with ThreadPoolExecutor(max_workers=min(16, len(fams))) as ex:
        # longest first (builder-less copies are quadratic, `repeated` has three times the elements, markup-only families are short)
        order = sorted(fams, key=lambda f: (0 if f == "builderless" else 1 if f == "repeated" else 3 if is_markup_only(f) else 2))
        futs = {fam: ex.submit(run_worker, str(REPO), fam, [(op, b, op_deep(op, deep_of(fam))) for op, b in jobs[fam]],
                               depths, deep_of(fam)) for fam in order}
        if streams_ok:                      # the in-process differential streams run while the workers measure
            run_reads_stream(ctx)
            run_events_stream(ctx)
            run_state_stream(ctx)
        results = {fam: f.result() for fam, f in futs.items()}
    ctx.extra["measure_wall_s"] = round(time.time() - t0, 1)

    ctx.extra["family_wall_s"] = {fam: (h or {}).get("wall_s") for fam, (_, _, h) in results.items()}
    hello = next((h for _, _, h in results.values() if h), None)
    if hello:
        ctx.extra["interpreter"] = {"python": hello["py"], "recursionlimit": hello["limit"], "bs4": hello["bs4"]}
        if os.path.realpath(hello["bs4"]).startswith(os.path.realpath(str(REPO))) is False:
            raise RuntimeError("worker imported bs4 from %s, not from %s" % (hello["bs4"], REPO))

    # the Lean accounting on the same trees
    modelled = {}
    for fam in fams:
        modelled[fam] = sorted({op for op, _ in jobs[fam] if OPS[op][0] != "rec" or op == "eq_copy"})
    mg = {}
    if ctx.lean is None or ctx.lean.driver_ok:
        mg = model_growth(fams, modelled)
    else:
        ctx.notes.append("driver not built: correspondence skipped, oracle only")

    table = {}
    skipped = {}
    parse_flagged = {}
    for fam in fams:
        records, crashes, _ = results[fam]
        fam_key = fam.split(":")[0]
        deep_fam = deep_of(fam)
        for c in crashes:
            ctx.case(None)
            ctx.count("crash")
            ctx.violation("interpreter died during the operation (hard crash)",
                          case={"operation": c["op"], "family": fam, "build": c["build"], "depths": depths,
                                "deep": op_deep(c["op"] or "", deep_fam)},
                          expected="completes", observed={"exit": c["rc"], "stderr_tail": c["stderr"]}, stream="measure",
                          kf=classify(c["op"], fam) if c["op"] else None)
        for rec in records:
            op, build = rec["op"], rec["build"]
            deep = op_deep(op, deep_fam)
            kind = OPS[op][0]
            case = {"operation": op, "family": fam, "build": build, "depths": depths, "deep": deep}
            if isinstance(rec.get("warm"), str) and "C11-state" in rec["warm"]:
                ctx.case(None)
                ctx.count("after-parse-state:leak")
                ctx.violation("parser state leaks out of the parse: a tree object survives in the state handed to pickle",
                              case=case | {"depths": [WARM_DEPTH], "deep": []},
                              expected="both side stacks empty, tagStack = [document], no Tag/NavigableString in __getstate__()",
                              observed=rec["warm"], stream="after-parse-state")
                continue
            if isinstance(rec.get("warm"), str) and "C11-invariant" in rec["warm"]:
                ctx.case(None)
                ctx.count("invariant:broken")
                ctx.corr_disagreements += 1
                ctx.violation("the invariant the parse bound rests on (side stacks = tag stack filtered by name, Proofs/Depth.lean Inv) "
                              "does not hold in the running parser", case=case | {"depths": [WARM_DEPTH], "deep": []},
                              expected="preserve_whitespace_tag_stack / string_container_stack = the open tags with such a name",
                              observed=rec["warm"], stream="accounting-invariant", no_failing_input=True)
                continue
            if isinstance(rec.get("warm"), str) and rec["warm"].startswith("error"):
                skipped.setdefault(op, []).append((fam, rec["warm"]))
                ctx.count("not-applicable:" + op)
                ctx.case(None)
                continue
            ds = [rec["depths"].get(str(n)) for n in depths]
            dp = [rec["deep"].get(str(n)) for n in deep]
            ints = all(isinstance(x, int) for x in ds)
            growths = [b - a for a, b in zip(ds, ds[1:])] if ints else None
            is_random = fam.startswith("random:")
            if is_random and ints:
                # a seeded shape is not homogeneous: the surroundings of the receiver differ from depth to depth, so the
                # call depth may differ by a shape-dependent CONSTANT (e.g. smooth() finds work or not). Growth with the
                # nesting is proportional to it: flagged when the total growth exceeds one frame per 8 levels.
                ok_growth = ds[-1] - ds[0] <= max(GROWTH_MAX, (depths[-1] - depths[0]) // 8)
                if ok_growth and any(g > GROWTH_MAX for g in growths):
                    ctx.count("random-family:constant-jitter(not growth)")
            else:
                ok_growth = ints and all(g <= GROWTH_MAX for g in growths)
            tol = (MODEL_D[1] - MODEL_D[0]) // 4 if is_random else GROWTH_MAX
            ok_deep = all(x == "ok" for x in dp)
            table["%s|%s|%s" % (op, fam, build)] = ",".join(map(str, ds)) + ";" + ",".join(map(str, dp))
            observed = {"call_depth": dict(zip(map(str, depths), ds)), "beyond_limit": dict(zip(map(str, deep), dp)),
                        "traceback_tail": rec.get("tb")}
            m = mg.get((fam, op))
            if kind == "rec":
                ctx.case(None)
                ctx.count("recorded-only:%s:%s" % (op, "grows" if not (ok_growth and ok_deep) else "flat"))
                i = depths.index(MODEL_D[0])
                if op == "eq_copy" and m is not None and isinstance(ds[i], int) and isinstance(ds[i + 1], int):
                    # positive control: the accounting of == and the interpreter must both grow, by the same amount
                    meas = ds[i + 1] - ds[i]
                    ctx.count("control:eq_copy:" + ("agree" if abs(meas - m[0]) <= GROWTH_MAX else "DISAGREE"))
                    if abs(meas - m[0]) > GROWTH_MAX:
                        ctx.corr_disagreements += 1
                        ctx.violation("positive control: accounting of == and measured growth differ", case=case,
                                      expected={"model_growth": m[0]}, observed=observed, model=m, stream="control",
                                      no_failing_input=True)
                continue
            ctx.case((op, fam_key if fam_key != "random" else fam, build),
                     sample={"operation": op, "family": fam, "build": build, "call_depth": ds, "beyond_limit": dp}
                     if op in ("decode", "doc_pickle_copy", "find_all_name_string", "smooth", "parse") and fam in ("chain_text", "chain") else None)
            ctx.count("op-kind:" + kind)
            ctx.count("family:" + fam_key)
            model_info = None if m is None else {"growth_repaired_accounting": m[0], "growth_unrepaired_accounting": m[1],
                                                 "depths": list(MODEL_D)}
            BUILD = "(while building the tree by parsing)"
            build_failed = any(isinstance(x, str) and BUILD in x for x in ds + dp)
            if (not ok_growth or not ok_deep) and build_failed and parse_flagged.get(fam):
                # the document could not even be parsed: that is the parse operation's violation (already recorded for this
                # family), not this operation's
                ctx.count("tree-could-not-be-parsed(see the parse violation of the family)")
                continue
            if not ok_growth or not ok_deep:
                if kind == "markup":
                    parse_flagged[fam] = True
                what = ("the invariant the parse bound rests on (side stacks = tag stack filtered by name) does not hold in the running parser"
                        if any(isinstance(x, str) and "C11-invariant" in x for x in ds + dp) else
                        "parser state leaks out of the parse: a tree object survives in the state handed to pickle"
                        if any(isinstance(x, str) and "C11-state" in x for x in ds + dp) else
                        "the PARSE that builds the tree for this operation fails" if build_failed else
                        "call depth grows with the nesting" if ints and not ok_growth else
                        "RecursionError/failure while measuring" if not ints else "RecursionError beyond the recursion limit")
                i = depths.index(MODEL_D[0])
                if m is not None and isinstance(ds[i], int) and isinstance(ds[i + 1], int) and m[1] > GROWTH_MAX:
                    if abs((ds[i + 1] - ds[i]) - m[1]) <= GROWTH_MAX:
                        what += " (growth equals the UNREPAIRED accounting's)"
                ctx.violation(what, case=case, expected="growth <= %d between depths, no RecursionError beyond the limit" % GROWTH_MAX,
                              observed=observed, model=model_info, stream="measure", kf=classify(op, fam))
                ctx.count("verdict:grows")
                continue
            ctx.count("verdict:flat")
            if m is None:
                ctx.count("model:no-such-op")
                continue
            i = depths.index(MODEL_D[0])
            meas = ds[i + 1] - ds[i]
            if abs(meas - m[0]) <= tol:
                ctx.count("model:agree")
                if m[1] > GROWTH_MAX:
                    ctx.count("model:unrepaired-accounting-would-grow")
            else:
                ctx.corr_disagreements += 1
                ctx.violation("accounting and interpreter disagree on the growth", case=case, expected=model_info,
                              observed=observed, model=model_info, stream="correspondence", no_failing_input=True)
    # at most 20 replay files are written: put one violation of every (defect class / operation) first
    seen = {}
    def rank(v):
        c = v.get("case") or {}
        op, fam = c.get("operation") or "", c.get("family") or ""
        k = classify(op, fam) or ("builderless" if fam == "builderless" else "parse" if op in MARKUP_OPS else "other")
        seen[k] = seen.get(k, 0) + 1
        seen[(k, op)] = seen.get((k, op), 0) + 1
        return (seen[(k, op)], seen[k])
    ranks = [rank(v) for v in ctx.violations]
    ctx.violations = [v for _, _, v in sorted(zip(ranks, range(len(ranks)), ctx.violations), key=lambda x: (x[0], x[1]))]
    ctx.extra["measurements"] = table
    if skipped:
        ctx.notes.append("operations that rejected a shape in the warm-up (recorded, not verdicts): " +
                         "; ".join("%s on %d families (%s)" % (op, len(v), v[0][1][:60]) for op, v in sorted(skipped.items())))
        never = [op for op, v in skipped.items() if len(v) >= len([f for f in fams if any(j[0] == op for j in jobs[f])])]
        if never:
            raise RuntimeError("operation(s) never ran on any family (harness defect): %s" % never)
    ctx.exhaustive_parts.append("every operation of the table x every shape family x {hand-linked, parsed} construction at depths %s and beyond the limit %s"
                                % (depths, deep_all))


def replay(path):
    v = json.load(open(path))
    c = v["case"]
    repo = os.environ.get("VERIF_REPO", "/repo")
    if not c.get("operation"):
        print(json.dumps(v, indent=1)[:3000])
        return 1
    records, crashes, hello = run_worker(repo, c["family"], [(c["operation"], c["build"], c["deep"])], c["depths"], c["deep"])
    print("bs4:", hello and hello["bs4"])
    bad = bool(crashes)
    for cr in crashes:
        print("CRASH", cr)
    for rec in records:
        ds = [rec["depths"].get(str(n)) for n in c["depths"]]
        dp = [rec["deep"].get(str(n)) for n in c["deep"]]
        if isinstance(rec.get("warm"), str):
            print("warm-up on depth %d: %s" % (WARM_DEPTH, rec["warm"]))
        print("operation %s on family %s (%s): call depth at %s = %s; beyond the limit %s = %s" %
              (c["operation"], c["family"], c["build"], c["depths"], ds, c["deep"], dp))
        if rec.get("tb"):
            print("\n".join(rec["tb"]))
        ints = all(isinstance(x, int) for x in ds)
        if not ints or any(b - a > GROWTH_MAX for a, b in zip(ds, ds[1:])) or any(x != "ok" for x in dp):
            bad = True
    print("property demands: growth <= %d between depths and no RecursionError beyond the limit ->" % GROWTH_MAX,
          "VIOLATED" if bad else "holds")
    return 1 if bad else 0
