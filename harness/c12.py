"""C12 — copies and pickles are equal, detached and independent; equality is structural.

Real `copy.copy` / `copy.deepcopy` / `__copy__` on every element of parsed (html.parser, several builder configurations),
API-built and edited trees, checked directly against the property statement (equal, renders identically, classes /
attributes / settings kept, detached with consistent pointers, no mutable object in common with the original's whole
document, single edits on either side never visible on the other) and against the Lean code-mirror `copyImpl`, the Lean
recursion `copySpec`, `eqImpl` and `applyEdit` through the line protocol (object identities are numbered in pre-order)."""
import copy
import itertools
import json
import pickle
import sys
from pathlib import Path

from .common import Ctx, Driver, CORPUS

MANIFEST = dict(
    text=("Lean theorems over trees whose nodes, attribute dicts and attribute value lists carry object identities (attribute keys: str "
          "or NamespacedAttribute; values: str of any class incl. Charset/ContentMetaAttributeValue, lists of any class, int/bool/None; "
          "dict classes AttributeDict/HTMLAttributeDict/XMLAttributeDict with their __setitem__ processing), for all trees, receivers, "
          "contexts and allocator states: the event-stream/tag-stack loop of Tag.__deepcopy__ never underflows and returns exactly the "
          "pre-order recursion (copy_refines, copy_soup_refines, copy_root_is_copy_self); erasing identities the copy is the original: "
          "names, prefixes, namespaces, attributes in order with key kinds, value classes and the dict class, string classes, every "
          "setting incl. hidden/sourceline/sourcepos/_is_xml (copy_same_shape, copy_renders_identically, copy_soup_same_shape) under "
          "the hypothesis that every dict holds values its own class stores unchanged — proved for plain dicts, for strings/lists in "
          "any dict, and for anything stored through __setitem__ (settled_of_plain_dict, settled_of_str_list, setitem_idempotent with "
          "its one exception witnessed); the repaired copy_self against the 4.13.0 one (old_copy_self_coerces, new_copy_self_keeps, "
          "old_new_agree); the copy's identities are exactly the next unused ones, each once (copy_ids_exact, copy_fresh), hence disjoint "
          "from every existing tree and its root is in no contents list (copy_disjoint, copy_detached); frame lemma for in-place "
          "mutations and whole histories of them, independence in both directions (edit_frame, edits_frame, copy_independent, "
          "copy_independent_history); the mirror of Tag.__eq__ decides the structural relation 'same name, same attribute map, pairwise "
          "equal children, strings by text' (eq_iff_structural, eqSpec_tag/str/tag_str, canonL_eq_iff), is reflexive/symmetric/transitive "
          "and blind to identities, position, classes, prefix, settings (eq_refl/symm/trans, ne_iff_not_eq, eq_depends_on_canon_only), "
          "attribute order is irrelevant for == and for hash (attr_order_irrelevant, hash_attr_order_irrelevant); equal trees have equally "
          "many nodes, so == never identifies a tag with one of its descendants and _event_stream's structural parent test pops like the "
          "identity test (eq_same_size, eq_never_confuses_ancestor_and_descendant); a copy equals its original and everything the "
          "original equals, and hashes like it under every identity-blind renderer (copy_eq, copy_eq_class, copy_hash); == implies equal "
          "hashes exactly when the trees also agree in what == ignores (eq_hash_consistent; hash_is_not_a_function_of_eq is the witness "
          "that it does not in general); BeautifulSoup.copy_self's document-level fields (soup_copy_info/idempotent/exact, "
          "soup_pickle_info); pickling as a state machine: every generation is feed(decode(current tree)) whatever markup the object "
          "still holds (pickle_generation, pickle_edit_pickle); the model's reading of Tag.copy_self / Tag.__init__ / "
          "BeautifulSoup.copy_self / __getstate__ / __setstate__ is pinned to the behaviour observed on probe objects (spy subclasses "
          "recording the bound arguments of __init__ / decode / reset / _feed, one sentinel per parameter; not source text) by generated "
          "tables compared in full (copy_self_observed, copy_self_forwards_every_param, soup_copy_self_observed, pickle_observed). "
          "Tie: every element of "
          "generated/parsed/edited trees x copy.copy/deepcopy/__copy__/copy_self() against the property oracle and the Lean mirror + "
          "recursion (identity numbering), _event_stream against the recursive event list, __setitem__ of the three dict classes against "
          "coerce, single edits on copy resp. original with full re-inspection of the other side (and against applyEdit); histories "
          "observe-edit-observe with never-observed twins and copies after edits (exposes per-object caches); == / != / hash on all pairs "
          "of pools of near-identical trees (22 kinds of variant) against an independent structural evaluator and eqImpl; exhaustive small "
          "trees with repeated identical sub-structure; document-level fields of copied/pickled BeautifulSoup objects; pickle round trips "
          "and pickle/edit/copy histories of documents, tags and strings against decode()+re-parse of the current tree; the probe "
          "objects behind the generated tables, read as inputs of the property (stream probes: what the clone / the state must hold)."),
    design="7/C12",
    note=("Pickling: the Lean statement is generic in decode/feed (what feed(decode(t)) is, is C05); that unpickled objects are new "
          "objects, and Tag/NavigableString pickling (default pickling of the linked structure, recursion-bound, small documents only) are "
          "checked on real objects only. That _event_stream yields the balanced event list of the tree rests on C01/C02's chain invariant "
          "and is compared on every case. Builder-level setting objects (cdata_list_attributes, preserve_whitespace_tags, "
          "interesting_string_types, _namespaces) and the TreeBuilder of a BeautifulSoup are shared between copy and original by design "
          "and not counted as mutable state of the tree. A copy does not keep parser_class and attribute_value_list_class; a copied "
          "BeautifulSoup does not keep parse_only, element_classes, declared_html_encoding, contains_replacement_characters (recorded, "
          "modelled, compared; nothing compares or renders them). Attributes set on the BeautifulSoup object itself are outside the "
          "quantifier (documented as having none). float attribute values are checked by the oracle only (the model has int/bool/None). "
          "Values put into an HTML/XMLAttributeDict behind its back (dict.update) are processed by the copy: modelled and compared, outside "
          "the property. Repaired defect: C12-copy-coerces-nonstring-attr (copy_self re-processed the values of a plain dict)."),
    technique="Lean 4 refinement proof (stack machine = recursion), freshness/frame lemmas, decision-procedure correctness for ==, hash consistency + differential correspondence + direct Python oracle",
)

STR_CLASSES = ["NavigableString", "PreformattedString", "CData", "ProcessingInstruction", "XMLProcessingInstruction",
               "Comment", "Declaration", "Doctype", "Stylesheet", "Script", "TemplateString", "RubyTextString",
               "RubyParenthesisString", "SubNS", "SubComment"]
LIST_CLASSES = ["AttributeValueList", "list", "MyAVL"]
DICT_CLASSES = ["AttributeDict", "HTMLAttributeDict", "XMLAttributeDict", "MyDict"]
STRVAL_CLASSES = ["str", "CharsetMetaAttributeValue", "ContentMetaAttributeValue", "SubStrVal"]

_E = {}


def E():
    """lazy bs4 namespace + the harness' own (module-level, hence picklable) subclasses"""
    if _E:
        return _E
    import bs4
    import bs4.element as el
    _E["bs4"] = bs4
    _E["el"] = el
    _E["BeautifulSoup"] = bs4.BeautifulSoup
    _E["Tag"] = el.Tag
    _E["NS"] = el.NavigableString

    def mk(name, base):
        c = type(name, (base,), {})
        c.__module__ = __name__
        c.__qualname__ = name
        globals()[name] = c
        return c
    cls = {n: getattr(el, n) for n in STR_CLASSES if hasattr(el, n)}
    cls["SubNS"] = mk("SubNS", el.NavigableString)
    cls["SubComment"] = mk("SubComment", el.Comment)
    _E["cls"] = cls
    _E["strcode"] = {cls[n]: i for i, n in enumerate(STR_CLASSES)}
    lc = {"AttributeValueList": el.AttributeValueList, "list": list, "MyAVL": mk("MyAVL", el.AttributeValueList)}
    _E["lcls"] = lc
    _E["listcode"] = {lc[n]: i for i, n in enumerate(LIST_CLASSES)}
    dc = {"AttributeDict": el.AttributeDict, "HTMLAttributeDict": el.HTMLAttributeDict,
          "XMLAttributeDict": el.XMLAttributeDict, "MyDict": mk("MyDict", el.AttributeDict)}
    _E["dcls"] = dc
    _E["dictcode"] = {dc[n]: i for i, n in enumerate(DICT_CLASSES)}
    sv = {"str": str, "CharsetMetaAttributeValue": el.CharsetMetaAttributeValue,
          "ContentMetaAttributeValue": el.ContentMetaAttributeValue, "SubStrVal": mk("SubStrVal", str)}
    _E["svcls"] = sv
    _E["svcode"] = {sv[n]: i for i, n in enumerate(STRVAL_CLASSES)}
    _E["SubSoup"] = mk("SubSoup", bs4.BeautifulSoup)
    _E["MyTag"] = mk("MyTag", el.Tag)
    _E["parsercode"] = {bs4.BeautifulSoup: 0, _E["SubSoup"]: 1}
    return _E


def is_tag(n):
    return isinstance(n, E()["Tag"])


def is_soup(n):
    return isinstance(n, E()["BeautifulSoup"])


def raw(s) -> str:
    return str.__str__(s)


def ptok(s: str) -> str:
    return ",".join(str(ord(c)) for c in s) if s else "e"


# --------------------------------------------------------------------------------------
# builder configurations
# --------------------------------------------------------------------------------------
CONFIGS = ["default", "default", "default", "no-multi", "custom-avl", "multi-data", "pw-p", "sc-b", "no-lines", "empty-p",
           "mydict"]


def config_kwargs(name):
    e = E()
    if name == "default":
        return {}
    if name == "no-multi":
        return {"multi_valued_attributes": None}
    if name == "custom-avl":
        return {"attribute_value_list_class": e["lcls"]["MyAVL"]}
    if name == "multi-data":
        return {"multi_valued_attributes": {"*": {"class", "data-x"}, "a": {"rel"}}}
    if name == "pw-p":
        return {"preserve_whitespace_tags": {"p", "pre"}}
    if name == "sc-b":
        return {"string_containers": {"b": e["cls"]["SubNS"], "script": e["cls"]["Script"]}}
    if name == "no-lines":
        return {"store_line_numbers": False}
    if name == "empty-p":
        return {"empty_element_tags": {"p", "br", "x-e"}}
    if name == "mydict":
        return {"attribute_dict_class": e["dcls"]["MyDict"]}
    raise KeyError(name)


# --------------------------------------------------------------------------------------
# markup generation
# --------------------------------------------------------------------------------------
TAGS = ["div", "p", "b", "i", "span", "a", "ul", "li", "section", "em", "pre", "td", "x-e"]
VOID = ["br", "img", "hr", "input"]
ATTR_POOL = ["id", "class", "href", "data-x", "rel", "headers", "xml:lang", "xlink:href", "title", "accesskey", "k"]
VALS = ["v", "a b", " a  b ", "", "x&amp;y", "é", "q\"q", "1", "a b c"]


def gen_markup(r, big=False):
    label = [0]

    def text():
        label[0] += 1
        return r.choice(["t%d", " t%d ", "a &amp; b%d", "\n  x%d\n", "é%d", "&lt;%d", "s%d"]) % label[0]

    def attrs():
        out = []
        for nm in r.sample(ATTR_POOL, r.choice((0, 0, 1, 1, 2, 3, 4))):
            if r.random() < 0.08:
                out.append(f" {nm}")
            else:
                out.append(f' {nm}="{r.choice(VALS)}"'.replace('q"q', "q&quot;q"))
        return "".join(out)

    def special():
        label[0] += 1
        k = r.randrange(5)
        if k == 0:
            return f"<!--c{label[0]}-->"
        if k == 1:
            return f"<![CDATA[d{label[0]}]]>"
        if k == 2:
            return f"<?pi{label[0]} x?>"
        if k == 3:
            return f"<![if x{label[0]}]>"
        return f"<!-- -->"

    def items(depth, budget):
        out = []
        last_text = False
        n = r.choice((0, 1, 2, 2, 3, 4)) if depth else r.randint(2, 6)
        for _ in range(n):
            if budget[0] <= 0:
                break
            budget[0] -= 1
            k = r.random()
            if k < 0.28 and not last_text:
                out.append(text())
                last_text = True
            elif k < 0.38:
                out.append(special())
                last_text = False
            elif k < 0.48:
                out.append(f"<{r.choice(VOID)}{attrs()}{r.choice(['', '/'])}>")
                last_text = False
            elif k < 0.50:
                out.append(r.choice(['<meta charset="utf8">', '<meta http-equiv="Content-type" content="text/html; charset=ISO-8859-1">',
                                     '<meta content="x; charset=koi8-r" name="n">']))
                last_text = False
            elif k < 0.55:
                nm = r.choice(["script", "style"])
                out.append(f"<{nm}{attrs()}>{'x<y' if r.random() < 0.7 else ''}</{nm}>")
                last_text = False
            elif depth < 4:
                nm = r.choice(TAGS)
                out.append(f"<{nm}{attrs()}>{items(depth + 1, budget)}</{nm}>")
                last_text = False
        return "".join(out)

    pre = "<!DOCTYPE html>" if r.random() < 0.15 else ""
    return pre + items(0, [r.randint(20, 45) if big else r.randint(4, 18)])


# --------------------------------------------------------------------------------------
# trees: recipe = markup + builder configuration + replayable operations
# --------------------------------------------------------------------------------------
def all_nodes(root):
    """the forest by recursion over .contents (never the next_element chain)"""
    out = []

    def rec(n):
        out.append(n)
        if is_tag(n):
            for k in n.contents:
                rec(k)
    rec(root)
    return out


SETTING_OBJS = {
    "cdata": [None, {"*": {"class"}}, {"*": {"class", "k"}, "a": {"rel"}}],
    "pw": [None, {"pre"}, {"p", "a"}],
    "ist": [None, ("NavigableString", "CData"), ("Comment",), ("SubNS", "NavigableString")],
    "nsmap": [None, {"px": "http://ns/1"}, {"xlink": "http://www.w3.org/1999/xlink", "": "http://d"}],
}
_SETTING_CACHE = {}


def setting_obj(kind, i):
    """the same object for the same (kind, index): tags built with the same index share it, as tags of one builder do"""
    if (kind, i) not in _SETTING_CACHE:
        v = SETTING_OBJS[kind][i]
        if kind == "ist" and v is not None:
            v = {E()["cls"][n] for n in v}
        elif v is not None:
            v = copy.deepcopy(v)
        _SETTING_CACHE[(kind, i)] = v
    return _SETTING_CACHE[(kind, i)]


def make_value(vd):
    """['s', text] | ['l', list class name, [items]] | ['sc', str class name, text] | ['i', int] | ['b', bool] | ['n'] | ['f', float]"""
    if vd[0] == "s":
        return vd[1]
    if vd[0] == "sc":
        return E()["svcls"][vd[1]](vd[2])
    if vd[0] in ("i", "b", "f"):
        return vd[1]
    if vd[0] == "n":
        return None
    return E()["lcls"][vd[1]](vd[2])


def make_key(kd):
    """text | ['ns', prefix, name, namespace]"""
    if isinstance(kd, str):
        return kd
    return E()["el"].NamespacedAttribute(kd[1], kd[2], kd[3])


def make_bare_tag(d):
    """Tag(builder=None, ...) with explicit settings. d: name, cbe, cdata, pw, ist, nsmap (indices), sl, sp, xml, prefix, ns, attrs"""
    attrs = None
    if d.get("attrs") is not None:
        attrs = {make_key(k): make_value(v) for k, v in d["attrs"]}
    return E()["Tag"](None, None, d["name"], d.get("ns"), d.get("prefix"), attrs, is_xml=d.get("xml"),
                      sourceline=d.get("sl"), sourcepos=d.get("sp"), can_be_empty_element=d.get("cbe"),
                      cdata_list_attributes=setting_obj("cdata", d.get("cdata", 0)),
                      preserve_whitespace_tags=setting_obj("pw", d.get("pw", 0)),
                      interesting_string_types=setting_obj("ist", d.get("ist", 0)),
                      namespaces=setting_obj("nsmap", d.get("nsmap", 0)))


def rand_value(r, scalars=True):
    k = r.random()
    if scalars and k < 0.12:
        return r.choice([["i", 2], ["i", 0], ["i", -17], ["i", 10 ** 20], ["b", True], ["b", False], ["n"], ["i", 1]])
    if k < 0.2:
        return ["sc", r.choice(STRVAL_CLASSES[1:]), r.choice(["utf8", "text/html; charset=latin-1", "", "x y"])]
    if k < 0.55:
        return ["s", r.choice(["v", "", "a b", "é", "x&y", "<q>"])]
    return ["l", r.choice(LIST_CLASSES), r.choice([[], ["a"], ["a", "b"], ["b", "a"], ["x", "", "y"], ["é"]])]


def rand_key(r):
    k = r.random()
    if k < 0.8:
        return r.choice(["id", "class", "k", "data-x", "rel", "xml:lang", "z"])
    return ["ns", r.choice(["xlink", "xml", None]), r.choice(["href", "lang", None]), r.choice([None, "http://ns/x"])]


def rand_bare(r, label):
    d = {"name": r.choice(["a", "b", "div", "n%d" % label, "br", "pre"])}
    if r.random() < 0.6:
        d["cbe"] = r.choice([True, False, None])
    for kind in ("cdata", "pw", "ist", "nsmap"):
        if r.random() < 0.4:
            d[kind] = r.randrange(len(SETTING_OBJS[kind]))
    if r.random() < 0.4:
        d["sl"], d["sp"] = r.randint(1, 50), r.randint(0, 80)
    if r.random() < 0.35:
        d["xml"] = r.choice([True, False])
    if r.random() < 0.25:
        d["prefix"] = r.choice(["px", "svg", ""])
    if r.random() < 0.2:
        d["ns"] = "http://ns/1"
    if r.random() < 0.6:
        d["attrs"] = []
        seen = set()
        for _ in range(r.choice((1, 1, 2, 3))):
            k = rand_key(r)
            ks = str(make_key(k))
            if ks in seen:
                continue
            seen.add(ks)
            v = rand_value(r)
            if not isinstance(k, str) and k[2] is None and v[0] == "b":
                v = ["s", "v"]   # see apply_op/setattr: the one unsettled value an HTMLAttributeDict produces itself
            d["attrs"].append([k, v])
    return d


def apply_op(root, op, soup=None):
    """apply one replayable operation below `root` (node references = indices into all_nodes(root)).
    Returns False when not applicable. `soup` (optional) is used for new_tag."""
    e = E()
    nodes = all_nodes(root)
    kind = op[0]

    def node(i):
        return nodes[i % len(nodes)]

    def tagnode(i):
        ts = [n for n in nodes if is_tag(n)]
        return ts[i % len(ts)] if ts else None

    def inner(i):
        """a node strictly below root"""
        return nodes[1 + i % (len(nodes) - 1)] if len(nodes) > 1 else None

    def innertag(i):
        ts = [n for n in nodes[1:] if is_tag(n)]
        return ts[i % len(ts)] if ts else None

    def below(a, b):
        """is b at or below a"""
        while b is not None:
            if b is a:
                return True
            b = b.parent
        return False

    def newtag(d):
        if isinstance(d, dict):
            return make_bare_tag(d)
        if soup is not None:
            return soup.new_tag(d)
        return e["Tag"](name=d)

    def newstr(clsname, text):
        return e["cls"][clsname](text)

    if kind == "newstr":
        _, ti, pos, clsname, text = op
        t = tagnode(ti)
        if t is None:
            return False
        t.insert(min(pos, len(t.contents)), newstr(clsname, text))
        return True
    if kind == "plainstr":
        _, ti, text = op
        t = tagnode(ti)
        if t is None:
            return False
        t.append(text)
        return True
    if kind == "newtag":
        _, ti, pos, d = op
        t = tagnode(ti)
        if t is None:
            return False
        t.insert(min(pos, len(t.contents)), newtag(d))
        return True
    if kind == "setattr":
        _, ti, k, v = op
        t = tagnode(ti)
        if t is None or is_soup(t):
            return False
        if not isinstance(k, str) and k[2] is None and v[0] == "b":
            return False    # HTMLAttributeDict turns True into key.name = None, a value it would itself refuse (unsettled)
        t[make_key(k)] = make_value(v)
        return True
    if kind == "delattr":
        _, ti, ki = op
        t = tagnode(ti)
        if t is None or not t.attrs:
            return False
        del t[list(t.attrs)[ki % len(t.attrs)]]
        return True
    if kind in ("list_append", "list_setitem", "list_clear"):
        _, ti, ki, item = op
        cands = [(t, k) for t in nodes if is_tag(t) for k, v in t.attrs.items() if isinstance(v, list)]
        if not cands:
            return False
        t, k = cands[(ti * 7 + ki) % len(cands)]
        if kind == "list_append":
            t[k].append(item)
        elif kind == "list_clear":
            del t[k][:]
        else:
            if not t[k]:
                return False
            t[k][0] = item
        return True
    if kind == "attrs_clear":
        t = tagnode(op[1])
        if t is None or not t.attrs:
            return False
        t.attrs.clear()
        return True
    if kind == "rename":
        t = tagnode(op[1])
        if t is None or is_soup(t):
            return False
        t.name = op[2]
        return True
    if kind == "setprefix":
        t = tagnode(op[1])
        if t is None or is_soup(t):
            return False
        t.prefix = op[2]
        return True
    if kind == "hidden":
        t = tagnode(op[1])
        if t is None or is_soup(t):
            return False
        t.hidden = not t.hidden
        return True
    if kind == "cbe":
        t = tagnode(op[1])
        if t is None or is_soup(t):
            return False
        t.can_be_empty_element = op[2]
        return True
    if kind == "move":
        _, ni, ti, pos = op
        n, t = inner(ni), tagnode(ti)
        if n is None or t is None or below(n, t):
            return False
        n.extract()
        t.insert(min(pos, len(t.contents)), n)
        return True
    if kind in ("extract", "decompose"):
        n = inner(op[1])
        if n is None:
            return False
        getattr(n, kind)()
        return True
    if kind == "clear":
        t = tagnode(op[1])
        if t is None:
            return False
        t.clear()
        return True
    if kind == "replace_with":
        _, ni, what = op
        n = inner(ni)
        if n is None:
            return False
        n.replace_with(newstr(what[1], what[2]) if what[0] == "str" else newtag(what[1]))
        return True
    if kind == "wrap":
        n = inner(op[1])
        if n is None:
            return False
        n.wrap(newtag(op[2]))
        return True
    if kind == "unwrap":
        t = innertag(op[1])
        if t is None:
            return False
        t.unwrap()
        return True
    if kind == "set_string":
        t = tagnode(op[1])
        if t is None:
            return False
        t.string = op[2]
        return True
    if kind == "smooth":
        t = tagnode(op[1])
        if t is None:
            return False
        t.append("sm1")
        t.append("sm2")
        t.smooth()
        return True
    if kind in ("insert_before", "insert_after"):
        n = inner(op[1])
        if n is None:
            return False
        getattr(n, kind)(newstr("NavigableString", op[2]))
        return True
    if kind == "extend":
        t = tagnode(op[1])
        if t is None:
            return False
        t.extend([newstr("Comment", op[2]), newtag("i")])
        return True
    if kind == "copyinsert":
        _, ni, ti, pos = op
        n, t = node(ni), tagnode(ti)
        if t is None or is_soup(n):
            return False
        t.insert(min(pos, len(t.contents)), copy.copy(n))
        return True
    raise ValueError(f"unknown op {op!r}")


def gen_build_op(r, label):
    """operations used to build edited trees (all element kinds, settings, attribute values)"""
    k = r.random()
    ti, ni, pos = r.randrange(64), r.randrange(64), r.randint(0, 4)
    if k < 0.16:
        return ["newstr", ti, pos, r.choice(STR_CLASSES), r.choice(["n%d" % label, " n%d " % label, "", "x<y&z"])]
    if k < 0.19:
        return ["plainstr", ti, "pl%d" % label]
    if k < 0.37:
        return ["newtag", ti, pos, rand_bare(r, label)]
    if k < 0.45:
        return ["newtag", ti, pos, r.choice(["a", "b", "br", "p", "script", "pre", "x-e"])]
    if k < 0.60:
        return ["setattr", ti, rand_key(r), rand_value(r)]
    if k < 0.63:
        return ["delattr", ti, r.randrange(8)]
    if k < 0.66:
        return ["list_append", ti, r.randrange(8), "z%d" % label]
    if k < 0.70:
        return ["hidden", ti]
    if k < 0.74:
        return ["cbe", ti, r.choice([True, False, None])]
    if k < 0.78:
        return ["rename", ti, r.choice(["a", "b", "q%d" % label])]
    if k < 0.81:
        return ["setprefix", ti, r.choice(["px", None, "svg"])]
    if k < 0.87:
        return ["move", ni, ti, pos]
    if k < 0.90:
        return ["extract", ni]
    if k < 0.93:
        return ["wrap", ni, r.choice(["div", rand_bare(r, label)])]
    if k < 0.95:
        return ["unwrap", ni]
    if k < 0.98:
        return ["copyinsert", ni, ti, pos]
    return ["replace_with", ni, ["str", r.choice(STR_CLASSES), "r%d" % label]]


EDIT_KINDS = ["newstr", "newtag", "newtag_bare", "setattr", "setattr_list", "delattr", "list_append", "list_setitem", "list_clear",
              "attrs_clear", "rename", "setprefix", "hidden", "cbe", "extract", "decompose", "clear", "replace_with",
              "replace_with_tag", "wrap", "unwrap", "set_string", "smooth", "insert_before", "insert_after", "extend", "move"]


def gen_edit(r, kind, label):
    """one single edit of the independence alphabet"""
    ti, ni, pos = r.randrange(64), r.randrange(64), r.randint(0, 3)
    if kind == "newstr":
        return ["newstr", ti, pos, r.choice(STR_CLASSES), "E%d" % label]
    if kind == "newtag":
        return ["newtag", ti, pos, "ins"]
    if kind == "newtag_bare":
        return ["newtag", ti, pos, rand_bare(r, label)]
    if kind == "setattr":
        return ["setattr", ti, r.choice(["id", "class", "k", "new%d" % label]), ["s", "E%d" % label]]
    if kind == "setattr_list":
        return ["setattr", ti, r.choice(["class", "k", "new%d" % label]), ["l", r.choice(LIST_CLASSES), ["E", "%d" % label]]]
    if kind == "delattr":
        return ["delattr", ti, r.randrange(8)]
    if kind in ("list_append", "list_setitem", "list_clear"):
        return [kind, ti, r.randrange(8), "E%d" % label]
    if kind == "attrs_clear":
        return ["attrs_clear", ti]
    if kind == "rename":
        return ["rename", ti, "ren%d" % label]
    if kind == "setprefix":
        return ["setprefix", ti, "pf%d" % label]
    if kind == "hidden":
        return ["hidden", ti]
    if kind == "cbe":
        return ["cbe", ti, r.choice([True, False])]
    if kind in ("extract", "decompose", "unwrap"):
        return [kind, ni]
    if kind == "clear":
        return ["clear", ti]
    if kind == "replace_with":
        return ["replace_with", ni, ["str", r.choice(STR_CLASSES), "E%d" % label]]
    if kind == "replace_with_tag":
        return ["replace_with", ni, ["tag", "rep"]]
    if kind == "wrap":
        return ["wrap", ni, "wr"]
    if kind == "set_string":
        return ["set_string", ti, "E%d" % label]
    if kind == "smooth":
        return ["smooth", ti]
    if kind in ("insert_before", "insert_after"):
        return [kind, ni, "E%d" % label]
    if kind == "extend":
        return ["extend", ti, "E%d" % label]
    if kind == "move":
        return ["move", ni, ti, pos]
    raise ValueError(kind)


def build(recipe):
    e = E()
    kw = config_kwargs(recipe.get("config", "default"))
    cls = e["SubSoup"] if recipe.get("subsoup") else e["BeautifulSoup"]
    markup = recipe["markup"]
    b = recipe.get("bytes")
    if b:
        # parsed from BYTES: original_encoding is the detector's name for the codec, not the spelling of the declaration
        import logging
        logging.getLogger("bs4.dammit").setLevel(logging.ERROR)
        markup = markup.encode(b["encoding"], "xmlcharrefreplace")
        if b.get("from_encoding"):
            kw = dict(kw, from_encoding=b["from_encoding"])
    soup = cls(markup, "html.parser", **kw)
    for op in recipe.get("ops", []):
        apply_op(soup, op, soup)
    return soup


def paths(root):
    out = []

    def rec(n, p):
        out.append((n, p))
        if is_tag(n):
            for i, k in enumerate(n.contents):
                rec(k, p + (i,))
    rec(root, ())
    return out


def node_at(root, path):
    n = root
    for i in path:
        n = n.contents[i]
    return n


# --------------------------------------------------------------------------------------
# canonical dumps
# --------------------------------------------------------------------------------------
class Unrepresentable(Exception):
    pass


_SK_CACHE = {}


def setting_key(v):
    """canonical *value* of a builder-level setting object (so a refactoring that copies these objects stays equal).
    Memoised per object: the harness never mutates these objects."""
    if v is None:
        return None
    if isinstance(v, (dict, set, frozenset)):
        hit = _SK_CACHE.get(id(v))
        if hit is not None and hit[0] is v and hit[2] == len(v):
            return hit[1]
        k = _setting_key(v)
        if len(_SK_CACHE) > 20000:
            _SK_CACHE.clear()
        _SK_CACHE[id(v)] = (v, k, len(v))
        return k
    return _setting_key(v)


def _setting_key(v):
    if isinstance(v, dict):
        return "D" + repr(sorted((repr(k), setting_key(x)) for k, x in v.items()))
    if isinstance(v, (set, frozenset, list, tuple)):
        return type(v).__name__[0] + repr(sorted(setting_key(x) for x in v))
    if isinstance(v, type):
        return "C" + v.__name__
    return "V" + repr(v)


class Reg:
    """object identities numbered in order of first visit; setting objects numbered by value"""

    def __init__(self):
        self.ids = {}
        self.keep = []
        self.next = 1
        self.settings = {}

    def oid(self, o):
        k = id(o)
        if k not in self.ids:
            self.ids[k] = self.next
            self.next += 1
            self.keep.append(o)
        return self.ids[k]

    def sid(self, v, empty_is_none=False):
        if v is None or (empty_is_none and not v):
            return "N"
        k = setting_key(v)
        if k not in self.settings:
            self.settings[k] = 900000 + len(self.settings)
        return str(self.settings[k])


def ob(v):
    if v is None:
        return "N"
    if v is True:
        return "1"
    if v is False:
        return "0"
    raise Unrepresentable(f"not None/bool: {v!r}")


def on(v):
    if v is None:
        return "N"
    if isinstance(v, int) and not isinstance(v, bool) and v >= 0:
        return str(v)
    raise Unrepresentable(f"not None/nat: {v!r}")


def val_tok(reg, v):
    e = E()
    if isinstance(v, list):
        if type(v) not in e["listcode"] or not all(isinstance(x, str) for x in v):
            raise Unrepresentable("list class / item")
        return f"l:{reg.oid(v)}:{e['listcode'][type(v)]}:" + "|".join(ptok(raw(x)) for x in v)
    if isinstance(v, str):
        c = e["svcode"].get(type(v))
        if c is None:
            raise Unrepresentable("str class of an attribute value")
        return f"s:{c}:" + ptok(raw(v))
    if v is None:
        return "n"
    if isinstance(v, bool):
        return "b:1" if v else "b:0"
    if isinstance(v, int):
        return f"i:{v}"
    raise Unrepresentable(f"attribute value {type(v).__name__}")


def key_tok(k):
    NA = E()["el"].NamespacedAttribute
    if type(k) is str:
        return ptok(k)
    if type(k) is NA:
        f = lambda x: "N" if x is None else ptok(x)
        return f"{ptok(raw(k))}~{f(k.prefix)}~{f(k.name)}~{f(k.namespace)}"
    raise Unrepresentable("attribute key class")


def tag_head(reg, t, nkids=None):
    e = E()
    i = reg.oid(t)
    if t.attrs:
        att = ";".join(f"{key_tok(k)}={val_tok(reg, v)}" for k, v in t.attrs.items())
    else:
        att = "-"
    st = ".".join([ob(t.can_be_empty_element), reg.sid(t.cdata_list_attributes), reg.sid(t.preserve_whitespace_tags),
                   reg.sid(t.interesting_string_types), ob(bool(t.hidden)), on(t.sourceline), on(t.sourcepos), ob(t.known_xml),
                   reg.sid(t._namespaces, True)])
    pc = "N" if t.parser_class is None else str(e["parsercode"].get(t.parser_class, 9))
    dc = e["dictcode"].get(type(t.attrs), 9)
    ac = e["listcode"].get(t.attribute_value_list_class, 9)
    pf = "N" if t.prefix is None else ptok(t.prefix)
    ns = "N" if t.namespace is None else ptok(t.namespace)
    return ["T", str(i), ptok(raw(t.name)), pf, ns, att, st, pc, str(dc), str(ac), str(len(t.contents) if nkids is None else nkids)]


def dump(reg, n):
    """protocol tokens of a tree; identities through `reg` (tag, then its value lists, then the children: pre-order)"""
    out = []

    def rec(n):
        if is_tag(n):
            out.extend(tag_head(reg, n))
            for k in n.contents:
                rec(k)
        else:
            c = E()["strcode"].get(type(n))
            if c is None:
                raise Unrepresentable(f"string class {type(n).__name__}")
            out.extend(["S", str(reg.oid(n)), str(c), ptok(raw(n))])
    rec(n)
    return " ".join(out)


def inh_of(n):
    """`_is_xml` of the parent, resp. what a parentless element falls back to: the `is_xml` attribute of a BeautifulSoup
    object, else False ("take a guess--BS is usually used on HTML markup", element.py; since 59fbf52 really the default)"""
    p = n.parent
    v = p._is_xml if p is not None else bool(vars(n).get("is_xml", False))
    return ob(v)


def nonstr_attr(n):
    """known-finding classifier: does the subtree hold an attribute value that is neither str nor list?"""
    for x in all_nodes(n):
        if is_tag(x):
            for v in x.attrs.values():
                if not isinstance(v, (str, list)):
                    return True
    return False


# --------------------------------------------------------------------------------------
# the oracle: the property statement on real objects
# --------------------------------------------------------------------------------------
def shape(n):
    """identity-free description of everything a copy has to keep"""
    if not is_tag(n):
        return ("S", type(n), raw(n))
    att = []
    for k, v in n.attrs.items():
        kk = (raw(k), getattr(k, "prefix", None), getattr(k, "name", None), getattr(k, "namespace", None))
        if isinstance(v, list):
            att.append((kk, "list", type(v), [(type(x), x) for x in v]))
        else:
            att.append((kk, "val", type(v), v if not isinstance(v, str) else raw(v)))
    return ("T", (type(n), type(n.attrs)), raw(n.name), n.prefix, n.namespace, att, n.can_be_empty_element, setting_key(n.cdata_list_attributes),
            setting_key(n.preserve_whitespace_tags), setting_key(n.interesting_string_types), bool(n.hidden), n.sourceline,
            n.sourcepos, n._is_xml, setting_key(n._namespaces or None), [shape(k) for k in n.contents])


def shape_diff(a, b, path="r"):
    """first difference of two shapes, readable"""
    if a[0] != b[0]:
        return f"{path}: kind {a[0]} vs {b[0]}"
    names = (["kind", "class", "text"] if a[0] == "S" else
             ["kind", "class (of the tag, of its attrs dict)", "name", "prefix", "namespace", "attrs", "can_be_empty_element", "cdata_list_attributes",
              "preserve_whitespace_tags", "interesting_string_types", "hidden", "sourceline", "sourcepos", "_is_xml", "_namespaces"])
    for i, nm in enumerate(names):
        if a[i] != b[i]:
            return f"{path}: {nm}: {a[i]!r} vs {b[i]!r}"
    if a[0] == "T":
        if len(a[-1]) != len(b[-1]):
            return f"{path}: {len(a[-1])} vs {len(b[-1])} children"
        for i, (x, y) in enumerate(zip(a[-1], b[-1])):
            d = shape_diff(x, y, f"{path}.{i}")
            if d:
                return d
    return None


def mutable_objects(n):
    """id -> description of every mutable object of a tree: elements, attrs dicts, contents lists, attribute value lists"""
    out = {}
    for x in all_nodes(n):
        out[id(x)] = f"{type(x).__name__} {raw(x)[:20] if not is_tag(x) else x.name}"
        if is_tag(x):
            out[id(x.attrs)] = f"attrs of <{x.name}>"
            out[id(x.contents)] = f"contents of <{x.name}>"
            for k, v in x.attrs.items():
                if isinstance(v, list):
                    out[id(v)] = f"value list {k} of <{x.name}>"
    return out


def pointer_errors(root, detached=True):
    """C01-style consistency of a tree by recursion over .contents; `detached`: the root has no parent/siblings/previous"""
    errs = []
    order = all_nodes(root)
    if detached:
        for a in ("parent", "next_sibling", "previous_sibling", "previous_element"):
            if getattr(root, a) is not None:
                errs.append(f"root.{a} is not None")
        if order[-1].next_element is not None:
            errs.append("last descendant's next_element is not None")
    # a parsed BeautifulSoup object stands outside the element chain (C01's caveat): its link to the first child may be absent
    loose_root = is_soup(root) and len(order) > 1 and root.next_element is None and order[1].previous_element is None
    for i, n in enumerate(order):
        if loose_root and i == 0:
            continue
        if i + 1 < len(order) and n.next_element is not order[i + 1]:
            errs.append(f"next_element of node {i}")
        if i > 0 and n.previous_element is not order[i - 1] and not (loose_root and i == 1):
            errs.append(f"previous_element of node {i}")
        if is_tag(n):
            for j, k in enumerate(n.contents):
                if k.parent is not n:
                    errs.append(f"parent of child {j} of node {i}")
                if k.previous_sibling is not (n.contents[j - 1] if j else None):
                    errs.append(f"previous_sibling of child {j} of node {i}")
                if k.next_sibling is not (n.contents[j + 1] if j + 1 < len(n.contents) else None):
                    errs.append(f"next_sibling of child {j} of node {i}")
    return errs[:4]


def renderings(n):
    if is_tag(n):
        return (n.decode(), n.decode(formatter="html"), n.prettify(), n.get_text("|"), str(n), n.decode(formatter=None))
    # a string renders without entity substitution while it sits in a <script>/<style> (Formatter.substitute looks at the
    # parent): that is context, not content — compare the context-free parts
    return (type(n).PREFIX + raw(n) + type(n).SUFFIX, n.output_ready(formatter=None), raw(n), n.get_text("|"))


OBS_TAG = ["hash", "decode()", "get_text", "_is_xml", "is_empty_element", ".string", "== itself", "prettify()"]
OBS_STR = ["hash", "text", "get_text", "_is_xml"]


def observe(root):
    """every observation the property speaks about, taken on every node at or below root. Taking it also fills whatever
    per-object cache an implementation may keep (hash, rendering, _is_xml, strings): observing, editing and observing again
    is what exposes a cache that is not invalidated."""
    out = []
    for n in all_nodes(root):
        if is_tag(n):
            st = n.string
            out.append((hash(n), n.decode(), n.get_text("|"), n._is_xml, bool(n.is_empty_element),
                        None if st is None else raw(st), n == n, n.prettify() if n is root or n.parent is root else None))
        else:
            out.append((hash(n), raw(n), n.get_text("|"), n._is_xml))
    return out


def observe_diff(a, b):
    """first difference of two observation lists, readable"""
    if len(a) != len(b):
        return f"{len(a)} vs {len(b)} nodes"
    for i, (x, y) in enumerate(zip(a, b)):
        if x != y:
            names = OBS_TAG if len(x) == len(OBS_TAG) else OBS_STR
            if len(x) != len(y):
                return f"node {i}: kind"
            j = [p != q for p, q in zip(x, y)].index(True)
            return f"node {i} (pre-order): {names[j]}: {x[j]!r} vs {y[j]!r}"
    return None


def full_dump(root):
    """everything observable of a tree, for before/after comparison: shape, renderings, identity partition, pointers"""
    reg = Reg()
    idents = []
    for x in all_nodes(root):
        idents.append(reg.oid(x))
        if is_tag(x):
            idents.append(reg.oid(x.attrs))
            idents.append(reg.oid(x.contents))
            for v in x.attrs.values():
                if isinstance(v, list):
                    idents.append(reg.oid(v))
    return (shape(root), renderings(root), idents, pointer_errors(root, detached=False), observe(root))


def do_copy(el, how):
    if how == "copy":
        return copy.copy(el)
    if how == "deepcopy":
        return copy.deepcopy(el)
    return el.__copy__()


def expected_events(tag):
    """the balanced event list by recursion over .contents (EMPTY written as START, END)"""
    out = []

    def rec(n):
        if is_tag(n):
            out.append("s" + ptok(raw(n.name)))
            for k in n.contents:
                rec(k)
            out.append("x")
        else:
            out.append("t" + ptok(raw(n)))
    for k in tag.contents:
        rec(k)
    return out


def real_events(tag):
    T = E()["Tag"]
    out = []
    for ev, x in tag._event_stream(tag.descendants):
        if ev is T.START_ELEMENT_EVENT:
            out.append("s" + ptok(raw(x.name)))
        elif ev is T.END_ELEMENT_EVENT:
            out.append("x")
        elif ev is T.EMPTY_ELEMENT_EVENT:
            out.extend(["s" + ptok(raw(x.name)), "x"])
        else:
            out.append("t" + ptok(raw(x)))
    return out


def norm_events(reply: str):
    out = []
    for t in ([] if reply == "-" else reply.split(" ")):
        if t.startswith("m"):
            out.extend(["s" + t[1:], "x"])
        else:
            out.append(t)
    return out


def oracle_copy(world, el, c):
    """-> list of (what, expected, observed) failures of the property statement for the copy c of el"""
    bad = []
    try:
        if not (c == el) or not (el == c) or (c != el) or (el != c):
            bad.append(("the copy does not compare equal to the original", "copy == original", f"{c == el}/{el == c}/{c != el}/{el != c}"))
    except RecursionError:
        raise
    except Exception as ex:
        bad.append(("comparing copy and original raised", "True", f"{type(ex).__name__}: {ex}"))
    if type(c) is not type(el):
        bad.append(("the copy has another class", type(el).__name__, type(c).__name__))
    ra, rb = renderings(el), renderings(c)
    if ra != rb:
        i = [x != y for x, y in zip(ra, rb)].index(True)
        bad.append(("the copy renders differently", ra[i], rb[i]))
    d = shape_diff(shape(el), shape(c))
    if d:
        bad.append(("the copy does not keep classes / attributes / settings", "same as original", d))
    pe = pointer_errors(c)
    if pe:
        bad.append(("the copy is not a detached, consistently linked tree", "no parent, consistent links", "; ".join(pe)))
    wm = mutable_objects(world)
    if world is not el and not any(x is el for x in all_nodes(world)):
        wm.update(mutable_objects(el))
    cm = mutable_objects(c)
    common = [cm[k] for k in cm if k in wm]
    if common:
        bad.append(("the copy shares a mutable object with the original's tree", "no common object", "; ".join(common[:3])))
    try:
        if hash(c) != hash(el):
            bad.append(("the copy hashes differently", hash(el), hash(c)))
    except RecursionError:
        raise
    except Exception as ex:
        bad.append(("hash raised", "a hash", f"{type(ex).__name__}: {ex}"))
    return bad


# --------------------------------------------------------------------------------------
# model questions
# --------------------------------------------------------------------------------------
class Batch:
    def __init__(self, ctx):
        self.ctx = ctx
        self.q = []   # (line, expected reply, case, what, stream, compare function or None)
        self.reported = 0

    def add(self, line, expected, case, what, stream, norm=None):
        self.q.append((line, expected, case, what, stream, norm))
        if len(self.q) >= 3000:
            self.flush()

    def flush(self):
        if not self.q:
            return
        ctx = self.ctx
        rep = Driver().ask([x[0] for x in self.q])
        for (line, expected, case, what, stream, norm), ans in zip(self.q, rep):
            ctx.count(f"{stream}:model-requests")
            got = norm(ans) if norm else ans
            if got != expected:
                ctx.corr_disagreements += 1
                ctx.count(f"{stream}:model-disagrees")
                if self.reported < 8:
                    self.reported += 1
                    real_fail = any(v["case"] == case and not v.get("no_failing_input_found") for v in ctx.violations)
                    if not real_fail:
                        ctx.violation(what, case=case | {"line": line[:4000]}, observed=str(expected)[:3000], model=str(got)[:3000],
                                      stream=stream + "-correspondence", no_failing_input=True)
        self.q = []


def first_diff(a: str, b: str):
    ta, tb = a.split(" "), b.split(" ")
    for i, (x, y) in enumerate(zip(ta, tb)):
        if x != y:
            return f"token {i}: {x} vs {y}"
    return f"length {len(ta)} vs {len(tb)}"


def check_receiver(ctx, batch, recipe, world, el, path, how, stream, tree_id, ri):
    """copy one element: oracle + model. Returns the copy (or None)."""
    case = {"op": "copy", "recipe": recipe, "path": list(path), "how": how}
    kf = None
    kind = "soup" if is_soup(el) else ("tag" if is_tag(el) else "str:" + type(el).__name__)
    ctx.count("receiver:" + kind)
    ctx.count("how:" + how)
    try:
        c = do_copy(el, how)
    except RecursionError:
        raise
    except Exception as ex:
        ctx.case(None)
        ctx.violation("copying raised", case=case, expected="a copy", observed=f"{type(ex).__name__}: {ex}", stream=stream, kf=kf)
        return None
    bad = oracle_copy(world, el, c)
    nodes = all_nodes(el)
    nontrivial = is_tag(el) and len(nodes) >= 3 and any(is_tag(x) and x.attrs for x in nodes)
    ctx.case((tree_id, ri) if nontrivial else None,
             {"markup": recipe["markup"][:200], "ops": len(recipe.get("ops", [])), "receiver": path, "how": how,
              "copy": c.decode()[:200] if is_tag(c) else raw(c)} if nontrivial and ri % 7 == 3 else None)
    if is_tag(el):
        ctx.count("tag:lists" if any(isinstance(v, list) for x in nodes if is_tag(x) for v in x.attrs.values()) else "tag:no-lists")
        for x in nodes:
            if is_tag(x):
                if x.hidden and not is_soup(x):
                    ctx.count("setting:hidden-inner")
                if x.known_xml is None:
                    ctx.count("setting:known_xml-None")
                elif x.known_xml:
                    ctx.count("setting:known_xml-True")
                if x.is_empty_element:
                    ctx.count("event:empty-element")
                if x.parser_class is None:
                    ctx.count("setting:bare-tag")
                if x.prefix:
                    ctx.count("setting:prefix")
    for what, exp, obs in bad:
        ctx.count(f"{stream}:oracle-fails")
        if sum(1 for v in ctx.violations if v["stream"] == stream) < 8 or kf:
            ctx.violation(what, case=case, expected=str(exp)[:2000], observed=str(obs)[:2000], stream=stream, kf=kf)
    # the event stream the model assumes
    if is_tag(el):
        ev_real, ev_exp = real_events(el), expected_events(el)
        if ev_real != ev_exp:
            ctx.violation("_event_stream(descendants) is not the balanced event list of the tree", case=case | {"op": "events"},
                          expected=" ".join(ev_exp)[:2000], observed=" ".join(ev_real)[:2000], stream=stream)
    # the model
    try:
        reg = Reg()
        wd = dump(reg, world)
        nxt = reg.next
        inside = any(x is el for x in all_nodes(world))
        if not inside:
            return c
        root_inh = inh_of(world)
        ptxt = ".".join(map(str, path)) if path else "r"
        cd = dump(reg, c)
        expected = f"{reg.next} {cd}"
        if is_soup(el):
            if path:
                return c
            f = type(el)("", None, el.builder)
            freg = Reg()
            freg.settings = reg.settings
            fh = " ".join(tag_head(freg, f, 0))
            batch.add(f"c12 soupcopy {root_inh} {nxt} {fh} {wd}", expected, case,
                      "Lean mirror of BeautifulSoup.__deepcopy__ and implementation disagree", stream)
        else:
            batch.add(f"c12 copy {root_inh} {nxt} {ptxt} {wd}", expected, case,
                      "Lean code-mirror copyImpl and implementation disagree", stream)
            batch.add(f"c12 copyspec {root_inh} {nxt} {ptxt} {wd}", expected, case,
                      "Lean recursion copySpec and implementation disagree", stream)
            if is_tag(el) and ri % 3 == 0:
                # the public first step on its own: a clone without contents
                reg2 = Reg()
                wd2 = dump(reg2, world)
                nxt2 = reg2.next
                c0 = el.copy_self()
                cd0 = dump(reg2, c0)
                ctx.count("copy_self:calls")
                if c0.contents or c0.parent is not None or c0.next_element is not None:
                    ctx.violation("copy_self() gives a clone that has contents or is attached", case=case | {"op": "copy_self"},
                                  expected="empty, detached", observed=c0.decode(), stream=stream)
                batch.add(f"c12 copyself {root_inh} {nxt2} {ptxt} {wd2}", f"{reg2.next} {cd0}", case | {"op": "copy_self"},
                          "Lean copySelf and Tag.copy_self() disagree", stream)
        if is_tag(el):
            batch.add(f"c12 events {root_inh} {ptxt} {wd}", ev_real, case | {"op": "events"},
                      "Lean event list and _event_stream disagree", stream, norm=norm_events)
    except Unrepresentable as ex:
        ctx.count("model:unrepresentable-" + str(ex).split(" ")[0])
    return c


# --------------------------------------------------------------------------------------
# independence
# --------------------------------------------------------------------------------------
MODEL_EDITS = {"setattr", "delattr", "list_append", "rename", "clear", "extract", "newstr"}


def model_edit_prepare(reg, target_root, other_root, op):
    """before a real edit below target_root: what the Lean `applyEdit` counterpart needs, or None"""
    nodes = all_nodes(target_root)
    kind = op[0]
    ts = [n for n in nodes if is_tag(n)]
    t = ts[op[1] % len(ts)] if ts else None
    prep = {"before": f"{dump(reg, target_root)} {dump(reg, other_root)}", "kind": kind, "tag": t}
    if kind in ("setattr", "rename"):
        if t is None or is_soup(t):
            return None
        if kind == "setattr":
            prep["key"] = make_key(op[2])
        return prep
    if kind == "delattr":
        if t is None or not t.attrs:
            return None
        prep["key"] = list(t.attrs)[op[2] % len(t.attrs)]
        return prep
    if kind == "list_append":
        cands = [(x, k) for x in nodes if is_tag(x) for k, v in x.attrs.items() if isinstance(v, list)]
        if not cands:
            return None
        x, k = cands[(op[1] * 7 + op[2]) % len(cands)]
        prep["lid"] = reg.oid(x[k])
        return prep
    if kind == "clear":
        return prep if t is not None else None
    if kind == "newstr":
        if t is None:
            return None
        prep["pos"] = min(op[2], len(t.contents))
        return prep
    if kind == "extract":
        if len(nodes) < 2:
            return None
        prep["node"] = reg.oid(nodes[1 + op[1] % (len(nodes) - 1)])
        return prep
    return None


def model_edit_line(reg, prep, op):
    """after the real edit: the protocol line (new objects have their identities now)"""
    kind, t = prep["kind"], prep["tag"]
    if kind == "setattr":
        vin = val_tok(reg, t[prep['key']]) if op[3][0] == "l" else val_tok(reg, make_value(op[3]))
        e = f"setattr {reg.oid(t)} {key_tok(prep['key'])} {vin}"
    elif kind == "delattr":
        e = f"delattr {reg.oid(t)} {ptok(raw(prep['key']))}"
    elif kind == "list_append":
        e = f"lappend {prep['lid']} {ptok(op[3])}"
    elif kind == "rename":
        e = f"setname {reg.oid(t)} {ptok(op[2])}"
    elif kind == "clear":
        e = f"clear {reg.oid(t)}"
    elif kind == "newstr":
        e = f"insert {reg.oid(t)} {prep['pos']} {dump(reg, t.contents[prep['pos']])}"
    elif kind == "extract":
        e = f"remove {prep['node']}"
    else:
        return None
    return f"c12 edit {e} {prep['before']}"


def check_edit(ctx, batch, recipe, path, how, side, op, stream, tree_id, primed=True):
    """one single edit on the copy (side='copy') or on the original (side='original') of a freshly built tree;
    the other side must not change in any observable respect.
    `primed`: every node of the document (the element, its descendants, its ancestors, the root) and of the copy is
    hashed / rendered / compared BEFORE the edit. Afterwards (a) the edited side must be indistinguishable from a twin that
    went through the same history without ever having been observed, and (b) fresh copies of the edited element, of its
    parent and of the root must again be equal, render alike and hash alike (history: hash, edit, copy)."""
    world = build(recipe)
    el = node_at(world, path)
    if primed:
        observe(world)
    c = do_copy(el, how)
    if primed:
        observe(c)
        c == el, el == c, hash(c) == hash(el)
    case = {"op": "edit", "recipe": recipe, "path": list(path), "how": how, "side": side, "edit": op, "primed": primed}
    kf = None
    target, other = (c, world) if side == "copy" else (el, c)
    before = full_dump(other)
    prep = None
    reg = None
    other_root = el if side == "copy" else c
    try:
        if op[0] in MODEL_EDITS and is_tag(target):
            reg = Reg()
            dump(reg, world)
            prep = model_edit_prepare(reg, target, other_root, op)
    except Unrepresentable:
        prep = None
    try:
        applied = apply_op(target, op, world if side == "original" else None)
    except RecursionError:
        raise
    except Exception as ex:
        ctx.count(f"edit-raised:{op[0]}:{type(ex).__name__}")
        applied = False
    ctx.count(f"edit:{side}:{op[0]}:{'applied' if applied else 'n/a'}")
    if not applied:
        return
    after = full_dump(other)
    ctx.case((tree_id, tuple(path), side, op[0]))
    if before != after:
        names = ["shape", "rendering", "object identities", "pointers", "hash / rendering / text of some node"]
        i = [x != y for x, y in zip(before, after)].index(True)
        detail = (shape_diff(before[0], after[0]) if i == 0 else observe_diff(before[4], after[4]) if i == 4
                  else f"{before[i]!r} -> {after[i]!r}")
        ctx.count(f"{stream}:oracle-fails")
        if sum(1 for v in ctx.violations if v["stream"] == stream) < 8:
            ctx.violation(f"editing the {side} changed the {'original' if side == 'copy' else 'copy'} ({names[i]})",
                          case=case, expected="unchanged", observed=str(detail)[:2000], stream=stream, kf=kf)
    if prep is not None:
        try:
            line = model_edit_line(reg, prep, op)
            expected = f"{dump(reg, target)} | {dump(reg, other_root)}"
            if line is not None:
                batch.add(line, expected, case, "Lean applyEdit and the real edit disagree", stream)
        except Unrepresentable:
            pass
    if not is_tag(target):
        return
    hstream = "histories"
    # == between the two sides after the edit: still the structural relation (they were compared before the edit)
    try:
        want = eq_spec(c, el)
        got = (c == el, el == c, not (c != el), not (el != c))
        if got != (want,) * 4:
            ctx.count(f"{hstream}:oracle-fails")
            if not capped(ctx, hstream):
                ctx.violation("after an edit, == between copy and original is not the structural relation", case=case | {"check": "eq-after-edit"},
                              expected=str(want), observed=str(got), stream=hstream, kf=kf)
    except RecursionError:
        raise
    ctx.count(f"history:{'observed-before-edit' if primed else 'never-observed'}:{side}")
    # (a) the same history on objects nobody has looked at yet
    world2 = build(recipe)
    el2 = node_at(world2, path)
    t2 = do_copy(el2, how) if side == "copy" else el2
    try:
        applied2 = apply_op(t2, op, world2 if side == "original" else None)
    except RecursionError:
        raise
    except Exception:
        applied2 = False
    if applied2:
        ra, rb = (c, t2) if side == "copy" else (world, world2)
        d = shape_diff(shape(ra), shape(rb))
        if d:
            ctx.count("history:twin-not-comparable")   # the harness' own replay differs: no verdict
        else:
            od = observe_diff(observe(ra), observe(rb))
            ctx.case(None)
            if od:
                ctx.count(f"{hstream}:oracle-fails")
                if not capped(ctx, hstream):
                    ctx.violation("after an edit, an object that had been hashed / rendered before the edit differs from a twin of "
                                  "identical shape that went through the same history unobserved" if primed else
                                  "two objects of identical shape and history are observed differently",
                                  case=case | {"check": "twin"}, expected="the same hash, renderings and text", observed=od[:2000],
                                  stream=hstream, kf=kf)
    # (b) hash / edit / copy: copies taken after the edit
    if side == "copy":
        subjects = [("the edited copy", c, c)]
    else:
        subjects = [("the edited element", el, world)]
        if el.parent is not None and el.parent is not world:
            subjects.append(("the parent of the edited element", el.parent, world))
        if el is not world:
            subjects.append(("the root of the edited document", world, world))
    for si, (label, x, w) in enumerate(subjects):
        for h2 in (("copy", "deepcopy") if primed and si == 0 else (how,)):
            try:
                cx = do_copy(x, h2)
            except RecursionError:
                raise
            except Exception as ex:
                ctx.violation("copying after an edit raised", case=case | {"check": "copy-after-edit"}, expected="a copy",
                              observed=f"{type(ex).__name__}: {ex}", stream=hstream, kf=kf)
                continue
            ctx.case(None)
            ctx.count("history:copy-after-edit")
            for what, exp, obs in oracle_copy(w, x, cx):
                ctx.count(f"{hstream}:oracle-fails")
                if not capped(ctx, hstream):
                    ctx.violation(f"history observe / edit / copy: {what} ({label}, {h2})", case=case | {"check": "copy-after-edit"},
                                  expected=str(exp)[:2000], observed=str(obs)[:2000], stream=hstream, kf=kf)


# --------------------------------------------------------------------------------------
# equality
# --------------------------------------------------------------------------------------
def eq_spec(a, b):
    """the property's structural relation, evaluated independently of Tag.__eq__ and of dict equality"""
    ta, tb = is_tag(a), is_tag(b)
    if ta != tb:
        return False
    if not ta:
        return raw(a) == raw(b)

    def amap(t):
        out = []
        for k, v in t.attrs.items():
            if isinstance(v, list):
                out.append((raw(k), "l", tuple(raw(x) for x in v)))
            elif isinstance(v, str):
                out.append((raw(k), "s", (raw(v),)))
            elif v is None:
                out.append((raw(k), "none", ()))
            else:
                out.append((raw(k), "num", (repr(v + 0),)))    # numbers compare as numbers: True == 1, 2 == 2.0 is not generated
        return sorted(out)
    if raw(a.name) != raw(b.name) or amap(a) != amap(b) or len(a.contents) != len(b.contents):
        return False
    return all(eq_spec(x, y) for x, y in zip(a.contents, b.contents))


def variant(r, base_recipe, k):
    """a near-identical tree: the base's recipe plus one small operation"""
    ti, ni = r.randrange(64), r.randrange(64)
    ops = {
        "rename": ["rename", ti, r.choice(["a", "zz"])],
        "attr-value": ["setattr", ti, r.choice(["id", "class", "k"]), rand_value(r)],
        "attr-del": ["delattr", ti, r.randrange(4)],
        "list-append": ["list_append", ti, r.randrange(4), "q"],
        "child-removed": ["extract", ni],
        "child-added": ["newstr", ti, r.randint(0, 3), "NavigableString", "add"],
        "tag-added": ["newtag", ti, r.randint(0, 3), "a"],
        "string-class": None,
        "string-text": None,
        "attr-order": None,
        "move": ["move", ni, ti, r.randint(0, 2)],
        "prefix": ["setprefix", ti, "px"],
        "namespace": None,
        "settings": None,
        "hidden": ["hidden", ti],
        "wrap": ["wrap", ni, "div"],
        "list-class": None,
        "str-vs-list": None,
        "tag-class": None,
        "name-case": None,
        "attr-key-case": None,
        "attr-value-space": None,
        "string-unicode": None,
        "attr-scalar": None,
        "renest": None,
        "attr-key-rename": None,
        "attr-key-replace": None,
        "attr-edge-value": None,
    }
    return k, ops[k]


def apply_variant(r, root, k, op):
    """apply variant k below root (special variants implemented here)"""
    e = E()
    nodes = all_nodes(root)
    if op is not None:
        return apply_op(root, op, None)
    strs = [n for n in nodes[1:] if not is_tag(n)]
    tags = [n for n in nodes if is_tag(n) and not is_soup(n)]
    if k == "string-class":
        if not strs:
            return False
        s = r.choice(strs)
        others = [c for c in ("NavigableString", "Comment", "CData", "SubNS") if e["cls"][c] is not type(s)]
        s.replace_with(e["cls"][r.choice(others)](raw(s)))
        return True
    if k == "string-text":
        if not strs:
            return False
        s = r.choice(strs)
        s.replace_with(type(s)(raw(s) + "!"))
        return True
    if k == "attr-order":
        ts = [t for t in tags if len(t.attrs) >= 2]
        if not ts:
            return False
        t = r.choice(ts)
        items = list(t.attrs.items())
        t.attrs.clear()
        for kk, vv in reversed(items):
            dict.__setitem__(t.attrs, kk, vv)
        return True
    if k == "list-class":
        ts = [(t, kk) for t in tags for kk, vv in t.attrs.items() if isinstance(vv, list)]
        if not ts:
            return False
        t, kk = r.choice(ts)
        cur = type(t.attrs[kk])
        other = [c for c in e["lcls"].values() if c is not cur][0]
        dict.__setitem__(t.attrs, kk, other(t.attrs[kk]))
        return True
    if k == "str-vs-list":
        ts = [(t, kk) for t in tags for kk, vv in t.attrs.items()]
        if not ts:
            return False
        t, kk = r.choice(ts)
        v = t.attrs[kk]
        dict.__setitem__(t.attrs, kk, " ".join(v) if isinstance(v, list) else e["el"].AttributeValueList([raw(v)]))
        return True
    if k == "namespace":
        # == does not look at the XML namespace: an SVG <a> and an HTML <a> with the same name, attributes and children are equal
        t = r.choice(tags)
        t.namespace = r.choice([x for x in (None, "http://www.w3.org/2000/svg", "http://ns/1", "") if x != t.namespace])
        if r.random() < 0.5:
            t.prefix = r.choice([None, "svg"])
        return True
    if k == "settings":
        # nor at any setting
        t = r.choice(tags)
        which = r.randrange(6)
        if which == 0:
            t.can_be_empty_element = not t.can_be_empty_element
        elif which == 1:
            t.sourceline, t.sourcepos = 999, 998
        elif which == 2:
            t.known_xml = not t._is_xml
        elif which == 3:
            t.preserve_whitespace_tags = {t.name}
        elif which == 4:
            t.interesting_string_types = {e["cls"]["Comment"]}
        else:
            t.cdata_list_attributes = {"*": {"id"}}
        return True
    if k == "tag-class":
        # the same tag as an instance of a Tag subclass: the class is not part of the relation
        ts = [t for t in tags if t is not root and type(t) is e["Tag"]]
        if not ts:
            return False
        t = r.choice(ts)
        m = e["MyTag"](None, None, t.name, t.namespace, t.prefix, None)
        for kk, vv in t.attrs.items():
            dict.__setitem__(m.attrs, kk, vv)
        t.replace_with(m)
        for kid in list(t.contents):
            m.append(kid.extract())
        return True
    if k == "name-case":
        t = r.choice(tags)
        if t.name == t.name.upper():
            return False
        t.name = t.name.upper()
        return True
    if k == "attr-key-case":
        ts = [(t, kk) for t in tags for kk in t.attrs if type(kk) is str and kk != kk.upper()]
        if not ts:
            return False
        t, kk = r.choice(ts)
        items = [(a.upper() if a is kk else a, b) for a, b in t.attrs.items()]
        if len({raw(a) for a, _ in items}) != len(items):
            return False
        t.attrs.clear()
        for a, b in items:
            dict.__setitem__(t.attrs, a, b)
        return True
    if k == "attr-value-space":
        ts = [(t, kk) for t in tags for kk, vv in t.attrs.items() if type(vv) is str]
        if not ts:
            return False
        t, kk = r.choice(ts)
        dict.__setitem__(t.attrs, kk, t.attrs[kk] + r.choice([" ", "\u00a0", "\n"]))
        return True
    if k == "string-unicode":
        if not strs:
            return False
        s_ = r.choice(strs)
        s_.replace_with(type(s_)(raw(s_) + r.choice(["\U0001f600", "\ud800", "\x00", "e\u0301", "\u00e9", "\u212b", "\u00c5"])))
        return True
    if k == "renest":
        # the same elements in the same document order, nested differently below the top level: an element moves to the end of
        # its previous sibling tag, or the last child of a tag moves out to just after it (a close tag shifted)
        down = [t for t in nodes[1:] if t.parent is not root and is_tag(t.previous_sibling) and not t.previous_sibling.is_empty_element]
        up = [t for t in nodes[1:] if is_tag(t) and t.parent is not None and t.parent is not root and t.contents]
        if not down and not up:
            down = [t for t in nodes[1:] if is_tag(t.previous_sibling)]
            if not down:
                return False
        if down and (not up or r.random() < 0.6):
            t = r.choice(down)
            t.previous_sibling.append(t.extract())
        else:
            t = r.choice(up)
            t.insert_after(t.contents[-1].extract())
        return True
    if k in ("attr-key-rename", "attr-key-replace", "attr-edge-value"):
        # same NUMBER of attributes, exactly one key missing / one value exchanged between the "empty-looking" legal values
        edge = lambda v: v is None or v is False or v == 0 or v == "" or v == []
        ts = [(t, kk) for t in tags for kk in t.attrs]
        if not ts:
            return False
        pref = [(t, kk) for t, kk in ts if edge(t.attrs[kk])]
        t, kk = r.choice(pref) if pref and r.random() < 0.8 else r.choice(ts)
        items = list(t.attrs.items())
        fresh = next(n_ for n_ in ("readonly", "title", "zz9", "zz8") if n_ not in t.attrs)
        if k == "attr-key-rename":
            new = [(fresh if a is kk else a, b) for a, b in items]
        elif k == "attr-key-replace":
            new = [((fresh, r.choice(["x", "", None, ["x"]])) if a is kk else (a, b)) for a, b in items]
        else:
            cur = t.attrs[kk]
            new = [((a, r.choice([v for v in (None, "", False, 0, [], "None", "False") if type(v) is not type(cur) or v != cur])) if a is kk
                    else (a, b)) for a, b in items]
        t.attrs.clear()
        for a, b in new:
            dict.__setitem__(t.attrs, a, b)
        return True
    if k == "attr-scalar":
        ts = [t for t in tags if type(t.attrs) is e["el"].AttributeDict]
        if not ts:
            return False
        t = r.choice(ts)
        dict.__setitem__(t.attrs, "sc", r.choice([1, True, 2, None, "1", "True", 0, False, ["1"]]))
        return True
    raise ValueError(k)


VARIANTS = ["renest", "attr-key-rename", "attr-key-replace", "attr-edge-value", "namespace", "settings", "tag-class", "name-case", "attr-key-case", "attr-value-space", "string-unicode", "attr-scalar", "rename", "attr-value", "attr-del", "list-append", "child-removed", "child-added", "tag-added", "string-class",
            "string-text", "attr-order", "move", "prefix", "hidden", "wrap", "list-class", "str-vs-list"]


def build_pool(recipe, pool_desc, seed_tuple):
    """-> list of (label, element). Deterministic for a given description."""
    from .common import rng_for
    e = E()
    base_world = build(recipe)
    cands = [n for n in all_nodes(base_world) if is_tag(n) and not is_soup(n)]
    pool = []
    keep = [base_world]
    if not cands:
        return pool, keep
    base = cands[pool_desc["base"] % len(cands)]
    # legal edge values on the base itself, set through the public API: the value-less attribute (None), False, 0, "", []
    for kk, vd in pool_desc.get("base_attrs", []):
        if not (kk in base.attrs):
            base[kk] = make_value(vd)
    w2_attrs = pool_desc.get("base_attrs", [])
    observe(base_world)     # everything has been hashed / rendered / compared before any variant is derived
    pool.append(("base", base))
    pool.append(("copy", copy.copy(base)))
    # the same markup parsed again: an equal tag living in another document
    w2 = build(recipe)
    keep.append(w2)
    c2 = [n for n in all_nodes(w2) if is_tag(n) and not is_soup(n)]
    twin = c2[pool_desc["base"] % len(c2)]
    for kk, vd in w2_attrs:
        if not (kk in twin.attrs):
            twin[kk] = make_value(vd)
    pool.append(("other-document", twin))
    # ... and nested at another position of a third document
    host = e["BeautifulSoup"]("<section><div><p>host</p></div></section>", "html.parser")
    keep.append(host)
    emb = copy.copy(base)
    host.p.append(emb)
    pool.append(("embedded", emb))
    # the same tag made through soup.new_tag(name, namespace=..., nsprefix=...): equal to the base whatever the namespace
    for ns, pfx in (("http://www.w3.org/2000/svg", "svg"), (None, None)):
        nt = host.new_tag(raw(base.name), namespace=ns, nsprefix=pfx)
        for kk, vv in base.attrs.items():
            dict.__setitem__(nt.attrs, kk, vv.__class__(vv) if isinstance(vv, list) else vv)
        for kid in copy.copy(base).contents[:]:
            nt.append(kid.extract())
        pool.append((f"new_tag-namespace-{'svg' if ns else 'none'}", nt))
    for i, (k, op) in enumerate(pool_desc["variants"]):
        r = rng_for(*seed_tuple, "variant", i)
        v = copy.copy(base)
        observe(v)
        v == base, base == v
        try:
            ok = apply_variant(r, v, k, op)
        except Exception:
            ok = False
        if ok:
            if r.random() < 0.3:
                h = e["BeautifulSoup"]("<ul><li></li></ul>", "html.parser")
                keep.append(h)
                h.li.append(v)
            pool.append((k, v))
    # strings take part too: a tag never equals a string, strings compare by text
    strs = [n for n in all_nodes(base) if not is_tag(n)]
    if strs:
        pool.append(("a-string", strs[0]))
        pool.append(("plain-str", raw(strs[0])))
        pool.append(("comment-same-text", e["cls"]["Comment"](raw(strs[0]))))
    return pool, keep


def check_pool(ctx, batch, recipe, pool_desc, seed_tuple, stream, pool_id):
    e = E()
    pool, keep = build_pool(recipe, pool_desc, seed_tuple)
    if not pool:
        return
    reg = Reg()
    dumps = []
    for lab, x in pool:
        try:
            dumps.append(dump(reg, x) if not isinstance(x, str) or isinstance(x, e["NS"]) else None)
        except Unrepresentable:
            dumps.append(None)
    base = pool[0][1]
    for (i, (la, a)), (j, (lb, b)) in itertools.product(enumerate(pool), repeat=2):
        case = {"op": "eq", "recipe": recipe, "pool": pool_desc, "seed": list(seed_tuple), "i": i, "j": j, "labels": [la, lb]}
        want = (a is b) or eq_spec(a, b) if (is_tag(a) or is_tag(b)) else raw(a) == raw(b)
        try:
            got_eq, got_ne = (a == b), (a != b)
        except RecursionError:
            raise
        except Exception as ex:
            ctx.violation("== raised", case=case, expected=want, observed=f"{type(ex).__name__}: {ex}", stream=stream)
            continue
        ctx.count(f"eq:{'equal' if want else 'different'}")
        if i != j:
            ctx.count(f"eq-variant:{la if i else lb}:{'equal' if want else 'different'}")
        ctx.case((pool_id, i, j) if (is_tag(a) and is_tag(b) and i != j) else None)
        if got_eq is not want or got_ne is not (not want):
            ctx.count(f"{stream}:oracle-fails")
            if sum(1 for v in ctx.violations if v["stream"] == stream) < 8:
                ctx.violation("== / != is not the structural relation of the property", case=case, expected=f"== {want}, != {not want}",
                              observed=f"== {got_eq}, != {got_ne}", stream=stream)
        if is_tag(a) and is_tag(b) and i != j and not is_soup(a) and not is_soup(b):
            same_render = bool(want) and a.decode() == b.decode() and a.prettify() == b.prettify()
            if ((want and la in ("base", "copy") and lb in ("base", "copy")) or same_render) and hash(a) != hash(b):
                ctx.count(f"{stream}:oracle-fails")
                if not capped(ctx, stream):
                    ctx.violation("a copy hashes differently from its original" if not same_render else
                                  "two tags that are equal and render identically hash differently (one was hashed before it was edited)",
                                  case=case, expected=hash(a), observed=hash(b), stream=stream)
        if dumps[i] is not None and dumps[j] is not None and (is_tag(a) or is_tag(b) or True):
            batch.add(f"c12 eq {dumps[i]} {dumps[j]}", f"{int(got_eq)}{int(b == a)}{int(got_ne)}", case,
                      "Lean eqImpl and == disagree", stream)


# --------------------------------------------------------------------------------------
# streams
# --------------------------------------------------------------------------------------
HOWS = ["copy", "deepcopy", "__copy__"]


BYTES_DECLS = [   # (codec the bytes are written in, from_encoding or None, <meta> declarations: spelling != detector's name)
    ("utf-8", None, ['<meta charset="UTF-8">', '<meta http-equiv="Content-Type" content="text/html; charset=UTF-8">', '<meta charset="utf8">']),
    ("latin-1", None, ['<meta charset="ISO-8859-1">', '<meta content="text/html; charset=ISO-8859-1" http-equiv="content-type">',
                       '<meta charset="Latin1">']),
    ("windows-1252", None, ['<meta charset="Windows-1252">', '<meta charset="CP1252">']),
    ("latin-1", "latin-1", ['<meta charset="x-user-defined">', '<meta http-equiv="Content-Type" content="text/html; charset=x-user-defined">']),
    ("koi8-r", None, ['<meta charset="KOI8-R">']),
    ("utf-8", None, ['<meta charset="utf-8">']),     # control: same spelling
]


def gen_recipe(r, big=False, from_bytes=False):
    cfg = r.choice(CONFIGS)
    style = r.random()
    markup = "" if style < 0.12 else gen_markup(r, big)
    recipe = {"markup": markup, "config": cfg, "ops": []}
    if from_bytes:
        enc, fe, decls = r.choice(BYTES_DECLS)
        head = "".join(r.sample(decls, r.choice((1, 1, 2)) if len(decls) > 1 else 1))
        recipe["markup"] = markup = r.choice(["%s", "<html><head>%s<title>t</title></head><body>"]) % head + (markup or "<p>caf\xe9</p>")
        recipe["bytes"] = {"encoding": enc, "from_encoding": fe}
    if r.random() < 0.06:
        recipe["subsoup"] = True
    nops = 0 if (markup and style < 0.35) else r.choice((1, 2, 3, 5, 8, 12))
    if not markup:
        nops = r.choice((4, 8, 12, 16))
    if nops:
        soup = build(recipe)
        for k in range(nops):
            op = gen_build_op(r, 100 + k)
            try:
                ok = apply_op(soup, op, soup)
            except RecursionError:
                raise
            except Exception:
                ok = False
            if ok:
                recipe["ops"].append(op)
    return recipe


def stream_random(ctx, batch, n_trees):
    for ti in range(n_trees):
        r = ctx.rng("tree", ti)
        recipe = gen_recipe(r, big=(ti % 9 == 0))
        world = build(recipe)
        pl = paths(world)
        if len(pl) > 90:
            ctx.count("tree:skipped-large")
            continue
        ctx.count("tree:config-" + recipe["config"])
        ctx.count("tree:" + ("parsed" if not recipe["ops"] else "parsed+edited" if recipe["markup"] else "api-built"))
        for op in recipe["ops"]:
            ctx.count("build-op:" + op[0])
        # every element is a receiver
        for ri, (el, path) in enumerate(pl):
            check_receiver(ctx, batch, recipe, world, el, path, HOWS[(ti + ri) % 3], "copies", ti, ri)
        # single edits, on the copy and on the original, each on a freshly built tree
        tagpaths = [p for n, p in pl if is_tag(n)]
        for k in range(ctx.n(5, 8)):
            path = r.choice(tagpaths) if r.random() < 0.85 else r.choice(pl)[1]
            kind = EDIT_KINDS[(ti * 5 + k) % len(EDIT_KINDS)] if r.random() < 0.7 else r.choice(EDIT_KINDS)
            op = gen_edit(r, kind, 500 + k)
            side = "copy" if (ti + k) % 2 == 0 else "original"
            if not is_tag(node_at(world, path)):
                if side == "copy":
                    continue   # a lone immutable string has nothing to edit
                # on the original's side: the string itself is replaced / removed
                w2 = build(recipe)
                s = node_at(w2, path)
                c = do_copy(s, "copy")
                before = (type(c), raw(c), c.parent, c.next_element)
                (s.extract if k % 2 else (lambda: s.replace_with("other")))()
                ctx.case(None)
                ctx.count("edit:original:string-" + ("extract" if k % 2 else "replace_with"))
                if (type(c), raw(c), c.parent, c.next_element) != before:
                    ctx.violation("editing the original string changed its copy", expected=str(before), observed="changed",
                                  case={"op": "edit", "recipe": recipe, "path": list(path), "how": "copy", "side": "original",
                                        "edit": ["str_extract" if k % 2 else "str_replace"]}, stream="independence")
                continue
            check_edit(ctx, batch, recipe, path, HOWS[(ti + k) % 3], side, op, "independence", ti, primed=(ti + k) % 5 != 0)


def stream_pools(ctx, batch, n_pools):
    for pi in range(n_pools):
        r = ctx.rng("pool", pi)
        recipe = gen_recipe(r)
        desc = {"base": r.randrange(64), "variants": [list(variant(r, recipe, k)) for k in r.sample(VARIANTS, ctx.n(8, 11))]}
        if r.random() < 0.6:
            desc["base_attrs"] = [[kk, vd] for kk, vd in r.sample([["disabled", ["n"]], ["checked", ["b", False]], ["n0", ["i", 0]],
                                                                    ["empty", ["s", ""]], ["el", ["l", "list", []]], ["hidden", ["n"]],
                                                                    ["t", ["b", True]]], r.choice((1, 2, 3)))]
        check_pool(ctx, batch, recipe, desc, (ctx.seed, "C12", "pool", pi), "equality", pi)


def capped(ctx, stream, cap=8):
    return sum(1 for v in ctx.violations if v["stream"] == stream) >= cap


def small_trees(max_nodes):
    """every ordered tree with at most max_nodes nodes over the labels a / a[x=1] (inner or leaf), s (string leaf), br (void leaf)"""
    from functools import lru_cache

    @lru_cache(None)
    def forests(n):
        """all forests with exactly n nodes, as tuples of trees; tree = (label, forest)"""
        if n == 0:
            return ((),)
        out = []
        for first in range(1, n + 1):
            for t in trees(first):
                for rest in forests(n - first):
                    out.append((t,) + rest)
        return tuple(out)

    @lru_cache(None)
    def trees(n):
        out = []
        if n == 1:
            out += [("s", ()), ("br", ())]
        for lab in ("a", "ax"):
            for f in forests(n - 1):
                out.append((lab, f))
        return tuple(out)
    for n in range(1, max_nodes + 1):
        for t in trees(n):
            if t[0] in ("a", "ax"):
                yield t


def build_small(t, via):
    e = E()
    soup = e["BeautifulSoup"]("", "html.parser")

    def rec(t):
        lab, kids = t
        if lab == "s":
            return e["NS"]("s")
        if lab == "br":
            return soup.new_tag("br") if via == "soup" else e["Tag"](name="br", can_be_empty_element=True)
        x = soup.new_tag("a") if via == "soup" else e["Tag"](name="a")
        if lab == "ax":
            x["x"] = "1"
        for k in kids:
            x.append(rec(k))
        return x
    root = rec(t)
    if via == "soup":
        soup.append(root)
    return soup, root


def small_markup(t):
    lab, kids = t
    if lab == "s":
        return "s"
    if lab == "br":
        return "<br/>"
    return ("<a x=\"1\">" if lab == "ax" else "<a>") + "".join(small_markup(k) for k in kids) + "</a>"


def stream_small(ctx, batch, max_nodes):
    """repeated identical sub-structure: `_event_stream` compares `c.parent != tag_stack[-1]` structurally"""
    n = 0
    for t in small_trees(max_nodes):
        for via in ("soup", "bare"):
            soup, root = build_small(t, via)
            n += 1
            ctx.case(("small", n))
            c = copy.copy(root)
            want = small_markup(t)
            got = c.decode()
            d = shape_diff(shape(root), shape(c))
            ev_ok = real_events(root) == expected_events(root)
            if (got != want or d or not ev_ok or not (c == root) or pointer_errors(c)) and not capped(ctx, "small-exhaustive"):
                ctx.violation("copy of a small tree with repeated identical sub-structure has the wrong shape",
                              case={"op": "small", "tree": t, "via": via}, expected=want, observed=got + (f" ({d})" if d else ""),
                              stream="small-exhaustive")
            # all elements below as receivers too (shape only)
            for el in all_nodes(root)[1:]:
                if is_tag(el):
                    cc = copy.copy(el)
                    if (shape_diff(shape(el), shape(cc)) or cc.parent is not None) and not capped(ctx, "small-exhaustive"):
                        ctx.violation("copy of an inner element of a small tree has the wrong shape",
                                      case={"op": "small", "tree": t, "via": via}, expected=el.decode(), observed=cc.decode(),
                                      stream="small-exhaustive")
    ctx.count("small:trees", n)
    ctx.exhaustive_parts.append(f"small-exhaustive: all {n} trees with <= {max_nodes} nodes over a / a[x] / string / void leaf, "
                                f"built through a builder and bare, every element copied")


def stream_nonstring(ctx):
    """repaired defect C12-copy-coerces-nonstring-attr: raw non-string attribute values of a parsed tag (plain AttributeDict)
    were coerced / dropped by the copy's HTMLAttributeDict"""
    for v in (2, 1.5, True, False, None, 0, -3, 10 ** 30, float("inf")):
        recipe = {"markup": '<a id="1">x</a>', "config": "default", "ops": []}
        soup = build(recipe)
        soup.a["k"] = v
        c = copy.copy(soup.a)
        ctx.case(("nonstring", repr(v)))
        ctx.count("nonstring-attr:cases")
        if not (c == soup.a) or c.decode() != soup.a.decode():
            ctx.violation("copy of a tag holding a non-string attribute value differs from the original",
                          case={"op": "nonstring", "value": repr(v)}, expected=f"== and {soup.a.decode()}",
                          observed=f"=={c == soup.a} and {c.decode()}", stream="nonstring-attr",
                          kf=None)


def stream_setitem(ctx, batch):
    """`d[key] = value` of AttributeDict / HTMLAttributeDict / XMLAttributeDict against the Lean `coerce`, over every kind of
    key and value the model knows; and the copy of a tag whose dict was filled behind its back (dict.update), which the model
    predicts (values an HTML/XMLAttributeDict would not have stored are processed by the copy) but the property does not cover"""
    e = E()
    NA = e["el"].NamespacedAttribute
    keys = ["k", "class", NA("xlink", "href", "http://x"), NA("xml", None), NA(None, "nm", None), NA("p", "", "u")]
    vals = [["s", "v"], ["s", ""], ["sc", "CharsetMetaAttributeValue", "utf8"], ["sc", "ContentMetaAttributeValue", "text/html; charset=x"],
            ["sc", "SubStrVal", "q"], ["l", "AttributeValueList", ["a", "b"]], ["l", "list", []], ["l", "MyAVL", ["x"]],
            ["i", 0], ["i", 1], ["i", 2], ["i", -17], ["i", 10 ** 25], ["b", True], ["b", False], ["n"]]
    n = 0
    for ci, cname in enumerate(DICT_CLASSES[:3]):
        for k in keys:
            for vd in vals:
                d = e["dcls"][cname]()
                v = make_value(vd)
                d[k] = v
                reg = Reg()
                real = val_tok(reg, d[k]) if k in d else "drop"
                vin = val_tok(Reg(), v)
                if vd[0] == "l":   # the very same list object is stored: identities agree by construction
                    real = val_tok(Reg(), d[k])
                case = {"op": "setitem", "dict": cname, "key": [str(k), getattr(k, "prefix", None), getattr(k, "name", None),
                                                                  getattr(k, "namespace", None), type(k).__name__], "value": vd}
                ctx.case(("setitem", cname, str(k), json.dumps(vd)))
                n += 1
                batch.add(f"c12 setitem {ci} {key_tok(k)} {vin}", real, case, "Lean coerce and AttributeDict.__setitem__ disagree", "setitem")
                # idempotence where the model proves it (setitem_idempotent)
                if k in d and not (cname == "HTMLAttributeDict" and d[k] is None):
                    d2 = e["dcls"][cname]()
                    d2[k] = d[k]
                    if k not in d2 or d2[k] is not d[k] and d2[k] != d[k]:
                        ctx.violation("a stored attribute value is not stored unchanged when set again", case=case, expected=repr(d[k]),
                                      observed=repr(d2.get(k)), stream="setitem")
    ctx.count("setitem:cases", n)
    ctx.exhaustive_parts.append(f"setitem: 3 dict classes x {len(keys)} kinds of key x {len(vals)} kinds of value against the Lean coerce")
    # unsettled dicts: model only
    for cname, xml in (("HTMLAttributeDict", None), ("XMLAttributeDict", True)):
        for vd in vals:
            for k in keys[:4]:
                t = e["Tag"](name="a", is_xml=xml, attrs={"id": "1"})
                dict.__setitem__(t.attrs, k, make_value(vd))
                try:
                    reg = Reg()
                    wd = dump(reg, t)
                    nxt = reg.next
                    c = copy.copy(t)
                    cd = dump(reg, c)
                    expected = f"{reg.next} {cd}"
                except Unrepresentable:
                    continue
                ctx.case(None)
                ctx.count("setitem:unsettled-copies")
                batch.add(f"c12 copy {inh_of(t)} {nxt} r {wd}", expected, {"op": "unsettled", "dict": cname, "key": str(k), "value": vd},
                          "Lean copyImpl and the copy of a tag with an unsettled attribute dict disagree", "setitem")


def soup_tokens(reg, s):
    f = lambda x: "N" if x is None else ptok(x)
    return " ".join([str(reg.oid(s.builder)), ob(bool(s.builder.is_xml)), ob(bool(s.is_xml)),
                     "N" if s.parse_only is None else str(reg.oid(s.parse_only)),
                     "N" if not s.element_classes else str(reg.oid(s.element_classes)),
                     f(s.original_encoding), f(s.declared_html_encoding), ob(bool(s.contains_replacement_characters))])


def stream_soupinfo(ctx, batch):
    """the document-level fields of a BeautifulSoup object under copy (against the Lean soupCopySelf) and under pickling:
    builder reuse, is_xml, parse_only, element_classes, original_encoding, declared_html_encoding, contains_replacement_characters"""
    e = E()
    import logging
    from bs4 import SoupStrainer
    logging.getLogger("bs4.dammit").setLevel(logging.ERROR)    # "Some characters could not be decoded" is expected here
    BS = e["BeautifulSoup"]
    body = '<html><head><meta charset="%s"><title>t</title></head><body><p class="a b">caf\xe9 %s</p><!--c--></body></html>'
    inputs = []
    for enc in ("latin-1", "utf-8", "windows-1252", "koi8-r"):
        try:
            inputs.append((f"bytes/{enc}", (body % (enc, "x")).encode(enc), {}))
        except UnicodeEncodeError:
            inputs.append((f"bytes/{enc}", (body % (enc, "x")).replace("\xe9", "e").encode(enc), {}))
    inputs.append(("str", body % ("utf-8", "y"), {}))
    inputs.append(("bytes/replacement", b"<p>\xff\xfe\x81\x8d caf\xc3\xa9</p>", {"from_encoding": "utf-8"}))
    inputs.append(("bytes/from_encoding", (body % ("latin-1", "z")).encode("latin-1"), {"from_encoding": "latin-1"}))
    inputs.append(("bytes/no-declaration", "<p>caf\xe9</p>".encode("utf-8"), {}))
    extras = [("plain", {}), ("parse_only", {"parse_only": SoupStrainer(["p", "meta"])}),
              ("element_classes", {"element_classes": {e["NS"]: e["cls"]["SubNS"]}}),
              ("both", {"parse_only": SoupStrainer("p"), "element_classes": {e["Tag"]: e["Tag"]}})]
    n = 0
    for iname, markup, kw in inputs:
        for xname, xkw in extras:
            for cls in (BS, e["SubSoup"]):
                s = cls(markup, "html.parser", **kw, **xkw)
                case = {"op": "soupinfo", "input": iname, "options": xname, "class": cls.__name__}
                fields = lambda x: (x.original_encoding, x.declared_html_encoding, x.contains_replacement_characters, x.is_xml,
                                    x.known_xml, bool(x.element_classes), x.parse_only is not None)
                for how in HOWS:
                    reg = Reg()
                    before = soup_tokens(reg, s)
                    c = do_copy(s, how)
                    after = soup_tokens(reg, c)
                    n += 1
                    ctx.case(("soupinfo", iname, xname, cls.__name__, how))
                    batch.add(f"c12 soupinfo {before}", after, case | {"how": how},
                              "Lean soupCopySelf and the fields of a copied BeautifulSoup disagree", "soupinfo")
                    bad = []
                    if type(c) is not type(s):
                        bad.append(("class", type(s).__name__, type(c).__name__))
                    if c.builder is not s.builder:
                        bad.append(("the copy does not reuse the builder", "same object", "another"))
                    if c.original_encoding != s.original_encoding or c.is_xml != s.is_xml or c.known_xml != s.known_xml:
                        bad.append(("original_encoding / is_xml / known_xml", fields(s), fields(c)))
                    bad += [(w, x, y) for w, x, y in oracle_copy(s, s, c)]
                    if c.declared_html_encoding != s.declared_html_encoding:
                        ctx.count("soupinfo:quirk-declared_html_encoding-not-carried-over")
                    if c.contains_replacement_characters != s.contains_replacement_characters:
                        ctx.count("soupinfo:quirk-contains_replacement_characters-not-carried-over")
                    if (c.parse_only is None) != (s.parse_only is None):
                        ctx.count("soupinfo:quirk-parse_only-dropped")
                    if bool(c.element_classes) != bool(s.element_classes):
                        ctx.count("soupinfo:quirk-element_classes-dropped")
                    for w, x, y in bad:
                        if not capped(ctx, "soupinfo"):
                            ctx.violation(f"copy of a BeautifulSoup object: {w}", case=case | {"how": how}, expected=str(x)[:1000],
                                          observed=str(y)[:1000], stream="soupinfo")
                # pickling keeps the whole __dict__
                if xname in ("plain", "parse_only"):
                    p = pickle.loads(pickle.dumps(s))
                    ctx.case(None)
                    if fields(p) != fields(s) or p.builder is s.builder or type(p) is not type(s):
                        if not capped(ctx, "soupinfo"):
                            ctx.violation("pickling a BeautifulSoup object does not keep its document-level fields", case=case | {"how": "pickle"},
                                          expected=str(fields(s)), observed=str(fields(p)), stream="soupinfo")
    ctx.count("soupinfo:copies", n)


def build_detached(desc):
    """a detached element: hand-built string / tag, or a node extracted from a built tree. -> (element, keep-alive)"""
    e = E()
    k = desc["kind"]
    if k == "hand-str":
        return e["cls"][desc["cls"]](desc["text"]), None
    if k == "new-string":
        soup = e["BeautifulSoup"]("", "html.parser")
        return soup.new_string(desc["text"], e["cls"][desc["cls"]]), soup
    if k == "hand-tag":
        t = make_bare_tag(desc["tag"])
        for i, kid in enumerate(desc.get("kids", [])):
            t.append(e["cls"][kid[1]](kid[2]) if kid[0] == "s" else make_bare_tag(kid[1]))
        return t, None
    if k == "new-tag":
        soup = e["BeautifulSoup"]("", "html.parser")
        t = soup.new_tag(desc["name"], attrs={"class": "a b", "id": "i"})
        t.append("x")
        return t, soup
    if k == "extracted":
        soup = build(desc["recipe"])
        nodes = all_nodes(soup)
        if len(nodes) < 2:
            return None, soup
        el = nodes[1 + desc["index"] % (len(nodes) - 1)]
        if desc.get("observe"):
            observe(soup)
        (el.extract if desc.get("how", "extract") == "extract" else (lambda: el.replace_with("gone")))()
        return el, soup
    raise ValueError(k)


def check_detached(ctx, batch, desc, how, stream="detached"):
    """copy of an element that is attached to nothing: a different object, detached, equal, same class; putting the copy into a
    tree or editing it leaves the original detached and unchanged; against the Lean copyImpl as well"""
    e = E()
    el, keep = build_detached(desc)
    if el is None:
        return
    case = {"op": "detached", "element": desc, "how": how}
    ctx.count(f"detached:{desc['kind']}:{type(el).__name__ if not is_tag(el) else 'Tag'}")
    ctx.case((stream, json.dumps(desc, sort_keys=True, default=str)[-160:], how))
    bad = []
    if el.parent is not None:
        return
    c = do_copy(el, how)
    if c is el:
        bad.append(("the copy of a detached element is the element itself", "another object", "the same object"))
    bad += oracle_copy(el, el, c)
    before = full_dump(el)
    links = lambda x: (x.parent, x.next_sibling, x.previous_sibling, x.previous_element,
                       all_nodes(x)[-1].next_element)
    # use the copy: put it into a document, then edit it there
    host = e["BeautifulSoup"]("<div><p>host</p><i>after</i></div>", "html.parser")
    host.p.insert(0, c)
    if any(v is not None for v in links(el)) or any(x is el for x in all_nodes(host)):
        bad.append(("inserting the copy into a tree attached the original", "original still detached", f"parent {el.parent!r}"))
    if is_tag(c):
        c["data-edited"] = "1"
        c.append("more")
        for t in all_nodes(c):
            if is_tag(t):
                for v in t.attrs.values():
                    if isinstance(v, list):
                        v.append("zz")
    else:
        c.replace_with("replaced")
    after = full_dump(el)
    if before != after or any(v is not None for v in links(el)):
        i = [x != y for x, y in zip(before, after)].index(True) if before != after else -1
        bad.append(("using the copy changed the detached original", "unchanged and detached",
                    observe_diff(before[4], after[4]) if i == 4 else shape_diff(before[0], after[0]) if i == 0 else f"links {links(el)!r}"))
    # and the other way round: a second copy, then the original goes into a tree
    c2 = do_copy(el, how)
    b2 = full_dump(c2)
    host2 = e["BeautifulSoup"]("<ul><li>x</li></ul>", "html.parser")
    host2.li.append(el)
    if full_dump(c2) != b2 or c2.parent is not None or c2 is el:
        bad.append(("inserting the original into a tree changed / attached its copy", "copy unchanged and detached", f"parent {c2.parent!r}"))
    for what, exp, obs in bad:
        ctx.count(f"{stream}:oracle-fails")
        if not capped(ctx, stream):
            ctx.violation(f"detached receiver: {what}", case=case, expected=str(exp)[:1500], observed=str(obs)[:1500], stream=stream)
    # the model: a detached receiver is a root of its own
    try:
        el3, keep3 = build_detached(desc)
        reg = Reg()
        wd = dump(reg, el3)
        nxt = reg.next
        c3 = do_copy(el3, how)
        cd = dump(reg, c3)
        batch.add(f"c12 copy {inh_of(el3)} {nxt} r {wd}", f"{reg.next} {cd}", case,
                  "Lean copyImpl and the copy of a detached element disagree", stream)
    except Unrepresentable:
        pass


def stream_detached(ctx, batch, n_trees):
    texts = ["x", "", " a b ", "x<y&z", "\u00e9\U0001f600"]
    k = 0
    for cls in STR_CLASSES:
        for text in texts:
            for kind in ("hand-str", "new-string"):
                k += 1
                check_detached(ctx, batch, {"kind": kind, "cls": cls, "text": text}, HOWS[k % 3])
    for i in range(24):
        r = ctx.rng("detached-tag", i)
        d = {"kind": "hand-tag", "tag": rand_bare(r, i),
             "kids": [["s", r.choice(STR_CLASSES), "k%d" % j] if r.random() < 0.6 else ["t", rand_bare(r, 50 + j)] for j in range(r.randint(0, 4))]}
        for how in HOWS:
            check_detached(ctx, batch, d, how)
    for nm in ("a", "br", "script", "pre"):
        for how in HOWS:
            check_detached(ctx, batch, {"kind": "new-tag", "name": nm}, how)
    for ti in range(n_trees):
        r = ctx.rng("detached", ti)
        recipe = gen_recipe(r)
        for j in range(3):
            check_detached(ctx, batch, {"kind": "extracted", "recipe": recipe, "index": r.randrange(256), "observe": r.random() < 0.5,
                                        "how": r.choice(("extract", "extract", "replace_with"))}, HOWS[(ti + j) % 3])
    ctx.exhaustive_parts.append(f"detached: every string class ({len(STR_CLASSES)}) x {len(texts)} texts x hand-built / soup.new_string, "
                                "copied while attached to nothing")


RUN_FORMS = ["list", "tuple", "dict", "object", "nested", "shared-memo", "direct-memo", "dict-keys"]


class Holder:
    """an application object that refers to elements (module-level: copyable and picklable)"""

    def __init__(self, items):
        self.current = items[0]
        self.others = list(items[1:])


def deepcopy_run(els, form):
    """ONE deepcopy run (one memo) over several elements -> their copies, in the order of `els`"""
    if form == "list":
        return list(copy.deepcopy(list(els)))
    if form == "tuple":
        return list(copy.deepcopy(tuple(els)))
    if form == "dict":
        d = copy.deepcopy({i: x for i, x in enumerate(els)})
        return [d[i] for i in range(len(els))]
    if form == "dict-keys":
        # elements as dict keys (hashable); distinct keys only
        d = copy.deepcopy({"k": [{"item": x} for x in els]})
        return [y["item"] for y in d["k"]]
    if form == "object":
        h = copy.deepcopy(Holder(els))
        return [h.current] + h.others
    if form == "nested":
        d = copy.deepcopy({"first": [els[0]], "rest": (list(els[1:]),)})
        return d["first"] + d["rest"][0]
    if form == "shared-memo":
        memo = {}
        return [copy.deepcopy(x, memo) for x in els]
    if form == "direct-memo":
        memo = {}
        return [x.__deepcopy__(memo) for x in els]
    raise ValueError(form)


def check_deepcopy_run(ctx, batch, recipe, idxs, form, stream="deepcopy-run"):
    """several elements of one tree (a tag before its ancestor, after it, siblings, the same twice, strings, the root) copied in
    ONE deepcopy run: every copy is judged as a copy of its original — equal, rendering alike, detached, consistently linked,
    sharing nothing with the original's tree — and compared with the Lean copyImpl run in the same order"""
    world = build(recipe)
    nodes = all_nodes(world)
    els = [nodes[i % len(nodes)] for i in idxs]
    case = {"op": "deepcopy-run", "recipe": recipe, "elements": idxs, "form": form}

    def anc(a, b):
        while b is not None:
            b = b.parent
            if b is a:
                return True
        return False
    rel = set()
    for i, a in enumerate(els):
        for b in els[i + 1:]:
            rel.add("same-twice" if a is b else "descendant-first" if anc(b, a) else "ancestor-first" if anc(a, b) else "unrelated")
    for x in rel:
        ctx.count(f"deepcopy-run:{x}")
    ctx.count(f"deepcopy-run:form-{form}")
    ctx.case((stream, json.dumps([recipe["markup"][:80], idxs, form])))
    before = full_dump(world)
    try:
        copies = deepcopy_run(els, form)
    except RecursionError:
        raise
    except Exception as ex:
        ctx.violation("a deepcopy run over several elements raised", case=case, expected="copies",
                      observed=f"{type(ex).__name__}: {ex}", stream=stream)
        return
    bad = []
    if full_dump(world) != before:
        bad.append(("the deepcopy run changed the original tree", "unchanged", "changed"))
    done = {}
    for i, (el, c) in enumerate(zip(els, copies)):
        if id(el) in done:
            continue       # the same original twice: the copy module hands out the first copy again
        done[id(el)] = c
        for what, exp, obs in oracle_copy(world, el, c):
            bad.append((f"element {i} of the run ({'tag ' + el.name if is_tag(el) else type(el).__name__}): {what}", exp, obs))
    # copies of different originals are separate trees: using one does not show in another
    firsts = list(done.values())
    if len(firsts) > 1 and is_tag(firsts[0]):
        others = [full_dump(c) for c in firsts[1:]]
        firsts[0]["data-edited"] = "1"
        firsts[0].append("more")
        if [full_dump(c) for c in firsts[1:]] != others:
            bad.append(("editing one copy of the run changed another copy of the run", "unchanged", "changed"))
    for what, exp, obs in bad:
        ctx.count(f"{stream}:oracle-fails")
        if not capped(ctx, stream):
            ctx.violation(f"one deepcopy run over several elements: {what}", case=case, expected=str(exp)[:1500], observed=str(obs)[:1500],
                          stream=stream)
    # the model: the same copies, one after the other, identities allocated in that order
    try:
        w2 = build(recipe)
        n2 = all_nodes(w2)
        els2 = [n2[i % len(n2)] for i in idxs]
        pth = {id(n): p_ for n, p_ in paths(w2)}
        reg = Reg()
        wd = dump(reg, w2)
        root_inh = inh_of(w2)
        copies2 = deepcopy_run(els2, form)
        seen = set()
        for el, c in zip(els2, copies2):
            if id(el) in seen or is_soup(el):
                if is_soup(el):
                    dump(reg, c)     # numbered, compared by the copies stream
                continue
            seen.add(id(el))
            nxt = reg.next
            cd = dump(reg, c)
            ptxt = ".".join(map(str, pth[id(el)])) or "r"
            batch.add(f"c12 copy {root_inh} {nxt} {ptxt} {wd}", f"{reg.next} {cd}", case,
                      "Lean copyImpl and one copy of a deepcopy run over several elements disagree", stream)
    except Unrepresentable:
        pass


def stream_deepcopy_runs(ctx, batch, n_trees):
    for ti in range(n_trees):
        r = ctx.rng("deepcopy-run", ti)
        recipe = gen_recipe(r)
        world = build(recipe)
        nodes = all_nodes(world)
        if len(nodes) < 3 or len(nodes) > 70:
            continue
        tags = [i for i, n in enumerate(nodes) if is_tag(n)]
        for j in range(3):
            # a node and one of its ancestors, in either order; plus random others
            a = r.randrange(1, len(nodes))
            chain = []
            q = nodes[a].parent
            while q is not None:
                chain.append(next(i for i, n in enumerate(nodes) if n is q))
                q = q.parent
            b = r.choice(chain)
            idxs = [a, b] if r.random() < 0.6 else [b, a]
            for _ in range(r.choice((0, 0, 1, 2))):
                idxs.insert(r.randrange(len(idxs) + 1), r.choice([r.randrange(len(nodes)), a, r.choice(tags)]))
            check_deepcopy_run(ctx, batch, recipe, idxs, RUN_FORMS[(ti + j) % len(RUN_FORMS)])


def stream_settings(ctx):
    """one bare tag per parameter of the live Tag.__init__, given a distinctive value: every instance attribute of the copy
    equals the original's (the search behind the generated copy_self table)"""
    import inspect
    e = E()
    T = e["Tag"]
    distinct = {"namespace": "http://n", "prefix": "pf",
                "attrs": {"class": e["el"].AttributeValueList(["a", "b"]), "id": "i"}, "is_xml": True, "sourceline": 12,
                "sourcepos": 34, "can_be_empty_element": True, "cdata_list_attributes": {"*": {"class"}},
                "preserve_whitespace_tags": {"nm"}, "interesting_string_types": {e["cls"]["Comment"]},
                "namespaces": {"pf": "http://n"}}
    skip = {"self", "parser", "builder", "parent", "previous", "name"}
    links = {"parent", "next_element", "previous_element", "next_sibling", "previous_sibling", "contents", "attrs"}
    params = [p for p in inspect.signature(T.__init__).parameters if p not in skip]
    for p in params + ["<all>", "<hidden>"]:
        if p not in distinct and not p.startswith("<"):
            ctx.count("settings:parameter-unknown-to-the-check")
            ctx.notes.append(f"Tag.__init__ has a parameter the check has no distinctive value for: {p}")
            continue
        kw = dict(distinct) if p.startswith("<") else {p: distinct[p]}
        t = T(name="nm", **kw)
        if p == "<hidden>":
            t.hidden = True
        for how in HOWS:
            c = do_copy(t, how)
            ctx.case(("settings", p, how))
            ctx.count("settings:cases")
            a, b = vars(t), vars(c)
            # known_xml of a copy holds the original's resolved _is_xml (None becomes the HTML default False): compare what it means
            diff = [k for k in sorted(set(a) | set(b)) if k not in links and k != "known_xml" and (k not in a or k not in b or a[k] != b[k])]
            if t._is_xml != c._is_xml:
                diff.append("known_xml")
            if a["attrs"] != b["attrs"] or (a["attrs"] and a["attrs"] is b["attrs"]):
                diff.append("attrs")
            if diff and not capped(ctx, "settings"):
                ctx.violation("the copy of a tag does not keep an instance attribute", case={"op": "settings", "param": p, "how": how},
                              expected={k: repr(a.get(k)) for k in diff}, observed={k: repr(b.get(k)) for k in diff}, stream="settings")
    ctx.exhaustive_parts.append(f"settings: every parameter of the live Tag.__init__ ({', '.join(params)}) given a distinctive value, "
                                "alone and all together, x 3 ways of copying; all instance attributes compared")


def reparse(soup, config="default"):
    """decode() + parse with an equally configured, new builder: what a pickle round trip is allowed to be.
    (Not a pickled copy of soup.builder: after __setstate__ the builder of an unpickled document still points back to the
    document — `builder.soup` is cleared by __init__ only — and pickling that builder on its own fails in __setstate__.)"""
    # the rendering a pickle stores names no target encoding (f08ffee: `self.decode(eventual_encoding=None)`): a <meta> charset
    # declaration comes back as it was, not rewritten to decode()'s default utf-8 — which is also what "equal to the original" asks for
    return type(soup)(soup.decode(eventual_encoding=None), builder=type(soup.builder)(**config_kwargs(config)))


def pickle_oracle(soup, p, config="default"):
    """the property for one pickle round trip soup -> p: p is what decode() + re-parse of the CURRENT tree gives, equal to
    the original where no normalisation applies, consistently linked and independent"""
    bad = []
    ref = reparse(soup, config)
    if not (p == ref) or not (ref == p) or p.decode() != ref.decode():
        bad.append(("the unpickled document is not the re-parse of the rendering of the document that was pickled", ref.decode(), p.decode()))
    d = shape_diff(shape(ref), shape(p))
    if d:
        bad.append(("the unpickled document differs from the re-parse in classes / attributes / settings", "same", d))
    if eq_spec(ref, soup) and (not (p == soup) or not (soup == p) or (p != soup)):   # eq_spec: the independent evaluator
        bad.append(("the unpickled document is not equal to the original", "==", "!="))
    if eq_spec(ref, soup) and ref.decode() == soup.decode() and hash(p) != hash(soup):
        bad.append(("the unpickled document hashes differently from the (normalisation-free) original", hash(soup), hash(p)))
    wm, pm = mutable_objects(soup), mutable_objects(p)
    common = [pm[k] for k in pm if k in wm]
    if common:
        bad.append(("the unpickled document shares objects with the original", "none", "; ".join(common[:3])))
    pe = pointer_errors(p)
    if pe:
        bad.append(("the unpickled document is not consistently linked", "consistent", "; ".join(pe)))
    return bad


def run_pickle_history(ctx, recipe, steps, stream):
    """generations of pickling interleaved with observations, edits and copies. Every round trip is judged against the tree
    as it is at that moment (a document that came out of a pickle keeps the markup it was rebuilt from)."""
    cur = build(recipe)
    gen = 0
    for si, st in enumerate(steps):
        case = {"op": "pickle-history", "recipe": recipe, "steps": steps[:si + 1]}
        kind = st[0]
        try:
            if kind == "observe":
                observe(cur)
            elif kind == "edit":
                try:
                    apply_op(cur, st[1], cur)
                except RecursionError:
                    raise
                except Exception:
                    pass
            elif kind in ("copy", "copy-switch"):
                c = do_copy(cur, st[1])
                ctx.case(None)
                ctx.count(f"pickle-history:copy-of-generation-{min(gen, 3)}")
                for what, exp, obs in oracle_copy(cur, cur, c):
                    ctx.count(f"{stream}:oracle-fails")
                    if not capped(ctx, stream):
                        ctx.violation(f"copy of a document of pickle generation {gen}: {what}", case=case, expected=str(exp)[:2000],
                                      observed=str(obs)[:2000], stream=stream)
                if kind == "copy-switch":
                    cur = c
            elif kind == "pickle":
                if len(all_nodes(cur)) > 70:
                    return
                p = pickle.loads(pickle.dumps(cur))
                gen += 1
                ctx.case(("pickle-history", json.dumps(case, sort_keys=True, default=str)[-200:], si) if gen > 1 else None)
                ctx.count(f"pickle-history:generation-{min(gen, 4)}")
                for what, exp, obs in pickle_oracle(cur, p, recipe.get("config", "default")):
                    ctx.count(f"{stream}:oracle-fails")
                    if not capped(ctx, stream):
                        ctx.violation(f"pickle generation {gen}: {what}", case=case, expected=str(exp)[:2000], observed=str(obs)[:2000],
                                      stream=stream)
                cur = p
            elif kind == "pickle-element":
                nodes = all_nodes(cur)
                if len(nodes) < 2 or len(nodes) > 25:
                    continue
                el = nodes[1 + st[1] % (len(nodes) - 1)]
                q = pickle.loads(pickle.dumps(el))
                ctx.case(None)
                ctx.count("pickle-history:element")
                wm, qm = mutable_objects(cur), mutable_objects(q)
                if (not (q == el) or type(q) is not type(el) or renderings(q) != renderings(el) or any(k in wm for k in qm)) \
                        and not capped(ctx, stream):
                    ctx.violation(f"an element of a document of pickle generation {gen}, unpickled, is not an independent equal of it",
                                  case=case, expected=renderings(el)[0], observed=renderings(q)[0], stream=stream)
        except RecursionError:
            ctx.count("pickle:recursion (C11)")
            return
        except Exception as ex:
            if not capped(ctx, stream):
                ctx.violation(f"step {kind} of a pickle history raised", case=case, expected="no exception",
                              observed=f"{type(ex).__name__}: {ex}", stream=stream)
            return


def stream_pickle_history(ctx, n):
    for hi in range(n):
        r = ctx.rng("pickle-history", hi)
        recipe = gen_recipe(r, from_bytes=(hi % 3 == 0))
        steps = []
        for g in range(r.choice((2, 2, 3, 4))):
            if r.random() < 0.3:
                steps.append(["observe"])
            steps.append(["pickle"])
            if r.random() < 0.5:
                steps.append(["observe"])
            for k in range(r.choice((0, 1, 1, 2, 3))):
                steps.append(["edit", gen_edit(r, r.choice(EDIT_KINDS), 700 + 10 * g + k)])
            j = r.random()
            if j < 0.25:
                steps.append(["copy", r.choice(HOWS)])
            elif j < 0.4:
                steps.append(["copy-switch", r.choice(HOWS)])
            elif j < 0.5:
                steps.append(["pickle-element", r.randrange(64)])
        steps.append(["pickle"])
        run_pickle_history(ctx, recipe, steps, "pickle-history")


def stream_pickle(ctx, n_docs):
    e = E()
    for di in range(n_docs):
        r = ctx.rng("pickle", di)
        recipe = gen_recipe(r, from_bytes=(di % 3 == 0))
        ctx.count("pickle:" + ("parsed-from-bytes-with-declaration" if recipe.get("bytes") else "parsed-from-str"))
        # classes defined by bs4 or this module only (picklable); the harness' element classes are module-level
        soup = build(recipe)
        case = {"op": "pickle", "recipe": recipe}
        if len(all_nodes(soup)) > 60:
            continue
        try:
            data = pickle.dumps(soup)
            p = pickle.loads(data)
        except RecursionError:
            ctx.count("pickle:recursion (C11)")
            continue
        except Exception as ex:
            ctx.case(None)
            ctx.violation("pickling a document raised", case=case, expected="a round trip", observed=f"{type(ex).__name__}: {ex}",
                          stream="pickle")
            continue
        ctx.case(("pickle", di))
        ctx.count("pickle:documents")
        try:
            ref = reparse(soup, recipe.get("config", "default"))
        except Exception as ex:
            ctx.count("pickle:reparse-raised-" + type(ex).__name__)
            continue
        bad = []
        if not (p == ref) or p.decode() != ref.decode():
            bad.append(("the unpickled document is not the re-parse of the original's rendering", ref.decode(), p.decode()))
        d = shape_diff(shape(ref), shape(p))
        if d:
            bad.append(("the unpickled document differs from the re-parse in classes / attributes / settings", "same", d))
        if eq_spec(ref, soup):     # decided by the independent evaluator, not by the == under test
            ctx.count("pickle:normalisation-free")
            if not (p == soup) or not (soup == p) or (p != soup):
                bad.append(("the unpickled document is not equal to the original", "==", "!="))
        else:
            ctx.count("pickle:normalised")
        wm, pm = mutable_objects(soup), mutable_objects(p)
        common = [pm[k] for k in pm if k in wm]
        if common:
            bad.append(("the unpickled document shares objects with the original", "none", "; ".join(common[:3])))
        pe = pointer_errors(p)
        if pe:
            bad.append(("the unpickled document is not consistently linked", "consistent", "; ".join(pe)))
        # independence: one edit on the unpickled document
        before = full_dump(soup)
        op = gen_edit(r, r.choice(EDIT_KINDS), 900)
        try:
            apply_op(p, op, p)
        except Exception:
            pass
        if full_dump(soup) != before:
            bad.append(("editing the unpickled document changed the original", "unchanged", str(op)))
        for what, exp, obs in bad:
            ctx.count("pickle:oracle-fails")
            if not capped(ctx, "pickle"):
                ctx.violation(what, case=case, expected=str(exp)[:2000], observed=str(obs)[:2000], stream="pickle")
        # small tags and strings of this document (default pickling walks the links: small documents only)
        if len(all_nodes(soup)) <= 25:
            for el, path in paths(soup)[1:6]:
                try:
                    q = pickle.loads(pickle.dumps(el))
                except RecursionError:
                    ctx.count("pickle:recursion (C11)")
                    continue
                except Exception as ex:
                    ctx.violation("pickling an element raised", case=case | {"path": list(path)}, expected="a round trip",
                                  observed=f"{type(ex).__name__}: {ex}", stream="pickle")
                    continue
                ctx.case(None)
                ctx.count("pickle:" + ("tags" if is_tag(el) else "strings"))
                qm = mutable_objects(q)
                if (not (q == el) or type(q) is not type(el) or renderings(q) != renderings(el) or any(k in wm for k in qm)) \
                        and not capped(ctx, "pickle"):
                    ctx.violation("the unpickled element is not an independent equal of the original", case=case | {"path": list(path)},
                                  expected=renderings(el)[0], observed=renderings(q)[0], stream="pickle")


def stream_corpus(ctx, batch):
    d = CORPUS / "C12"
    if not d.exists():
        return
    for f in sorted(d.glob("*.json")):
        v = json.loads(f.read_text())
        run_case(ctx, batch, v.get("case", v), "corpus")
        ctx.count("corpus:cases")


def run_case(ctx, batch, c, stream):
    """re-run one recorded case through the same checks"""
    op = c.get("op")
    if op in ("copy", "events"):
        world = build(c["recipe"])
        el = node_at(world, c["path"])
        check_receiver(ctx, batch, c["recipe"], world, el, tuple(c["path"]), c.get("how", "copy"), stream, -1, 0)
    elif op == "edit":
        if c["edit"][0].startswith("str_"):
            return
        check_edit(ctx, batch, c["recipe"], tuple(c["path"]), c["how"], c["side"], c["edit"], stream, -1, primed=c.get("primed", True))
    elif op == "eq":
        check_pool(ctx, batch, c["recipe"], c["pool"], tuple(c["seed"]), stream, -1)
    elif op == "pickle-history":
        run_pickle_history(ctx, c["recipe"], c["steps"], stream)
    elif op == "detached":
        check_detached(ctx, batch, c["element"], c["how"], stream)
    elif op == "deepcopy-run":
        check_deepcopy_run(ctx, batch, c["recipe"], c["elements"], c["form"], stream)


# --------------------------------------------------------------------------------------
# the probe objects of translate/parts_c12.py, read as inputs of the property itself

# the observed facts (translate/parts_c12.py: spy subclasses, sentinel values) that are claims of the PROPERTY TEXT on the probe
# objects - "preserves every tag's attributes and settings, is attached to no tree, shares no mutable state", "a pickle round
# trip yields an object equal to the original up to the re-parse". What the constructor / decode merely *received* is not a claim
# of the property: those facts are Lean obligations only (Props/C12 copy_self_observed, pickle_observed).
PROBE_CLAIMS = {
    "copySelfClone": {"name": "same", "namespace": "same", "prefix": "same", "attrs": "rebuilt", "parent": "none", "previous": "none",
                      "is_xml": "same", "sourceline": "same", "sourcepos": "same", "can_be_empty_element": "same",
                      "cdata_list_attributes": "same", "preserve_whitespace_tags": "same", "interesting_string_types": "same",
                      "namespaces": "same"},
    "copySelfFacts": {k: True for k in (
        "attrs_fresh_object", "attrs_keys_in_order", "attrs_same_class", "can_be_empty_element_carried",
        "can_be_empty_element_none_carried", "clone_is_new_object_of_same_class", "empty_attrs_same_class_fresh", "hidden_carried",
        "hidden_false_carried", "list_values_fresh", "list_values_same_class_same_items", "no_contents", "no_links", "no_parent",
        "original_untouched", "other_values_identical")},
    "soupCopySelfFacts": {k: True for k in ("clone_is_new_object_of_same_class", "no_parent_no_siblings", "original_untouched")},
    "getstateFacts": {k: True for k in ("markup_is_current_tree_not_leftover", "empty_tree_gives_empty_markup", "object_untouched")},
    "setstateFacts": {k: True for k in ("tree_is_parse_of_state_markup",)},
}
PROBE_OF = {"copySelfClone": "copy_self", "copySelfFacts": "copy_self", "soupCopySelfFacts": "soup_copy_self",
            "getstateFacts": "getstate", "setstateFacts": "setstate"}


def run_probes():
    tr = str(Path(__file__).resolve().parent.parent / "translate")
    if tr not in sys.path:
        sys.path.append(tr)
    import parts_c12
    return parts_c12.all_probes()


def probe_failures(r):
    out = []
    for table, claims in PROBE_CLAIMS.items():
        got = dict((k, v) for k, v in r[table])
        why = r["raised"].get(PROBE_OF[table])
        for fact, want in claims.items():
            obs = got.get(fact, "raised: " + str(why) if why else "missing")
            if obs != want:
                out.append((table, fact, want, obs))
    return out


def stream_probes(ctx):
    r = run_probes()
    bad = {(t, f): (w, o) for t, f, w, o in probe_failures(r)}
    for table, claims in PROBE_CLAIMS.items():
        for fact, want in claims.items():
            case = {"op": "probe", "probe": PROBE_OF[table], "table": table, "fact": fact}
            ctx.case((table, fact), case)
            ctx.count(f"branch:probe-{PROBE_OF[table]}")
            if (table, fact) in bad:
                ctx.violation(f"probe object of translate/parts_c12.py ({PROBE_OF[table]}): {fact} does not hold", case=case,
                              expected=str(want), observed=str(bad[(table, fact)][1]), stream="probes")


def run(ctx: Ctx):
    import warnings
    warnings.simplefilter("ignore")
    ctx.rule = ("every element of every tree is copied (copy.copy / copy.deepcopy / __copy__ in rotation); a receiver counts as non-trivial "
                "when it is a tag with at least two descendants and some attribute below it; every applied single edit (tree, receiver, "
                "side, kind) and every ordered pair of distinct tags of an equality pool counts as one non-trivial case; 4 of 5 edit "
                "cases are 'primed' (all nodes hashed/rendered/compared before the edit), each followed by the twin comparison and by "
                "copies of the edited element, its parent and the root")
    ctx.assumptions = [
        "_event_stream(descendants) yields the balanced event list of the tree (C01/C02 chain invariant; compared on every receiver)",
        "attribute values are str (any class), lists of str, int, bool or None; float by the oracle only; every dict was filled through its "
        "own __setitem__ (tag[k] = v, Tag(attrs=...)) — dicts filled behind their back are compared with the model only",
        "builder-level setting objects (cdata_list_attributes, preserve_whitespace_tags, interesting_string_types, _namespaces) and a "
        "BeautifulSoup's TreeBuilder are shared by design and compared by value; parser_class, the attrs dict class and "
        "attribute_value_list_class are not kept by a copy (recorded quirk, modelled)",
        "the BeautifulSoup object itself carries no attributes, its own name and hidden flag are untouched (documented); "
        "a parentless plain Tag or string without known_xml counts as HTML (_is_xml False; repaired in /repo 59fbf52, before that "
        "getattr(tag, 'is_xml') searched for a child tag of that name)",
        "object identities are compared through pre-order numbering, not id()",
        "hash of a mutable tree changes when it is edited (set/dict membership after edits is not claimed); claimed: a copy hashes "
        "like its original at the moment of copying whatever was observed before, and tags that are == and render identically hash alike",
        "pickle: compared with decode() + re-parse by an equally configured builder; Tag/NavigableString pickles on small documents only",
    ]
    E()
    batch = Batch(ctx)
    import traceback
    streams = [("corpus", lambda: stream_corpus(ctx, batch)), ("nonstring-attr", lambda: stream_nonstring(ctx)),
               ("probes", lambda: stream_probes(ctx)),
               ("setitem", lambda: stream_setitem(ctx, batch)), ("soupinfo", lambda: stream_soupinfo(ctx, batch)),
               ("settings", lambda: stream_settings(ctx)), ("detached", lambda: stream_detached(ctx, batch, ctx.n(120, 1500))),
               ("deepcopy-run", lambda: stream_deepcopy_runs(ctx, batch, ctx.n(150, 2000))), ("small-exhaustive", lambda: stream_small(ctx, batch, ctx.n(5, 6))),
               ("copies", lambda: stream_random(ctx, batch, ctx.n(800, 7000))),
               ("equality", lambda: stream_pools(ctx, batch, ctx.n(180, 1600))),
               ("pickle", lambda: stream_pickle(ctx, ctx.n(240, 3000))),
               ("pickle-history", lambda: stream_pickle_history(ctx, ctx.n(200, 2500)))]
    for name, fn in streams:
        try:
            fn()
        except RecursionError:
            raise
        except Exception as ex:
            # the real objects behaved in a way the check's own bookkeeping did not survive: a verdict, not a crash of the run
            ctx.violation(f"the {name} stream could not go on: the implementation produced an object the check cannot even inspect",
                          case={"op": "stream-error", "stream": name}, expected="inspectable objects",
                          observed="".join(traceback.format_exception_only(type(ex), ex)).strip() + " @ " +
                                   traceback.format_tb(ex.__traceback__)[-1].strip().replace("\n", " "), stream=name)
    batch.flush()
    if ctx.lean is not None and not ctx.lean.ok:
        ctx.notes.append("Lean obligations did not check; the generated tables describe the behaviour of copy_self / __getstate__ / "
                         "__setstate__ on the probe objects of translate/parts_c12.py: the probes stream reads the same objects as "
                         "inputs of the property, the copies / settings / pickle streams are the wider search for a failing input")
    ctx.notes.append("quirks observed and modelled: a copy has parser_class None, the stock "
                     "attribute_value_list_class, known_xml = the original's _is_xml; BeautifulSoup.copy_self takes the root data from "
                     "the builder; == ignores string classes, prefix, namespace and settings, so equal tags may render and hash "
                     "differently (only copies are claimed to hash alike)")


# --------------------------------------------------------------------------------------
def replay(path):
    import warnings
    warnings.simplefilter("ignore")
    E()
    v = json.load(open(path))
    c = v["case"]
    ctx = Ctx("C12", "quick", v.get("seed", 0))
    ctx.known = {}
    batch = Batch(ctx)
    op = c.get("op")
    if op == "small":
        def tup(t):
            return (t[0], tuple(tup(k) for k in t[1]))
        soup, root = build_small(tup(c["tree"]), c["via"])
        cp = copy.copy(root)
        print("original:", root.decode())
        print("copy    :", cp.decode())
        return 0 if cp.decode() == root.decode() and cp == root else 1
    if op == "nonstring":
        soup = build({"markup": '<a id="1">x</a>', "config": "default", "ops": []})
        soup.a["k"] = eval(c["value"], {})
        cp = copy.copy(soup.a)
        print("original:", soup.a.decode(), dict(soup.a.attrs))
        print("copy    :", cp.decode(), dict(cp.attrs), "equal:", cp == soup.a)
        return 0 if cp == soup.a and cp.decode() == soup.a.decode() else 1
    if op == "settings":
        stream_settings(ctx)
        for w in ctx.violations:
            if w["case"]["param"] == c["param"] and w["case"]["how"] == c["how"]:
                print(f"Tag(name='nm', {c['param']}=...) copied with {c['how']}: original", w["expected"], "copy", w["observed"])
                return 1
        print("every instance attribute kept")
        return 0
    if op == "probe":
        r = run_probes()
        got = dict((k, v) for k, v in r[c["table"]])
        want = PROBE_CLAIMS[c["table"]][c["fact"]]
        print(f"probe {c['probe']} (translate/parts_c12.py, probe_* functions build the objects): {c['table']}.{c['fact']} =",
              got.get(c["fact"]), "| the property wants", want, "| probe raised:", r["raised"].get(c["probe"]))
        return 0 if got.get(c["fact"]) == want else 1
    if op == "pickle-history":
        run_pickle_history(ctx, c["recipe"], c["steps"], "replay")
        print("tree:", ascii(build(c["recipe"]).decode()), "steps:", c["steps"])
        for w in ctx.violations:
            print("FAIL:", w["what"], "| expected:", ascii(str(w["expected"])[:300]), "| observed:", ascii(str(w["observed"])[:300]))
        return 1 if ctx.violations else 0
    if op == "pickle":
        soup = build(c["recipe"])
        p = pickle.loads(pickle.dumps(soup))
        ref = reparse(soup, c["recipe"].get("config", "default"))
        print("original :", ascii(soup.decode()))
        print("unpickled:", ascii(p.decode()))
        print("re-parse :", ascii(ref.decode()))
        return 0 if p == ref and not shape_diff(shape(ref), shape(p)) else 1
    if op == "detached":
        el, keep = build_detached(c["element"])
        print("detached element:", type(el).__name__, ascii(el.decode() if is_tag(el) else raw(el)), "copied with", c["how"])
    if op == "deepcopy-run":
        print("one deepcopy run, form:", c["form"], "elements (pre-order indices):", c["elements"])
    if op in ("copy", "events", "edit", "eq", "detached", "deepcopy-run"):
        if "recipe" in c:
            print("tree:", ascii(build(c["recipe"]).decode()), "config:", c["recipe"].get("config"), "ops:", c["recipe"].get("ops"))
        for k in ("path", "how", "side", "edit", "labels"):
            if k in c:
                print(f"{k}: {c[k]}")
        run_case(ctx, batch, c, "replay")
        batch.flush()
        for w in ctx.violations:
            print("FAIL:", w["what"], "| expected:", str(w["expected"])[:300], "| observed:", str(w["observed"])[:300],
                  ("| model: " + str(w["model_reply"])[:300]) if w.get("model_reply") else "")
        return 1 if ctx.violations else 0
    print(json.dumps(v, indent=1)[:3000])
    return 1
